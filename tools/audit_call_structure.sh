#!/bin/sh
# Self-audit: run every check with call monitors blind to calls made from inside the cryocat package (as if cryoCAT had been
# refactored so that its functions reach each other through private names).  Every check must still end "held-on-observed":
# an INCONCLUSIVE here means a monitor's floor depends on cryoCAT's internal call structure (a false-alarm risk under refactoring).
# usage: tools/audit_call_structure.sh [quick|thorough] [C01 C02 ...]
cd "$(dirname "$0")/.." || exit 2
tier=${1:-quick}; [ $# -gt 0 ] && shift
props=${*:-$(cat READY.txt)}
bad=0
for p in $props; do
  out=$(VERIF_BYPASS_INTERNAL=1 VERIF_NO_EVIDENCE=1 VERIF_NO_RIDEALONG=1 ./check "$p" --tier "$tier" 2>&1)
  echo "$out" | grep -E "^(RESULT|INCONCLUSIVE|VIOLATION)" | sed "s/^/$p: /" | cut -c1-260
  echo "$out" | grep -q "^RESULT held-on-observed" || bad=$((bad+1))
done
echo "not-held=$bad"
[ "$bad" -eq 0 ]
