#!/venv/bin/python
"""Regenerate /verif/MANIFEST.json from the property modules that exist (vmon/props/cNN.py with MANIFEST dict or defaults)."""
import importlib, json, os, sys
VERIF = os.path.dirname(os.path.dirname(os.path.abspath(__file__)))
sys.path.insert(0, VERIF)
sys.path.insert(0, os.path.join(VERIF, "tools"))
props = [json.loads(l) for l in open(os.path.join(VERIF, "properties.jsonl"))]
checks, na = [], []
for p in props:
    pid = p["id"]
    path = os.path.join(VERIF, "vmon", "props", pid.lower() + ".py")
    ready = set(open(os.path.join(VERIF, "READY.txt")).read().split())
    if not os.path.exists(path) or pid not in ready:
        na.append({"property_id": pid, "reason": "check not built yet in this round (runtime monitors designed in DESIGN.md section 4/%s); not claimed until its monitors run silently on the unchanged tree" % pid})
        continue
    mod = importlib.import_module("vmon.props." + pid.lower())
    from manifest_texts import T
    meta = dict(getattr(mod, "MANIFEST", {}))
    if pid in T:
        meta.setdefault("text", T[pid][0] + " Exploration level: a clean run is not a proof.")
        meta.setdefault("note", "Trusted: numpy/scipy/pandas as libraries; vmon/oracles reference code; " + T[pid][1])
        meta.setdefault("technique", T[pid][2])
    checks.append({
        "property_id": pid,
        "quick_cmd": "./check %s --tier quick" % pid,
        "thorough_cmd": "./check %s --tier thorough" % pid,
        "evidence_file": "/verif/evidence/%s.json" % pid,
        "replay_cmd_template": "./check %s --replay {path}" % pid,
        "engine": "vmon",
        "level_claimed": {"category": "exploration",
                          "text": meta.get("text", "Runtime monitoring: contracts attached to the real cryoCAT functions plus relational oracles evaluate an independent statement of the property on every generated execution; held means held on the counted executions, input classes and anchor lines listed in the evidence file, not a proof."),
                          "design_ref": "DESIGN.md section 4/%s" % pid},
        "level_note": meta.get("note", "Trusted: numpy/scipy/pandas as libraries, the hand-written reference oracles under vmon/oracles, the generators' coverage of the stated input classes."),
        "technique": meta.get("technique", "runtime monitoring: call monitors (pre/post contracts) on real functions + independent oracles over generated workloads"),
    })
man = {
    "version": 1,
    "setup_cmd": "/venv/bin/pip install -q --no-index --find-links /opt/veriftools/wheels --target /verif/.deps icontract deal && /venv/bin/python -m compileall -q /verif/vmon",
    "hooks": {"guard": "CRYOCAT_VERIF", "enable": "none needed: no source hooks; monitors are attached from outside at run time (in-place wrapping of the imported functions, sys.monitoring on their code objects)",
              "baseline_off_cmd": "cd /repo && /venv/bin/python -m pytest -ra -q -p no:cacheprovider --timeout=900 --continue-on-collection-errors",
              "source_commits": [], "add_only": True},
    "engines": [{"name": "vmon", "path": "/verif/vmon", "serves_properties": [c["property_id"] for c in checks],
                 "kind_free_text": "Python runtime-monitoring harness: in-place call monitors (contracts) on cryoCAT functions, sys.monitoring line/branch observers, seeded stratified workload generators, independent byte/SO(3)/brute-force oracles, sharded subprocess runner with watchdog, three-valued verdicts"}],
    "checks": checks,
    "not_applicable": na,
    "notes": "All checks import cryoCAT from /repo's working tree at run time. exit 0 held on observed / 1 VIOLATION / 2 INCONCLUSIVE. KNOWN_FINDINGS.txt lists fixed and open findings; selftest/run_mutants.py and seeded/ hold the property-breaking changes the checks were validated against (hand-written mutants; 350+ changes written by independent sub-agents, each confirmed on a scratch copy and by literal git apply on /repo), controls/ holds 80 independently written property-PRESERVING changes on which every check must stay silent (tools/control_eval.py), tools/audit_call_structure.sh re-runs the checks with monitors blind to cryoCAT-internal calls (no verdict may depend on cryoCAT's call structure).",
}
json.dump(man, open(os.path.join(VERIF, "MANIFEST.json"), "w"), indent=1)
import subprocess
subprocess.check_call(["python3-vt", "-c", "import json,jsonschema; jsonschema.validate(json.load(open('/verif/MANIFEST.json')), json.load(open('/root/.vp/MANIFEST.schema.json')))"])
print("MANIFEST.json: %d checks, %d not_applicable; valid" % (len(checks), len(na)))
