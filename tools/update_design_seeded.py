#!/venv/bin/python
"""Rewrite section 8.5 of DESIGN.md (between the markers) from seeded/*/meta.json."""
import glob, json, os, subprocess
VERIF = os.path.dirname(os.path.dirname(os.path.abspath(__file__)))
table = subprocess.check_output(["/venv/bin/python", os.path.join(VERIF, "tools", "seeded_table.py")], text=True)
dirs = sorted(glob.glob(os.path.join(VERIF, "seeded", "*")))
missed = sum(1 for d in dirs if json.load(open(d + "/meta.json")).get("detection", {}).get("history"))
head = """### 8.5 Independently seeded changes and which checks catch them
%d property-breaking changes to cryoCAT were written by fresh sub-agents that saw only the text of one property and a scratch
git worktree (nothing from /verif); each was confirmed by the lead before being kept (`tools/seeded_eval.py`: the patch applies
to /repo's HEAD, its demonstration exits 0 on the unchanged tree and 1 on the patched copy, cryoCAT's 307 stable tests still
pass, and `./check <property> --repo <patched copy>` exits 1). %d of them were MISSED by the check as first built and led to
the strengthening described in the last column; all are caught now by the quick tier. `tools/apply_seeded_to_repo.sh` repeats
the confirmation by applying each patch to /repo itself (`git apply`), running the quick check, and undoing it.
Hand-written mutants (selftest/mutants.d, %d edits incl. the reversal of every `fix:` commit and silent negative controls) are
run by `selftest/run_mutants.py`.

""" % (len(dirs), missed, sum(len(json.load(open(f))) for f in glob.glob(os.path.join(VERIF, "selftest", "mutants.d", "*.json"))))
p = os.path.join(VERIF, "DESIGN.md")
s = open(p).read()
B, E = "<!-- SEEDED-TABLE-BEGIN -->", "<!-- SEEDED-TABLE-END -->"
block = B + "\n" + head + table + E
if B in s:
    s = s[:s.index(B)] + block + s[s.index(E) + len(E):]
else:
    s = s.rstrip("\n") + "\n\n" + block + "\n"
open(p, "w").write(s)
print("seeded:", len(dirs), "missed-at-first:", missed)
