#!/venv/bin/python
"""keep_seeded.py SRC_DIR NAME [--caught-after "what was strengthened"]: copy a confirmed seeded change into /verif/seeded/NAME
and record the confirmation runs (seeded_eval with pytest) in meta.json."""
import json, os, shutil, subprocess, sys
VERIF = os.path.dirname(os.path.dirname(os.path.abspath(__file__)))
src, name = sys.argv[1], sys.argv[2]
dst = os.path.join(VERIF, "seeded", name)
os.makedirs(dst, exist_ok=True)
for f in ("patch.diff", "demo.py", "meta.json"):
    shutil.copy(os.path.join(src, f), os.path.join(dst, f))
p = subprocess.run([sys.executable, os.path.join(VERIF, "tools", "seeded_eval.py"), dst] + (["--thorough"] if "--thorough" in sys.argv else []),
                   stdout=subprocess.PIPE, stderr=subprocess.STDOUT, text=True)
t = p.stdout[p.stdout.index("{"):]
ev = json.loads(t)
meta = json.load(open(os.path.join(dst, "meta.json")))
meta["breaks_property"] = meta.get("property")
meta["confirmed_by_lead"] = {"patch_applies_on_repo_head": ev.get("patch_applies"), "demo_rc_on_unchanged_repo": ev.get("demo_on_repo_rc"),
                             "demo_rc_on_patched_copy": ev.get("demo_on_patched_rc"), "demo_output_on_patched_copy": ev.get("demo_patched_tail"),
                             "existing_stable_tests_still_pass": ev.get("pytest_stable_ok"), "pytest": ev.get("pytest_tail"),
                             "ran": ["tools/seeded_eval.py (scratch rsync copy of /repo + patch -p1; demo.py on /repo and on the copy; tools/baseline_check.py --repo copy; ./check %s --repo copy)" % meta.get("property")]}
meta["detection"] = {"quick_check_rc": ev.get("check_quick_rc"), "quick_monitors_fired": ev.get("check_quick_monitors"), "first_witness": ev.get("check_quick_first_witness")}
if "--caught-after" in sys.argv:
    meta["detection"]["history"] = sys.argv[sys.argv.index("--caught-after") + 1]
json.dump(meta, open(os.path.join(dst, "meta.json"), "w"), indent=1)
print(name, "demo", ev.get("demo_on_repo_rc"), ev.get("demo_on_patched_rc"), "pytest", ev.get("pytest_stable_ok"), "check", ev.get("check_quick_rc"), ev.get("check_quick_monitors"))
