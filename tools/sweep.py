#!/venv/bin/python
"""sweep.py [--tier quick|thorough] [--seeds 0,1,2] [--props C01,C02] [--jobs 4]: run ./check for READY properties x seeds,
print one line per run; exit 1 if any run is not 'held-on-observed'."""
import argparse, concurrent.futures as cf, os, subprocess, sys, time
VERIF = os.path.dirname(os.path.dirname(os.path.abspath(__file__)))
ap = argparse.ArgumentParser()
ap.add_argument("--tier", default="quick"); ap.add_argument("--seeds", default="0,1,2"); ap.add_argument("--props"); ap.add_argument("--jobs", type=int, default=4)
a = ap.parse_args()
props = a.props.split(",") if a.props else open(os.path.join(VERIF, "READY.txt")).read().split()
runs = [(p, int(s)) for s in a.seeds.split(",") for p in props]
def one(r):
    p, s = r
    t = time.time()
    q = subprocess.run([os.path.join(VERIF, "check"), p, "--tier", a.tier, "--seed", str(s)], cwd=VERIF, stdout=subprocess.PIPE, stderr=subprocess.STDOUT, text=True)
    lines = [l for l in q.stdout.splitlines() if l.startswith(("RESULT", "VIOLATION", "INCONCLUSIVE", "MONITORS-FIRED"))]
    return p, s, q.returncode, time.time() - t, lines
bad = 0
# same property must not run concurrently with itself (evidence file); group by property order
with cf.ThreadPoolExecutor(a.jobs) as ex:
    for p, s, rc, dt, lines in ex.map(one, runs):
        print("%s seed=%d rc=%d %.0fs %s" % (p, s, rc, dt, (lines[-1] if lines else "")[:160]), flush=True)
        if rc != 0:
            bad += 1
            for l in lines[:6]:
                print("     " + l[:300])
print("runs=%d not-held=%d" % (len(runs), bad))
sys.exit(1 if bad else 0)
