#!/bin/sh
# For every kept seeded change: apply it to /repo itself (git apply), run the quick check of its property, undo it straight afterwards.
# Only run this when nothing else is using /repo.  usage: tools/apply_seeded_to_repo.sh [name-glob]
cd /verif || exit 2
git -C /repo diff --quiet || { echo "/repo has uncommitted changes to tracked files; refusing"; exit 2; }
miss=0
for d in seeded/${1:-*}/; do
  n=$(basename "$d"); prop=$(/venv/bin/python -c "import json,sys; print(json.load(open('$d/meta.json'))['property'])")
  if git -C /repo apply "$PWD/$d/patch.diff" 2>/dev/null; then
    out=$(VERIF_NO_EVIDENCE=1 ./check "$prop" --tier quick 2>&1); rc=$?
    git -C /repo checkout -- . ; rm -f /repo/attack 2>/dev/null
    fired=$(echo "$out" | grep MONITORS-FIRED | cut -c1-150)
    echo "$n $prop rc=$rc $fired"
    [ $rc -eq 1 ] || miss=$((miss+1))
  else
    echo "$n $prop PATCH-DOES-NOT-APPLY"; miss=$((miss+1))
  fi
done
git -C /repo status --short | grep -v '^??' 
echo "not caught: $miss"
exit $miss
