#!/usr/bin/env python3-vt
import json, sys, glob, jsonschema
sch = json.load(open("/root/.vp/EVIDENCE.schema.json"))
bad = 0
for p in sorted(glob.glob("/verif/evidence/*.json")):
    try:
        jsonschema.validate(json.load(open(p)), sch); print("ok ", p)
    except Exception as e:
        bad += 1; print("BAD", p, str(e)[:300])
sys.exit(bad)
