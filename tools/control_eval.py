#!/venv/bin/python
"""Evaluate a NEGATIVE CONTROL (a change to cryoCAT under which the property still holds): directory with patch.diff, equiv.py,
meta.json.  On a scratch copy of /repo:
 1. the patch applies; equiv.py prints the same DIGEST on /repo and on the patched copy
 2. cryoCAT's 307 stable tests still pass on the patched copy
 3. ./check <PROP> --repo <copy> must exit 0 (held) - a non-zero exit is a FALSE ALARM (or the control is not behaviour-preserving:
    read the witness)
usage: control_eval.py DIR [--thorough] [--no-pytest] [--seed N] [--keep NAME]
 --keep NAME: copy the control into /verif/controls/NAME with the results recorded in meta.json
"""
import json, os, shutil, subprocess, sys, tempfile
VERIF = os.path.dirname(os.path.dirname(os.path.abspath(__file__)))


def digest(out):
    return [l.split()[1] for l in out.splitlines() if l.startswith("DIGEST")][:1]


def main():
    d = os.path.abspath(sys.argv[1])
    meta = json.load(open(os.path.join(d, "meta.json")))
    prop = meta["property"]
    seed = sys.argv[sys.argv.index("--seed") + 1] if "--seed" in sys.argv else "0"
    td = tempfile.mkdtemp(prefix="vctl_")
    out = {"dir": d, "property": prop}
    try:
        subprocess.check_call(["rsync", "-a", "--exclude", ".git", "--exclude", "__pycache__", "--exclude", "attack", "--exclude", "refactor", "/repo/", td + "/"])
        p = subprocess.run(["patch", "-p1", "-s", "-i", os.path.join(d, "patch.diff")], cwd=td, stdout=subprocess.PIPE, stderr=subprocess.STDOUT, text=True)
        out["patch_applies"] = p.returncode == 0
        if p.returncode != 0:
            out["patch_output"] = p.stdout[-500:]
            print(json.dumps(out, indent=1)); return 2
        eq = os.path.join(d, "equiv.py")
        if os.path.exists(eq):
            res = []
            for tree in ("/repo", td):
                with tempfile.TemporaryDirectory(prefix="veq_") as cwd:
                    try:
                        a = subprocess.run(["/venv/bin/python", "-B", eq, tree], cwd=cwd, stdout=subprocess.PIPE, stderr=subprocess.STDOUT, text=True, timeout=1800)
                        res.append((a.returncode, digest(a.stdout), a.stdout.strip().splitlines()[-2:]))
                    except subprocess.TimeoutExpired:
                        res.append((None, [], ["timeout"]))
            out["equiv_rc"] = [r[0] for r in res]
            out["equiv_same_digest"] = bool(res[0][1]) and res[0][1] == res[1][1]
            if not out["equiv_same_digest"]:
                out["equiv_tails"] = [r[2] for r in res]
        if "--no-pytest" not in sys.argv:
            q = subprocess.run([sys.executable, os.path.join(VERIF, "tools", "baseline_check.py"), "--repo", td], stdout=subprocess.PIPE, stderr=subprocess.STDOUT, text=True)
            out["pytest_stable_ok"] = q.returncode == 0
            out["pytest_tail"] = q.stdout.strip().splitlines()[-2:]
        for tier in ["quick"] + (["thorough"] if "--thorough" in sys.argv else []):
            c = subprocess.run([os.path.join(VERIF, "check"), prop, "--tier", tier, "--repo", td], cwd=VERIF, stdout=subprocess.PIPE, stderr=subprocess.STDOUT, text=True,
                               env=dict(os.environ, VERIF_SEED=seed))
            lines = [l for l in c.stdout.splitlines() if l.startswith(("VIOLATION", "   monitor", "INCONCLUSIVE", "RESULT", "KNOWN", "HARNESS"))]
            out["check_%s_rc" % tier] = c.returncode
            out["check_%s_tail" % tier] = [l[:300] for l in lines[-1:]]
            if c.returncode != 0:
                out["check_%s_detail" % tier] = [l[:600] for l in c.stdout.splitlines() if l.startswith(("VIOLATION", "   monitor", "INCONCLUSIVE", "HARNESS", "MONITORS-FIRED"))][:8]
        if "--keep" in sys.argv:
            name = sys.argv[sys.argv.index("--keep") + 1]
            dst = os.path.join(VERIF, "controls", name)
            os.makedirs(dst, exist_ok=True)
            for f in ("patch.diff", "equiv.py"):
                if os.path.exists(os.path.join(d, f)) and os.path.abspath(os.path.join(d, f)) != os.path.abspath(os.path.join(dst, f)):
                    shutil.copy(os.path.join(d, f), os.path.join(dst, f))
            meta["evaluated_by_lead"] = {k: v for k, v in out.items() if k != "dir"}
            json.dump(meta, open(os.path.join(dst, "meta.json"), "w"), indent=1)
        print(json.dumps(out, indent=1))
        return 0
    finally:
        shutil.rmtree(td, ignore_errors=True)


sys.exit(main())
