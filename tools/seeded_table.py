#!/venv/bin/python
"""Print the markdown table of seeded changes (seeded/*/meta.json) for DESIGN.md section 8.5."""
import glob, json, os
VERIF = os.path.dirname(os.path.dirname(os.path.abspath(__file__)))
print("| seeded change | property | what it needs to manifest | monitors that fire (quick tier) | history |")
print("|---|---|---|---|---|")
for d in sorted(glob.glob(os.path.join(VERIF, "seeded", "*"))):
    m = json.load(open(os.path.join(d, "meta.json")))
    det = m.get("detection", {})
    mons = ", ".join(x.split("(")[0] for x in (det.get("quick_monitors_fired") or []))[:110]
    hist = "missed at first; " + det["history"].split("caught after", 1)[-1].strip()[:160] if det.get("history") else "caught as built"
    needs = str(m.get("needs", "")).replace("|", "/").replace("\n", " ")[:170]
    print("| `%s` | %s | %s | %s | %s |" % (os.path.basename(d), m.get("property"), needs, mons, hist.replace("|", "/")))
