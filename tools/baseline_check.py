#!/venv/bin/python
"""Run cryoCAT's pinned test command on a tree and compare with /root/.vp/BASELINE.json.

usage: baseline_check.py [--repo DIR]   (default /repo)
exit 0 iff every stable_pass test of the baseline passes.  When --repo is a scratch copy the test ids
(which embed /repo/... parameter paths) are mapped back before comparison.
"""
import json, os, subprocess, sys, tempfile, xml.etree.ElementTree as ET

def main():
    repo = "/repo"
    if "--repo" in sys.argv:
        repo = os.path.abspath(sys.argv[sys.argv.index("--repo") + 1])
    base = json.load(open("/root/.vp/BASELINE.json"))
    with tempfile.TemporaryDirectory(prefix="vbase_") as td:
        xml = os.path.join(td, "j.xml")
        env = dict(os.environ)
        for k in list(env):
            if k.startswith("CRYOCAT_VERIF"):
                env.pop(k)
        env.pop("PYTHONPATH", None)
        p = subprocess.run(["/venv/bin/python", "-m", "pytest", "-q", "-p", "no:cacheprovider", "--timeout=900",
                            "--continue-on-collection-errors", "--junitxml=" + xml], cwd=repo, env=env,
                           stdout=subprocess.PIPE, stderr=subprocess.STDOUT, text=True)
        tail = p.stdout.strip().splitlines()[-1:] 
        passed = set(); other = {}
        for tc in ET.parse(xml).getroot().iter("testcase"):
            tid = tc.get("classname") + "::" + tc.get("name")
            if repo != "/repo":
                tid = tid.replace(repo, "/repo")
            bad = [c.tag for c in tc if c.tag in ("failure", "error", "skipped")]
            if bad: other[tid] = bad[0]
            else: passed.add(tid)
    stable = set(base["stable_pass"])
    missing = sorted(stable - passed)
    newpass = sorted(passed - stable)
    print("pytest:", tail)
    print(f"stable_pass={len(stable)} passed_now={len(passed)} missing={len(missing)} newly_passing={len(newpass)}")
    for m in missing: print("  MISSING", m, other.get(m))
    if "-v" in sys.argv:
        for m in newpass: print("  NEW", m)
    sys.exit(1 if missing else 0)
main()
