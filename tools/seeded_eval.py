#!/venv/bin/python
"""Evaluate a candidate seeded change (directory with patch.diff, demo.py, meta.json) on a scratch copy of /repo:
 1. demo.py passes on /repo and fails on the patched copy
 2. cryoCAT's 307 stable tests still pass on the patched copy
 3. ./check <PROP> --repo <copy> (quick, optionally thorough) fires
usage: seeded_eval.py DIR [--thorough] [--no-pytest] [--seed N]
"""
import json, os, shutil, subprocess, sys, tempfile
VERIF = os.path.dirname(os.path.dirname(os.path.abspath(__file__)))


def main():
    d = os.path.abspath(sys.argv[1])
    meta = json.load(open(os.path.join(d, "meta.json")))
    prop = meta["property"]
    seed = sys.argv[sys.argv.index("--seed") + 1] if "--seed" in sys.argv else "0"
    td = tempfile.mkdtemp(prefix="vseed_")
    out = {"dir": d, "property": prop}
    try:
        subprocess.check_call(["rsync", "-a", "--exclude", ".git", "--exclude", "__pycache__", "--exclude", "attack", "/repo/", td + "/"])
        p = subprocess.run(["patch", "-p1", "-s", "-i", os.path.join(d, "patch.diff")], cwd=td, stdout=subprocess.PIPE, stderr=subprocess.STDOUT, text=True)
        out["patch_applies"] = p.returncode == 0
        if p.returncode != 0:
            out["patch_output"] = p.stdout[-500:]
            print(json.dumps(out, indent=1)); return 2
        demo = os.path.join(d, "demo.py")
        if os.path.exists(demo):
            with tempfile.TemporaryDirectory(prefix="vdemo_") as cwd:
                a = subprocess.run(["/venv/bin/python", demo, "/repo"], cwd=cwd, stdout=subprocess.PIPE, stderr=subprocess.STDOUT, text=True, timeout=900)
                b = subprocess.run(["/venv/bin/python", demo, td], cwd=cwd, stdout=subprocess.PIPE, stderr=subprocess.STDOUT, text=True, timeout=900)
            out["demo_on_repo_rc"], out["demo_on_patched_rc"] = a.returncode, b.returncode
            out["demo_patched_tail"] = b.stdout.strip().splitlines()[-3:]
            if a.returncode != 0:
                out["demo_repo_tail"] = a.stdout.strip().splitlines()[-5:]
        if "--no-pytest" not in sys.argv:
            q = subprocess.run([sys.executable, os.path.join(VERIF, "tools", "baseline_check.py"), "--repo", td], stdout=subprocess.PIPE, stderr=subprocess.STDOUT, text=True)
            out["pytest_stable_ok"] = q.returncode == 0
            out["pytest_tail"] = q.stdout.strip().splitlines()[-2:]
        for tier in ["quick"] + (["thorough"] if "--thorough" in sys.argv else []):
            c = subprocess.run([os.path.join(VERIF, "check"), prop, "--tier", tier, "--repo", td], cwd=VERIF, stdout=subprocess.PIPE, stderr=subprocess.STDOUT, text=True,
                               env=dict(os.environ, VERIF_SEED=seed))
            lines = [l for l in c.stdout.splitlines() if l.startswith(("VIOLATION", "   monitor", "INCONCLUSIVE", "RESULT", "KNOWN"))]
            out["check_%s_rc" % tier] = c.returncode
            out["check_%s_monitors" % tier] = ([l.split(": ", 1)[1] for l in c.stdout.splitlines() if l.startswith("MONITORS-FIRED")] or [""])[0].split(",")
            out["check_%s_tail" % tier] = lines[-1:] 
            out["check_%s_first_witness" % tier] = [l[:400] for l in lines if l.startswith("   monitor")][:2]
        print(json.dumps(out, indent=1))
        return 0
    finally:
        shutil.rmtree(td, ignore_errors=True)


sys.exit(main())
