"""Independent byte-level parsers for EM and MRC files (struct only; no emfile / mrcfile)."""
import struct

import numpy as np

EM_DTYPES = {1: "i1", 2: "<i2", 4: "<i4", 5: "<f4", 8: "<c8", 9: "<f8"}
MRC_MODES = {0: "i1", 1: "<i2", 2: "<f4", 6: "<u2", 12: "<f2"}


def parse_em(path):
    """-> dict(machine, code, dims=(xdim,ydim,zdim), data=array indexed [x,y,z], nbytes, expected_nbytes)"""
    b = open(path, "rb").read()
    if len(b) < 512:
        return {"error": "shorter than the 512-byte EM header", "nbytes": len(b)}
    machine, _, _, code = struct.unpack("4B", b[:4])
    xd, yd, zd = struct.unpack("<3i", b[4:16])
    res = {"machine": machine, "code": code, "dims": (xd, yd, zd), "nbytes": len(b)}
    if code not in EM_DTYPES or min(xd, yd, zd) < 0:
        res["error"] = "bad dtype code or dims"
        return res
    dt = np.dtype(EM_DTYPES[code])
    n = xd * yd * zd
    res["expected_nbytes"] = 512 + n * dt.itemsize
    if len(b) < res["expected_nbytes"]:
        res["error"] = "file truncated"
        return res
    flat = np.frombuffer(b, dtype=dt, count=n, offset=512)
    # x fastest: linear index = x + xd*(y + yd*z)
    res["data"] = flat.reshape((zd, yd, xd)).transpose(2, 1, 0)
    res["dtype"] = dt
    return res


def parse_mrc(path):
    b = open(path, "rb").read()
    if len(b) < 1024:
        return {"error": "shorter than the 1024-byte MRC header", "nbytes": len(b)}
    nx, ny, nz, mode = struct.unpack("<4i", b[:16])
    nsymbt = struct.unpack("<i", b[92:96])[0]
    mapc, mapr, maps = struct.unpack("<3i", b[64:76])
    res = {"dims": (nx, ny, nz), "mode": mode, "nsymbt": nsymbt, "axes": (mapc, mapr, maps), "nbytes": len(b),
           "map": b[208:212]}
    if mode not in MRC_MODES or min(nx, ny, nz) < 0 or nsymbt < 0:
        res["error"] = "bad mode or dims"
        return res
    dt = np.dtype(MRC_MODES[mode])
    n = nx * ny * nz
    res["expected_nbytes"] = 1024 + nsymbt + n * dt.itemsize
    if len(b) < res["expected_nbytes"]:
        res["error"] = "file truncated"
        return res
    flat = np.frombuffer(b, dtype=dt, count=n, offset=1024 + nsymbt)
    res["data"] = flat.reshape((nz, ny, nx)).transpose(2, 1, 0)
    res["dtype"] = dt
    return res


def write_em_raw(path, arr_xyz, code=5):
    """Independent EM writer (for feeding readers): arr indexed [x,y,z]."""
    arr = np.asarray(arr_xyz)
    dt = np.dtype(EM_DTYPES[code])
    xd, yd, zd = arr.shape
    hdr = bytearray(512)
    hdr[0] = 6
    hdr[3] = code
    hdr[4:16] = struct.pack("<3i", xd, yd, zd)
    with open(path, "wb") as f:
        f.write(bytes(hdr))
        f.write(np.ascontiguousarray(arr.transpose(2, 1, 0)).astype(dt).tobytes())


def write_mrc_raw(path, arr_xyz, mode=2):
    """Independent minimal MRC2014 writer: arr indexed [x,y,z]."""
    arr = np.asarray(arr_xyz)
    dt = np.dtype(MRC_MODES[mode])
    nx, ny, nz = arr.shape
    hdr = bytearray(1024)
    hdr[0:16] = struct.pack("<4i", nx, ny, nz, mode)
    hdr[28:40] = struct.pack("<3i", nx, ny, nz)          # mx my mz
    hdr[40:52] = struct.pack("<3f", float(nx), float(ny), float(nz))
    hdr[52:64] = struct.pack("<3f", 90.0, 90.0, 90.0)
    hdr[64:76] = struct.pack("<3i", 1, 2, 3)
    a = arr.astype(np.float64)
    hdr[76:88] = struct.pack("<3f", float(a.min()), float(a.max()), float(a.mean()))
    hdr[104:108] = b"    "
    hdr[108:112] = struct.pack("<i", 20140)
    hdr[208:212] = b"MAP "
    hdr[212:216] = bytes([0x44, 0x44, 0, 0])
    hdr[216:220] = struct.pack("<f", float(a.std()))
    with open(path, "wb") as f:
        f.write(bytes(hdr))
        f.write(np.ascontiguousarray(arr.transpose(2, 1, 0)).astype(dt).tobytes())
