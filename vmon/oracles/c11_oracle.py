"""Independent reference code for C11 (map files: MRC / REC / EM).

Nothing here imports cryoCAT, mrcfile or emfile.  Files are parsed with vmon.oracles.files (struct based) and written
with its raw writers; this module adds the statement of what must be on disk for a given (array, options) pair, the
value comparison (NaN equal to NaN, -0.0 equal to 0.0), a witness builder that names the axis permutation which would
explain a mismatch, and header variants for the raw MRC files fed to the reader.
"""
import itertools
import os
import struct

import numpy as np

from vmon.oracles import files

LO, HI = 1, 48                                   # the property's size range per axis
QUANT_DTYPES = (np.dtype(np.float32), np.dtype(np.float64), np.dtype(np.int16), np.dtype(np.int8))
DISK_DTYPES = (np.dtype("<f4"), np.dtype("<i2"), np.dtype("i1"))
EM_CODE = {np.dtype(np.float32): 5, np.dtype(np.int16): 2, np.dtype(np.int8): 1}
MRC_MODE = {np.dtype(np.float32): 2, np.dtype(np.int16): 1, np.dtype(np.int8): 0}
EXTS = (".mrc", ".rec", ".em")


def ext_of(path):
    for e in EXTS:
        if path.endswith(e):
            return e
    return None


def shape_in_quantifier(shape):
    return len(shape) == 3 and all(LO <= int(s) <= HI for s in shape)


def parse(path):
    """dict from vmon.oracles.files (data indexed [x,y,z]); {'error':..} if unusable."""
    e = ext_of(path)
    if e is None or not os.path.isfile(path):
        return {"error": "no such file or extension"}
    try:
        return files.parse_em(path) if e == ".em" else files.parse_mrc(path)
    except Exception as ex:                       # unreadable bytes are reported, never raised
        return {"error": "parser: %s: %s" % (type(ex).__name__, ex)}


def to_dtype(dt):
    try:
        return np.dtype(dt)
    except Exception:
        return None


def narrowed(arr):
    """the values the property expects to survive: float64 narrowed to float32, everything else unchanged."""
    arr = np.asarray(arr)
    if arr.dtype == np.float64:
        with np.errstate(all="ignore"):
            return arr.astype(np.float32)
    return arr


def exact_cast(arr, dt):
    """arr cast to dt if that keeps every voxel value (float -> float is the stated narrowing / an exact widening);
    None when the cast would change values (outside the property: nothing is promised then)."""
    dt = to_dtype(dt)
    if dt is None or dt not in QUANT_DTYPES:
        return None
    arr = np.asarray(arr)
    with np.errstate(all="ignore"):
        c = arr.astype(dt)
    if arr.dtype.kind == "f" and dt.kind == "f":
        return c
    if arr.dtype.kind == "f" and not np.all(np.isfinite(arr)):
        return None
    if np.array_equal(c.astype(np.float64), arr.astype(np.float64)):
        return c
    return None


def expected_on_disk(arr, transpose=True, data_type=None):
    """What `write(arr, path, transpose, data_type)` must leave on disk, as an array indexed [x,y,z] - or None when the
    call is outside the property's quantifier.  With transpose=False the caller hands the array over in file order
    (z,y,x), so its last axis is x."""
    if not isinstance(arr, np.ndarray) or arr.ndim != 3 or not shape_in_quantifier(arr.shape):
        return None
    if arr.dtype not in QUANT_DTYPES or not arr.dtype.isnative:
        return None
    a = arr
    if data_type is not None:
        a = exact_cast(a, data_type)
        if a is None:
            return None
    a = narrowed(a)
    if not transpose:
        a = a.transpose(2, 1, 0)
    return np.array(a, copy=True)


def values_equal(got, exp):
    got, exp = np.asarray(got), np.asarray(exp)
    if got.shape != exp.shape:
        return False
    if got.dtype.kind == "f" or exp.dtype.kind == "f":
        g, e = got.astype(np.float64), exp.astype(np.float64)
        return bool(np.all((g == e) | (np.isnan(g) & np.isnan(e))))
    return bool(np.array_equal(got.astype(np.int64), exp.astype(np.int64)))


def explain(got, exp):
    """small witness: where the first difference is and whether an axis permutation / flip of `got` equals `exp`."""
    got, exp = np.asarray(got), np.asarray(exp)
    w = {"got_shape": list(got.shape), "expected_shape": list(exp.shape), "got_dtype": str(got.dtype),
         "expected_dtype": str(exp.dtype)}
    if got.ndim == 3 and exp.ndim == 3:
        for p in itertools.permutations(range(3)):
            if p != (0, 1, 2) and values_equal(got.transpose(p), exp):
                w["explained_by_axes"] = list(p)
                break
        else:
            for fl in itertools.product((False, True), repeat=3):
                if any(fl) and got.shape == exp.shape and values_equal(got[tuple(slice(None, None, -1) if f else slice(None) for f in fl)], exp):
                    w["explained_by_flip_of_axes_xyz"] = [k for k in range(3) if fl[k]]
                    break
            if got.size == exp.size and values_equal(got.ravel(), exp.ravel()) and got.shape != exp.shape:
                w["explained_by"] = "same linear order, different dims"
            elif got.size == exp.size and values_equal(np.reshape(got, exp.shape, order="F"), exp) and got.shape != exp.shape:
                w["explained_by"] = "Fortran-order reshape"
    if got.shape == exp.shape and got.size:
        g, e = got.astype(np.float64), exp.astype(np.float64)
        bad = ~((g == e) | (np.isnan(g) & np.isnan(e)))
        if bad.any():
            idx = tuple(int(v) for v in np.argwhere(bad)[0])
            w.update({"first_bad_index_xyz": list(idx), "got": repr(got[idx]), "expected": repr(exp[idx]),
                      "n_bad": int(bad.sum()), "n_voxels": int(bad.size)})
            if values_equal(-g, e):
                w["explained_by"] = "sign"
    return w


def header_summary(p):
    return {k: (list(v) if isinstance(v, tuple) else (v.decode("latin1") if isinstance(v, bytes) else v))
            for k, v in p.items() if k in ("dims", "mode", "code", "machine", "nsymbt", "axes", "nbytes",
                                           "expected_nbytes", "error", "map")}


def check_written(path, exp_xyz, src_was_f64):
    """(ok, witness) for a file that must hold exp_xyz: header dims = (x,y,z) shape, x fastest (that is what the
    parsers assume), values equal; float64 input must be stored as float32."""
    p = parse(path)
    if "error" in p:
        return False, {"file": os.path.basename(path), "parse": header_summary(p)}
    if tuple(p["dims"]) != tuple(exp_xyz.shape):
        w = {"file": os.path.basename(path), "header": header_summary(p), "expected_dims_xyz": list(exp_xyz.shape)}
        w.update({k: v for k, v in explain(p["data"], exp_xyz).items() if k.startswith("explained")})
        return False, w
    if ext_of(path) != ".em" and tuple(p["axes"]) != (1, 2, 3):
        return False, {"file": os.path.basename(path), "header": header_summary(p), "why": "mapc,mapr,maps != 1,2,3"}
    if ext_of(path) == ".em" and p["machine"] != 6:
        return False, {"file": os.path.basename(path), "header": header_summary(p), "why": "EM machine code != 6 (little endian PC)"}
    if not values_equal(p["data"], exp_xyz):
        return False, dict(explain(p["data"], exp_xyz), file=os.path.basename(path), header=header_summary(p))
    if src_was_f64 and p["dtype"] != np.dtype("<f4"):
        return False, {"file": os.path.basename(path), "header": header_summary(p), "why": "float64 data not narrowed to float32 on disk"}
    return True, None


# ---- raw files for the reader -----------------------------------------------------------------------
def raw_write(path, arr_xyz, ispg=None, nsymbt=0, ext_fill=0x5A):
    """Write arr (indexed [x,y,z], dtype float32/int16/int8) with the independent raw writers.  MRC variants:
    ispg (space group word at byte 88; 0 = image stack, 1 = volume) and an extended header of nsymbt bytes between
    the 1024-byte header and the data."""
    arr = np.asarray(arr_xyz)
    dt = np.dtype(arr.dtype)
    if ext_of(path) == ".em":
        files.write_em_raw(path, arr, code=EM_CODE[dt])
        return
    files.write_mrc_raw(path, arr, mode=MRC_MODE[dt])
    if ispg is None and nsymbt == 0:
        return
    b = bytearray(open(path, "rb").read())
    if ispg is not None:
        b[88:92] = struct.pack("<i", int(ispg))
    if nsymbt:
        b[92:96] = struct.pack("<i", int(nsymbt))
        b[104:108] = b"    "
        b = b[:1024] + bytes([ext_fill]) * int(nsymbt) + b[1024:]
    with open(path, "wb") as f:
        f.write(bytes(b))


def mrc_ispg(path):
    with open(path, "rb") as f:
        b = f.read(96)
    return struct.unpack("<i", b[88:92])[0] if len(b) >= 92 else None


# ---- value generators (numpy only) ------------------------------------------------------------------
def make_values(rng, shape, dtype, kind):
    """array indexed [x,y,z] of the given dtype; `kind` selects the value class."""
    dtype = np.dtype(dtype)
    n = int(np.prod(shape))
    if dtype.kind == "i":
        info = np.iinfo(dtype)
        if kind == "ramp":
            v = (np.arange(n, dtype=np.int64) + int(rng.integers(0, 50))) % int(info.max) + (0 if rng.random() < 0.5 else -int(info.max) // 2)
            a = v.reshape(shape, order="F")
        elif kind == "sparse":
            a = (rng.random(shape) < 0.08).astype(np.int64)
            a.flat[int(rng.integers(0, n))] = 1
        else:
            a = rng.integers(int(info.min) + 1, int(info.max) + 1, size=shape)
        if kind in ("int_ext", "int_min"):
            m = rng.random(shape) < 0.15
            pool = [info.max, info.min + 1, 0, -1, 1] + ([info.min] if kind == "int_min" or rng.random() < 0.7 else [])
            a = np.where(m, rng.choice(np.array(pool, dtype=np.int64), size=shape), a)
            if kind == "int_min":
                a.flat[int(rng.integers(0, n))] = info.min
        return np.ascontiguousarray(a).astype(dtype)
    # floats
    if kind == "ramp":
        a = (np.arange(n, dtype=np.float64) + float(rng.integers(0, 1000))).reshape(shape, order="F")
        if rng.random() < 0.5:
            a = a - n / 2.0
    elif kind == "sparse":
        a = (rng.random(shape) < 0.08).astype(np.float64)
        a.flat[int(rng.integers(0, n))] = 1.0
    else:
        a = rng.normal(size=shape) * 10.0 ** float(rng.uniform(-3, 4))
    if kind == "narrow":
        pool = np.array([2.0 ** 24 + 1, -(2.0 ** 24) - 1, 1.0 / 3.0, 0.1, 1e-40, -1e-42, 1e-50, 3.4028235e38, 3.5e38, -1e39,
                         1e300, -0.0, 16777217.0, 123456789.123, 1.0000000596046448, 65504.5])
        m = rng.random(shape) < 0.3
        a = np.where(m, rng.choice(pool, size=shape), a)
        a.flat[int(rng.integers(0, n))] = 16777217.0
    elif kind == "special":
        pool = np.array([np.nan, np.inf, -np.inf, -0.0, 0.0, 1.401298464324817e-45, -1e-40, 3.4028234663852886e38,
                         -3.4028234663852886e38, 1.1754943508222875e-38])
        m = rng.random(shape) < 0.3
        a = np.where(m, rng.choice(pool, size=shape), a)
        a.flat[int(rng.integers(0, n))] = rng.choice(pool[:4])
    with np.errstate(all="ignore"):
        return np.ascontiguousarray(a).astype(dtype)


def with_layout(rng, arr, layout):
    """the same logical array in a different memory layout (the property is about values, not strides)."""
    if layout == "F":
        return np.asfortranarray(arr)
    if layout == "strided":
        big = np.zeros(tuple(2 * s for s in arr.shape), dtype=arr.dtype)
        big[...] = np.asarray(rng.integers(-5, 5, size=big.shape)).astype(arr.dtype)
        big[::2, ::2, ::2] = arr
        return big[::2, ::2, ::2]
    if layout == "reversed":
        return np.ascontiguousarray(arr[::-1, :, ::-1])[::-1, :, ::-1]
    if layout == "transposed_view":
        return np.ascontiguousarray(arr.transpose(1, 2, 0)).transpose(2, 0, 1)
    if layout == "swap12":
        return np.ascontiguousarray(np.swapaxes(arr, 1, 2)).swapaxes(1, 2)
    if layout == "swap01_neg":
        return np.ascontiguousarray(np.swapaxes(arr, 0, 1)[:, ::-1, :])[:, ::-1, :].swapaxes(0, 1)
    if layout == "zero_stride":                    # only for arrays that are constant along z (generator guarantees it)
        v = np.broadcast_to(arr[:, :, :1], arr.shape)
        return v if np.array_equal(v, arr, equal_nan=True) else arr
    if layout == "readonly":
        a = np.array(arr, copy=True)
        a.flags.writeable = False
        return a
    return arr


# ---- round-5 additions: dtype spellings, block-boundary shapes, representability values -------------
SPELLINGS = {
    "float64": [float, "float64", "f8", "d", np.float64, np.dtype("float64"), np.double, "double", "<f8", "float", "=f8"],
    "float32": [np.float32, "float32", "f4", "f", np.single, np.dtype("float32"), "single", "<f4"],
    "int16": [np.int16, "int16", "i2", "h", np.dtype("int16"), np.short, "short", "<i2"],
    "int8": [np.int8, "int8", "i1", "b", np.dtype("int8"), np.byte, "byte", "|i1"],
}
ALL_SPELLINGS = [(t, sp) for t in ("float64", "float32", "int16", "int8") for sp in SPELLINGS[t]]


def spelling_repr(sp):
    return "%s:%r" % (type(sp).__name__, sp) if not isinstance(sp, type) else "type:%s.%s" % (sp.__module__, sp.__name__)


def _block_boundary_shapes():
    """sorted shapes (a<=b<=c<=48) whose voxel count is 2**k-1, 2**k, 2**k+1 (k=6..16) or, where no such shape exists, the
    nearest counts on either side of 2**k; plus the largest volumes of the quantifier."""
    by_n = {}
    for a in range(1, HI + 1):
        for b in range(a, HI + 1):
            for c in range(b, HI + 1):
                by_n.setdefault(a * b * c, []).append((a, b, c))
    counts = sorted(by_n)
    pool = []
    for k in range(6, 17):
        t = 2 ** k
        for n in (t - 1, t, t + 1):
            pool += by_n.get(n, [])
        above = [n for n in counts if n > t + 1][:2]
        below = [n for n in counts if n < t - 1][-2:]
        for n in above + below:
            if abs(n - t) <= max(8, t // 256):
                pool += by_n[n][:3]
    pool += [(HI, HI, HI), (HI - 1, HI, HI), (HI - 1, HI - 1, HI), (1, HI, HI), (1, 1, HI), (2, HI, HI), (31, 32, 33), (15, 16, 17),
             (7, 8, 9), (33, 33, 33), (17, 32, 47), (16, 32, 48), (32, 33, 48)]
    seen, out = set(), []
    for sh in pool:
        if sh not in seen:
            seen.add(sh)
            out.append(sh)
    return out


BLOCK_SHAPES = _block_boundary_shapes()

F32MAX = float(np.finfo(np.float32).max)
_f32 = np.float32
REPR_F64 = np.array([
    F32MAX, float(np.nextafter(_f32(F32MAX), _f32(0))), float(np.nextafter(np.nextafter(_f32(F32MAX), _f32(0)), _f32(0))),
    -F32MAX, F32MAX * (1 + 1e-9), float(np.nextafter(F32MAX, np.inf)), 3.4028235677973366e38 * (1 - 1e-12),    # still round to FLT_MAX
    3.4028235677973366e38, 3.402824e38, -3.5e38,                                                              # tie / beyond: inf
    1.0 + 2.0 ** -24, float(np.nextafter(1.0 + 2.0 ** -24, 2.0)), float(np.nextafter(1.0 + 2.0 ** -24, 0.0)),    # tie to even, +-1 ulp(f64)
    1.0 + 3 * 2.0 ** -24, 1.0 + 3 * 2.0 ** -24 - 1e-9 * 2.0 ** -24, 0.5 - 2.0 ** -26, float(np.nextafter(0.5, 0.0)),
    2.0 ** 24, 2.0 ** 24 + 1, 2.0 ** 24 + 2, 2.0 ** 24 + 3, 2.0 ** 31, 2.0 ** 31 - 1, 2.0 ** 31 + 129, 2.0 ** 53, 2.0 ** 53 + 2, -(2.0 ** 53) + 1,
    100001.0, 100002.0, 100001.5, 100000.00390625, 100000.005, 1e5 + 1e-3, 131071.9960937,
    2.0 ** -149, 2.0 ** -150, float(np.nextafter(2.0 ** -150, 1.0)), 2.0 ** -151, 3 * 2.0 ** -150, 1.1754943508222875e-38,
    float(np.nextafter(1.1754943508222875e-38, 0.0)), 1.1754942106924411e-38, -(2.0 ** -149), 1e-45, 7e-46,
    3e-06, 1e16, 0.5, 5.0, 1e5, 3.0, 1e-9, 5e-7, 0.1, -0.0])
REPR_F32 = np.array([F32MAX, np.nextafter(_f32(F32MAX), _f32(0)), np.nextafter(np.nextafter(_f32(F32MAX), _f32(0)), _f32(0)), -F32MAX,
                     2.0 ** 24, 2.0 ** 24 - 1, 2.0 ** 24 + 2, 2.0 ** 31, 100001.0, 100002.0, 100000.0078125, 2.0 ** -149, -(2.0 ** -149),
                     2.0 ** -148, 1.1754943508222875e-38, 1.1754942106924411e-38, np.nextafter(_f32(1), _f32(2)), np.nextafter(_f32(1), _f32(0)),
                     np.nextafter(_f32(0.5), _f32(0)), 3e-06, 1e16, 0.5, -0.0, 16777215.0, 8388607.5, 8388608.0], dtype=np.float32)


def plant(rng, arr, pool, frac=0.25):
    """sprinkle values of `pool` (every one at least once if the array is big enough) into a copy of arr."""
    a = np.array(arr, copy=True)
    n = a.size
    flat = a.reshape(-1)
    with np.errstate(all="ignore"):
        pool = np.asarray(pool).astype(a.dtype)
    m = max(1, int(n * frac))
    idx = rng.choice(n, size=min(n, m), replace=False)
    flat[idx] = rng.choice(pool, size=idx.size)
    k = min(n, pool.size)
    flat[rng.choice(n, size=k, replace=False)] = rng.permutation(pool)[:k]
    return flat.reshape(a.shape)


def values_for_cast(rng, shape, src_dtype, target_dtype, hard=True):
    """an array of src_dtype (indexed [x,y,z]) whose cast to target_dtype keeps every voxel (float->float: the stated
    narrowing / exact widening).  hard=True plants representability-boundary values where the cast allows them."""
    src, tgt = np.dtype(src_dtype), np.dtype(target_dtype)
    if tgt.kind == "f":
        if src.kind == "f":
            a = make_values(rng, shape, src, "normal")
            if hard:
                a = plant(rng, a, REPR_F64 if src == np.float64 else REPR_F32)
            return a
        return make_values(rng, shape, src, "int_ext" if hard else "normal")
    lo, hi = np.iinfo(tgt).min, np.iinfo(tgt).max
    if src.kind == "i":
        lo, hi = max(lo, np.iinfo(src).min), min(hi, np.iinfo(src).max)
    a = np.asarray(rng.integers(lo + 1, hi + 1, size=shape))
    if hard:
        a = plant(rng, a, np.array([hi, lo + 1, lo, 0, -1, 1]), frac=0.1)
    return np.ascontiguousarray(a).astype(src)


def duplicate_slabs(rng, arr):
    """copy with exact duplicates: some z-slices, y-rows and x-columns repeated verbatim (and two equal neighbours)."""
    a = np.array(arr, copy=True)
    for ax in range(3):
        n = a.shape[ax]
        if n >= 2:
            src = int(rng.integers(0, n))
            for dst in rng.choice(n, size=min(n, 1 + n // 3), replace=False):
                sl_d = [slice(None)] * 3
                sl_s = [slice(None)] * 3
                sl_d[ax], sl_s[ax] = int(dst), src
                a[tuple(sl_d)] = a[tuple(sl_s)]
    return a
