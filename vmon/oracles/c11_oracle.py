"""Independent reference code for C11 (map files: MRC / REC / EM).

Nothing here imports cryoCAT, mrcfile or emfile.  Files are parsed with vmon.oracles.files (struct based) and written
with its raw writers; this module adds the statement of what must be on disk for a given (array, options) pair, the
value comparison (NaN equal to NaN, -0.0 equal to 0.0), a witness builder that names the axis permutation which would
explain a mismatch, and header variants for the raw MRC files fed to the reader.
"""
import itertools
import os
import struct

import numpy as np

from vmon.oracles import files

LO, HI = 1, 48                                   # the property's size range per axis
QUANT_DTYPES = (np.dtype(np.float32), np.dtype(np.float64), np.dtype(np.int16), np.dtype(np.int8))
DISK_DTYPES = (np.dtype("<f4"), np.dtype("<i2"), np.dtype("i1"))
EM_CODE = {np.dtype(np.float32): 5, np.dtype(np.int16): 2, np.dtype(np.int8): 1}
MRC_MODE = {np.dtype(np.float32): 2, np.dtype(np.int16): 1, np.dtype(np.int8): 0}
EXTS = (".mrc", ".rec", ".em")


def ext_of(path):
    for e in EXTS:
        if path.endswith(e):
            return e
    return None


def shape_in_quantifier(shape):
    return len(shape) == 3 and all(LO <= int(s) <= HI for s in shape)


def parse(path):
    """dict from vmon.oracles.files (data indexed [x,y,z]); {'error':..} if unusable."""
    e = ext_of(path)
    if e is None or not os.path.isfile(path):
        return {"error": "no such file or extension"}
    try:
        return files.parse_em(path) if e == ".em" else files.parse_mrc(path)
    except Exception as ex:                       # unreadable bytes are reported, never raised
        return {"error": "parser: %s: %s" % (type(ex).__name__, ex)}


def to_dtype(dt):
    try:
        return np.dtype(dt)
    except Exception:
        return None


def narrowed(arr):
    """the values the property expects to survive: float64 narrowed to float32, everything else unchanged."""
    arr = np.asarray(arr)
    if arr.dtype == np.float64:
        with np.errstate(all="ignore"):
            return arr.astype(np.float32)
    return arr


def exact_cast(arr, dt):
    """arr cast to dt if that keeps every voxel value (float -> float is the stated narrowing / an exact widening);
    None when the cast would change values (outside the property: nothing is promised then)."""
    dt = to_dtype(dt)
    if dt is None or dt not in QUANT_DTYPES:
        return None
    arr = np.asarray(arr)
    with np.errstate(all="ignore"):
        c = arr.astype(dt)
    if arr.dtype.kind == "f" and dt.kind == "f":
        return c
    if arr.dtype.kind == "f" and not np.all(np.isfinite(arr)):
        return None
    if np.array_equal(c.astype(np.float64), arr.astype(np.float64)):
        return c
    return None


def expected_on_disk(arr, transpose=True, data_type=None):
    """What `write(arr, path, transpose, data_type)` must leave on disk, as an array indexed [x,y,z] - or None when the
    call is outside the property's quantifier.  With transpose=False the caller hands the array over in file order
    (z,y,x), so its last axis is x."""
    if not isinstance(arr, np.ndarray) or arr.ndim != 3 or not shape_in_quantifier(arr.shape):
        return None
    if arr.dtype not in QUANT_DTYPES or not arr.dtype.isnative:
        return None
    a = arr
    if data_type is not None:
        a = exact_cast(a, data_type)
        if a is None:
            return None
    a = narrowed(a)
    if not transpose:
        a = a.transpose(2, 1, 0)
    return np.array(a, copy=True)


def values_equal(got, exp):
    got, exp = np.asarray(got), np.asarray(exp)
    if got.shape != exp.shape:
        return False
    if got.dtype.kind == "f" or exp.dtype.kind == "f":
        g, e = got.astype(np.float64), exp.astype(np.float64)
        return bool(np.all((g == e) | (np.isnan(g) & np.isnan(e))))
    return bool(np.array_equal(got.astype(np.int64), exp.astype(np.int64)))


def explain(got, exp):
    """small witness: where the first difference is and whether an axis permutation / flip of `got` equals `exp`."""
    got, exp = np.asarray(got), np.asarray(exp)
    w = {"got_shape": list(got.shape), "expected_shape": list(exp.shape), "got_dtype": str(got.dtype),
         "expected_dtype": str(exp.dtype)}
    if got.ndim == 3 and exp.ndim == 3:
        for p in itertools.permutations(range(3)):
            if p != (0, 1, 2) and values_equal(got.transpose(p), exp):
                w["explained_by_axes"] = list(p)
                break
        else:
            for fl in itertools.product((False, True), repeat=3):
                if any(fl) and got.shape == exp.shape and values_equal(got[tuple(slice(None, None, -1) if f else slice(None) for f in fl)], exp):
                    w["explained_by_flip_of_axes_xyz"] = [k for k in range(3) if fl[k]]
                    break
            if got.size == exp.size and values_equal(got.ravel(), exp.ravel()) and got.shape != exp.shape:
                w["explained_by"] = "same linear order, different dims"
            elif got.size == exp.size and values_equal(np.reshape(got, exp.shape, order="F"), exp) and got.shape != exp.shape:
                w["explained_by"] = "Fortran-order reshape"
    if got.shape == exp.shape and got.size:
        g, e = got.astype(np.float64), exp.astype(np.float64)
        bad = ~((g == e) | (np.isnan(g) & np.isnan(e)))
        if bad.any():
            idx = tuple(int(v) for v in np.argwhere(bad)[0])
            w.update({"first_bad_index_xyz": list(idx), "got": repr(got[idx]), "expected": repr(exp[idx]),
                      "n_bad": int(bad.sum()), "n_voxels": int(bad.size)})
            if values_equal(-g, e):
                w["explained_by"] = "sign"
    return w


def header_summary(p):
    return {k: (list(v) if isinstance(v, tuple) else (v.decode("latin1") if isinstance(v, bytes) else v))
            for k, v in p.items() if k in ("dims", "mode", "code", "machine", "nsymbt", "axes", "nbytes",
                                           "expected_nbytes", "error", "map")}


def check_written(path, exp_xyz, src_was_f64):
    """(ok, witness) for a file that must hold exp_xyz: header dims = (x,y,z) shape, x fastest (that is what the
    parsers assume), values equal; float64 input must be stored as float32."""
    p = parse(path)
    if "error" in p:
        return False, {"file": os.path.basename(path), "parse": header_summary(p)}
    if tuple(p["dims"]) != tuple(exp_xyz.shape):
        w = {"file": os.path.basename(path), "header": header_summary(p), "expected_dims_xyz": list(exp_xyz.shape)}
        w.update({k: v for k, v in explain(p["data"], exp_xyz).items() if k.startswith("explained")})
        return False, w
    if ext_of(path) != ".em" and tuple(p["axes"]) != (1, 2, 3):
        return False, {"file": os.path.basename(path), "header": header_summary(p), "why": "mapc,mapr,maps != 1,2,3"}
    if ext_of(path) == ".em" and p["machine"] != 6:
        return False, {"file": os.path.basename(path), "header": header_summary(p), "why": "EM machine code != 6 (little endian PC)"}
    if not values_equal(p["data"], exp_xyz):
        return False, dict(explain(p["data"], exp_xyz), file=os.path.basename(path), header=header_summary(p))
    if src_was_f64 and p["dtype"] != np.dtype("<f4"):
        return False, {"file": os.path.basename(path), "header": header_summary(p), "why": "float64 data not narrowed to float32 on disk"}
    return True, None


# ---- raw files for the reader -----------------------------------------------------------------------
def raw_write(path, arr_xyz, ispg=None, nsymbt=0, ext_fill=0x5A):
    """Write arr (indexed [x,y,z], dtype float32/int16/int8) with the independent raw writers.  MRC variants:
    ispg (space group word at byte 88; 0 = image stack, 1 = volume) and an extended header of nsymbt bytes between
    the 1024-byte header and the data."""
    arr = np.asarray(arr_xyz)
    dt = np.dtype(arr.dtype)
    if ext_of(path) == ".em":
        files.write_em_raw(path, arr, code=EM_CODE[dt])
        return
    files.write_mrc_raw(path, arr, mode=MRC_MODE[dt])
    if ispg is None and nsymbt == 0:
        return
    b = bytearray(open(path, "rb").read())
    if ispg is not None:
        b[88:92] = struct.pack("<i", int(ispg))
    if nsymbt:
        b[92:96] = struct.pack("<i", int(nsymbt))
        b[104:108] = b"    "
        b = b[:1024] + bytes([ext_fill]) * int(nsymbt) + b[1024:]
    with open(path, "wb") as f:
        f.write(bytes(b))


def mrc_ispg(path):
    with open(path, "rb") as f:
        b = f.read(96)
    return struct.unpack("<i", b[88:92])[0] if len(b) >= 92 else None


# ---- value generators (numpy only) ------------------------------------------------------------------
def make_values(rng, shape, dtype, kind):
    """array indexed [x,y,z] of the given dtype; `kind` selects the value class."""
    dtype = np.dtype(dtype)
    n = int(np.prod(shape))
    if dtype.kind == "i":
        info = np.iinfo(dtype)
        if kind == "ramp":
            v = (np.arange(n, dtype=np.int64) + int(rng.integers(0, 50))) % int(info.max) + (0 if rng.random() < 0.5 else -int(info.max) // 2)
            a = v.reshape(shape, order="F")
        elif kind == "sparse":
            a = (rng.random(shape) < 0.08).astype(np.int64)
            a.flat[int(rng.integers(0, n))] = 1
        else:
            a = rng.integers(int(info.min) + 1, int(info.max) + 1, size=shape)
        if kind in ("int_ext", "int_min"):
            m = rng.random(shape) < 0.15
            pool = [info.max, info.min + 1, 0, -1, 1] + ([info.min] if kind == "int_min" or rng.random() < 0.7 else [])
            a = np.where(m, rng.choice(np.array(pool, dtype=np.int64), size=shape), a)
            if kind == "int_min":
                a.flat[int(rng.integers(0, n))] = info.min
        return np.ascontiguousarray(a).astype(dtype)
    # floats
    if kind == "ramp":
        a = (np.arange(n, dtype=np.float64) + float(rng.integers(0, 1000))).reshape(shape, order="F")
        if rng.random() < 0.5:
            a = a - n / 2.0
    elif kind == "sparse":
        a = (rng.random(shape) < 0.08).astype(np.float64)
        a.flat[int(rng.integers(0, n))] = 1.0
    else:
        a = rng.normal(size=shape) * 10.0 ** float(rng.uniform(-3, 4))
    if kind == "narrow":
        pool = np.array([2.0 ** 24 + 1, -(2.0 ** 24) - 1, 1.0 / 3.0, 0.1, 1e-40, -1e-42, 1e-50, 3.4028235e38, 3.5e38, -1e39,
                         1e300, -0.0, 16777217.0, 123456789.123, 1.0000000596046448, 65504.5])
        m = rng.random(shape) < 0.3
        a = np.where(m, rng.choice(pool, size=shape), a)
        a.flat[int(rng.integers(0, n))] = 16777217.0
    elif kind == "special":
        pool = np.array([np.nan, np.inf, -np.inf, -0.0, 0.0, 1.401298464324817e-45, -1e-40, 3.4028234663852886e38,
                         -3.4028234663852886e38, 1.1754943508222875e-38])
        m = rng.random(shape) < 0.3
        a = np.where(m, rng.choice(pool, size=shape), a)
        a.flat[int(rng.integers(0, n))] = rng.choice(pool[:4])
    with np.errstate(all="ignore"):
        return np.ascontiguousarray(a).astype(dtype)


def with_layout(rng, arr, layout):
    """the same logical array in a different memory layout (the property is about values, not strides)."""
    if layout == "F":
        return np.asfortranarray(arr)
    if layout == "strided":
        big = np.zeros(tuple(2 * s for s in arr.shape), dtype=arr.dtype)
        big[...] = np.asarray(rng.integers(-5, 5, size=big.shape)).astype(arr.dtype)
        big[::2, ::2, ::2] = arr
        return big[::2, ::2, ::2]
    if layout == "reversed":
        return np.ascontiguousarray(arr[::-1, :, ::-1])[::-1, :, ::-1]
    if layout == "transposed_view":
        return np.ascontiguousarray(arr.transpose(1, 2, 0)).transpose(2, 0, 1)
    if layout == "readonly":
        a = np.array(arr, copy=True)
        a.flags.writeable = False
        return a
    return arr
