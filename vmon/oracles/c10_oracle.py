"""Independent reference for C10 (cyclic symmetry expansion).  Pure numpy + the hand-written SO(3) matrices of
vmon.oracles.so3; no cryoCAT code, no scipy rotation code.

Statement that is evaluated (properties.jsonl / C10): for an n-fold cyclic symmetry and an offset s, every input
particle (centre c = (x,y,z)+(shift_x,shift_y,shift_z), orientation R = Rz(psi).Rx(theta).Rz(phi)) yields n rows; the row
with geom2 = k+1 (k = 0..n-1) has orientation R.Rz(360k/n) and complete position c + R.Rz(360k/n).s; geom5 = the
parent's subtomo_id; the new subtomo_id values are pairwise different; score, geom1, tomo_id, object_id, subtomo_mean,
geom3, geom4, class are the parent's; x, y, z are integral and |shift_*| <= 0.5.
"""
import collections
import re

import numpy as np

from vmon.oracles import so3

N_MAX = 64              # quantifier: every n in 1..64
PARTICLES_MAX = 100     # quantifier: 1..100 particles
POS_MAX = 1e10          # positions beyond this are not generated and not judged (integrality needs |pos| << 2**52)
TOL_R = 1e-6            # entry-wise, orientation read back from zxz Euler angles (see ASSUMPTIONS in props/c10.py)
INHERITED = ["score", "geom1", "tomo_id", "object_id", "subtomo_mean", "geom3", "geom4", "class"]
ALL_COLS = ["score", "geom1", "geom2", "subtomo_id", "tomo_id", "object_id", "subtomo_mean", "x", "y", "z",
            "shift_x", "shift_y", "shift_z", "geom3", "geom4", "geom5", "phi", "psi", "theta", "class"]
_CN = re.compile(r"[cC]([1-9][0-9]*)\Z")


def parse_symmetry(sym):
    """-> (n, spelling) for the spellings inside the property ('Cn', 'cn', Python or numpy integer, integral Python or
    numpy float), else (None, reason)."""
    if isinstance(sym, (bool, np.bool_)):
        return None, "bool"
    if isinstance(sym, np.integer):
        n, sp = int(sym), ("np.int64" if isinstance(sym, np.int64) else "np.integer")
        return (n, sp) if 1 <= n <= N_MAX else (None, "n outside 1..%d" % N_MAX)
    if isinstance(sym, np.floating):
        if not np.isfinite(sym) or float(sym) != int(sym):
            return None, "non-integral float"
        n, sp = int(sym), ("np.float64" if isinstance(sym, np.float64) else "np.floating")
        return (n, sp) if 1 <= n <= N_MAX else (None, "n outside 1..%d" % N_MAX)
    if isinstance(sym, str):
        m = _CN.match(sym)
        if not m:
            return None, "string is not Cn/cn"
        n = int(m.group(1))
        sp = "Cn" if sym[0] == "C" else "cn"
    elif isinstance(sym, int):
        n, sp = sym, "int"
    elif isinstance(sym, float):
        if not np.isfinite(sym) or sym != int(sym):
            return None, "non-integral float"
        n, sp = int(sym), "float"
    else:
        return None, "type %s" % type(sym).__name__
    if not 1 <= n <= N_MAX:
        return None, "n outside 1..%d" % N_MAX
    return n, sp


def offset_vector(s):
    try:
        v = np.asarray(s, dtype=float)
    except Exception:
        return None
    if v.shape != (3,) or not np.all(np.isfinite(v)):
        return None
    return v.copy()


def offset_form_in_domain(s):
    """numpy / pandas containers of a narrow dtype (int8, int16, float16, float32, unsigned ...) are outside the quantifier:
    the property speaks about the offset VALUE; float64, int64, int32 arrays and Python sequences are in."""
    dt = getattr(s, "dtype", None)
    if dt is None:
        return True
    try:
        return bool((dt.kind == "f" and dt.itemsize == 8) or (dt.kind == "i" and dt.itemsize >= 4))
    except Exception:
        return False


def table_form_in_domain(df):
    """shift and angle columns must be float64, x,y,z float64 or integer-typed (other storage types are outside the quantifier)"""
    try:
        for c in ("shift_x", "shift_y", "shift_z", "phi", "theta", "psi"):
            if not (df[c].dtype.kind == "f" and df[c].dtype.itemsize == 8):
                return False
        for c in ("x", "y", "z"):
            k, sz = df[c].dtype.kind, df[c].dtype.itemsize
            if not ((k == "f" and sz == 8) or (k == "i" and sz >= 4)):
                return False
    except Exception:
        return False
    return True


def table_in_domain(df):
    try:
        if sorted(map(str, df.columns)) != sorted(ALL_COLS) or not 1 <= len(df) <= PARTICLES_MAX:
            return False
        v = df[ALL_COLS].to_numpy(dtype=float)
    except Exception:
        return False
    if not np.all(np.isfinite(v)):
        return False
    ids = df["subtomo_id"].to_numpy(dtype=float)
    if len(np.unique(ids)) != len(ids):
        return False                      # "records its parent" needs parents that can be told apart
    p = centres(df)
    return bool(np.abs(p).max() <= POS_MAX)


def centres(df):
    return df[["x", "y", "z"]].to_numpy(dtype=float) + df[["shift_x", "shift_y", "shift_z"]].to_numpy(dtype=float)


def orientations(df):
    return so3.zxz(df["phi"].to_numpy(dtype=float), df["theta"].to_numpy(dtype=float), df["psi"].to_numpy(dtype=float))


def expected(parent_df, n, s):
    """E[j,k] = R_j . Rz(360 k / n)   (N,n,3,3);   P[j,k] = c_j + E[j,k] . s   (N,n,3)."""
    R = orientations(parent_df)
    c = centres(parent_df)
    Z = so3.Rz(360.0 * np.arange(n) / n)                    # (n,3,3)
    E = np.einsum("jab,kbc->jkac", R, Z)
    P = c[:, None, :] + np.einsum("jkab,b->jka", E, s)
    return E, P, c, R


def pos_tol(c, s):
    return 1e-9 * max(1.0, float(np.abs(s).max())) + 1e-13 * float(np.abs(c).max())


def match_rows(out_df, parent_ids, n):
    """parent row j (or -1) and sub-unit number k = geom2-1 (or -1 when geom2 is not an integer in 1..n) per output row"""
    lut = {float(v): j for j, v in enumerate(parent_ids)}
    g5 = out_df["geom5"].to_numpy(dtype=float)
    g2 = out_df["geom2"].to_numpy(dtype=float)
    j = np.array([lut.get(float(v), -1) for v in g5], dtype=int)
    okk = np.isfinite(g2) & (g2 == np.round(g2)) & (g2 >= 1) & (g2 <= n)
    k = np.where(okk, np.where(okk, g2, 1.0).astype(int) - 1, -1)
    return j, k


def _f(x):
    return [round(float(v), 9) for v in np.ravel(x)]


def judge(parent_df, n, s, out_df):
    """Evaluate every single-call clause.  -> OrderedDict clause -> (ok, witness); a clause that cannot be evaluated
    (no row could be attributed to a parent and a sub-unit number) is left out."""
    res = collections.OrderedDict()
    N = len(parent_df)
    ids = parent_df["subtomo_id"].to_numpy(dtype=float)
    missing = [c for c in ALL_COLS if c not in out_df.columns]
    if missing:
        res["rows_per_parent"] = (False, {"missing_columns": missing})
        return res
    M = len(out_df)
    j, k = match_rows(out_df, ids, n)
    cnt = np.bincount(j[j >= 0], minlength=N)
    w = None
    if M != n * N or (j < 0).any() or (cnt != n).any():
        bad = int(np.argmax(cnt != n)) if (cnt != n).any() else None
        stray = out_df["geom5"].to_numpy(dtype=float)[j < 0][:4]
        w = {"rows": M, "expected_rows": n * N, "n": n, "particles": N, "rows_whose_geom5_is_no_parent_id": int((j < 0).sum()),
             "such_geom5": _f(stray), "parent_id": None if bad is None else float(ids[bad]),
             "rows_of_that_parent": None if bad is None else int(cnt[bad])}
    res["rows_per_parent"] = (w is None, w)

    # geom2: each parent's rows carry exactly 1..n
    g2 = out_df["geom2"].to_numpy(dtype=float)
    w = None
    want = np.arange(1, n + 1, dtype=float)
    for jj in range(N):
        got = np.sort(g2[j == jj])
        if len(got) != n or not np.array_equal(got, want):
            w = {"parent_id": float(ids[jj]), "geom2_of_its_rows": _f(got[:12]), "expected": "1..%d" % n}
            break
    if (j >= 0).any() or N == 0:
        res["subunit_index"] = (w is None, w)

    sid = out_df["subtomo_id"].to_numpy(dtype=float)
    uniq = bool(np.all(np.isfinite(sid)) and len(np.unique(sid)) == M)
    w = None
    if not uniq:
        vals, c = np.unique(sid, return_counts=True)
        w = {"rows": M, "distinct_subtomo_id": int(len(vals)), "repeated": _f(vals[c > 1][:5])}
    res["unique_ids"] = (uniq, w)

    xyz = out_df[["x", "y", "z"]].to_numpy(dtype=float)
    sh = out_df[["shift_x", "shift_y", "shift_z"]].to_numpy(dtype=float)
    bad_int = ~(xyz == np.round(xyz))
    bad_sh = ~(np.abs(sh) <= 0.5)
    w = None
    if bad_int.any() or bad_sh.any():
        r = int(np.argwhere(bad_int | bad_sh)[0][0])
        w = {"row": r, "xyz": _f(xyz[r]), "shift": _f(sh[r]), "non_integral_cells": int(bad_int.sum()),
             "shift_cells_beyond_half": int(bad_sh.sum())}
    res["integral"] = (w is None, w)

    rows = np.flatnonzero(j >= 0)
    if len(rows):
        w = None
        for col in INHERITED:
            a = out_df[col].to_numpy(dtype=float)[rows]
            b = parent_df[col].to_numpy(dtype=float)[j[rows]]
            neq = ~(a == b)
            if neq.any():
                r = int(np.flatnonzero(neq)[0])
                w = {"field": col, "row": int(rows[r]), "got": float(a[r]), "parent_value": float(b[r]),
                     "parent_id": float(ids[j[rows[r]]]), "rows_differing": int(neq.sum())}
                break
        res["inherited"] = (w is None, w)

    rows = np.flatnonzero((j >= 0) & (k >= 0))
    if len(rows):
        E, P, c, R = expected(parent_df, n, s)
        G = orientations(out_df)[rows]
        Ex = E[j[rows], k[rows]]
        err = np.abs(G - Ex).reshape(len(rows), -1).max(axis=1)
        w = None
        if not np.all(err <= TOL_R):
            r = int(np.argmax(err))
            rr = rows[r]
            w = {"row": int(rr), "parent_id": float(ids[j[rr]]), "geom2": int(k[rr] + 1), "n": n,
                 "max_entry_error": float(err[r]), "rows_wrong": int((~(err <= TOL_R)).sum()),
                 "angle_between_expected_and_got_deg": float(so3.angle_deg(Ex[r].T @ G[r])),
                 "got_phi_theta_psi": _f(out_df[["phi", "theta", "psi"]].to_numpy(dtype=float)[rr]),
                 "expected_phi_theta_psi": _f(so3.to_zxz(Ex[r]))}
        res["orientation"] = (w is None, w)
        pos = (xyz + sh)[rows]
        Px = P[j[rows], k[rows]]
        tol = pos_tol(c, s)
        perr = np.abs(pos - Px).max(axis=1)
        w = None
        if not np.all(perr <= tol):
            r = int(np.argmax(perr))
            rr = rows[r]
            w = {"row": int(rr), "parent_id": float(ids[j[rr]]), "geom2": int(k[rr] + 1), "n": n, "offset": _f(s),
                 "got_position": _f(pos[r]), "expected_position": _f(Px[r]), "parent_centre": _f(c[j[rr]]),
                 "error": float(perr[r]), "tol": tol, "rows_wrong": int((~(perr <= tol)).sum())}
        res["position"] = (w is None, w)
    return res


# ---- relational clauses (use only the returned table, the parents' centres/axes and s) ----------------------------
def back_to_centre(parent_df, s, out_df):
    """every sub-unit, moved back by its OWN orientation applied to s, sits on its parent's centre"""
    ids = parent_df["subtomo_id"].to_numpy(dtype=float)
    j, _ = match_rows(out_df, ids, 1)
    rows = np.flatnonzero(j >= 0)
    if not len(rows):
        return None
    c = centres(parent_df)
    G = orientations(out_df)[rows]
    back = centres(out_df)[rows] - np.einsum("rab,b->ra", G, s)
    tol = pos_tol(c, s) + 2 * TOL_R * max(1.0, float(np.abs(s).max()))
    err = np.abs(back - c[j[rows]]).max(axis=1)
    if np.all(err <= tol):
        return True, None
    r = int(np.argmax(err))
    return False, {"row": int(rows[r]), "parent_id": float(ids[j[rows[r]]]), "mapped_back_to": _f(back[r]),
                   "parent_centre": _f(c[j[rows[r]]]), "error": float(err[r]), "tol": tol, "offset": _f(s),
                   "rows_wrong": int((~(err <= tol)).sum())}


def z_orbit(parent_df, n, out_df):
    """the n sub-units of a parent share the parent's z-axis; consecutive ones (geom2 -> geom2+1, n -> 1) differ by a turn
    of 360/n about that axis: G_k^T G_{k+1} = Rz(360/n) and (p_{k+1}-c) = Rot(axis = R.ez, 360/n)(p_k - c)"""
    ids = parent_df["subtomo_id"].to_numpy(dtype=float)
    j, k = match_rows(out_df, ids, n)
    c = centres(parent_df)
    R = orientations(parent_df)
    G = orientations(out_df)
    pos = centres(out_df)
    step = so3.Rz(360.0 / n)
    judged = 0
    for jj in range(len(ids)):
        rows = np.flatnonzero((j == jj) & (k >= 0))
        if len(rows) != n or not np.array_equal(np.sort(k[rows]), np.arange(n)):
            continue                                           # labelling faults are reported by subunit_index
        rows = rows[np.argsort(k[rows])]
        judged += 1
        axis = R[jj][:, 2]
        Gk = G[rows]
        zerr = np.abs(Gk[:, :, 2] - axis).max()
        if zerr > 2 * TOL_R:
            return False, {"parent_id": float(ids[jj]), "clause": "sub-unit z-axis differs from the parent's z-axis",
                           "error": float(zerr), "parent_axis": _f(axis)}
        nxt = np.roll(np.arange(n), -1)
        rel = np.einsum("kba,kbc->kac", Gk, Gk[nxt])             # G_k^T G_{k+1}
        rerr = np.abs(rel - step).reshape(n, -1).max(axis=1)
        if rerr.max() > 4 * TOL_R:
            kk = int(np.argmax(rerr))
            return False, {"parent_id": float(ids[jj]), "clause": "turn between consecutive sub-units is not Rz(360/n)",
                           "from_geom2": kk + 1, "n": n, "error": float(rerr[kk]),
                           "observed_turn_deg": float(np.degrees(np.arctan2(rel[kk][1, 0], rel[kk][0, 0]))),
                           "expected_turn_deg": 360.0 / n}
        T = so3.axis_angle(axis, 360.0 / n)
        d = pos[rows] - c[jj]
        scale = max(1.0, float(np.abs(d).max()))
        perr = np.abs(d[nxt] - d @ T.T).max(axis=1)
        tol = 1e-9 * scale + 1e-13 * float(np.abs(c).max())
        if perr.max() > tol:
            kk = int(np.argmax(perr))
            return False, {"parent_id": float(ids[jj]), "clause": "positions are not related by the turn about the parent's z-axis",
                           "from_geom2": kk + 1, "n": n, "error": float(perr[kk]), "tol": tol,
                           "arm_k": _f(d[kk]), "arm_k_plus_1": _f(d[nxt][kk]), "turned_arm_k": _f((d @ T.T)[kk])}
    if not judged:
        return None
    return True, None


def canonical(out_df):
    o = out_df[ALL_COLS].to_numpy(dtype=float)
    order = np.lexsort((o[:, ALL_COLS.index("geom2")], o[:, ALL_COLS.index("geom5")]))
    return o[order]


def same_tables(a_df, b_df):
    """Two spellings of the same n: the same sub-units.  Compared after ordering by (geom5, geom2), and only in what the
    property fixes: parent, index, inherited fields, complete position, orientation (as a matrix, not as Euler angles);
    subtomo_id numbering and the x/shift split are not compared."""
    if len(a_df) != len(b_df):
        return False, {"rows_a": len(a_df), "rows_b": len(b_df)}
    a, b = canonical(a_df), canonical(b_df)
    for col in ["geom5", "geom2"] + INHERITED:
        q = ALL_COLS.index(col)
        neq = ~(a[:, q] == b[:, q])
        if neq.any():
            r = int(np.flatnonzero(neq)[0])
            return False, {"row_in_(geom5,geom2)_order": r, "field": col, "a": float(a[r, q]), "b": float(b[r, q]),
                           "rows_differing": int(neq.sum())}
    ix = [ALL_COLS.index(c) for c in ("x", "y", "z", "shift_x", "shift_y", "shift_z", "phi", "theta", "psi")]
    pa, pb = a[:, ix[0:3]] + a[:, ix[3:6]], b[:, ix[0:3]] + b[:, ix[3:6]]
    tol = 1e-9 + 1e-13 * float(np.abs(pa).max())
    perr = np.abs(pa - pb).max(axis=1)
    if perr.max() > tol:
        r = int(np.argmax(perr))
        return False, {"row_in_(geom5,geom2)_order": r, "field": "complete position", "a": _f(pa[r]), "b": _f(pb[r]),
                       "rows_differing": int((perr > tol).sum())}
    Ga = so3.zxz(a[:, ix[6]], a[:, ix[7]], a[:, ix[8]])
    Gb = so3.zxz(b[:, ix[6]], b[:, ix[7]], b[:, ix[8]])
    rerr = np.abs(Ga - Gb).reshape(len(a), -1).max(axis=1)
    if rerr.max() > 2 * TOL_R:
        r = int(np.argmax(rerr))
        return False, {"row_in_(geom5,geom2)_order": r, "field": "orientation", "a_phi_theta_psi": _f(a[r, ix[6:9]]),
                       "b_phi_theta_psi": _f(b[r, ix[6:9]]), "max_entry_error": float(rerr[r])}
    return True, None
