"""Independent reference code for C15 (tilt-stack operations are lossless selections / permutations).

Nothing here imports cryoCAT, mrcfile, skimage or pandas.  A stack is always handled as a numpy array indexed
[n, y, x] ("nyx": tilt number, image row, image column).

Axis conventions (stated in the module's ASSUMPTIONS):
  declared order 'zyx'  : array[n, y, x]            -> nyx = array
  declared order 'xyz'  : array[x, y, n]            -> nyx = array.transpose(2, 1, 0)
  MRC file              : header nx, ny, nz; x fastest on disk; section z = tilt n, row = y, column = x
                          (files.parse_mrc returns data[x, y, z] -> nyx = data.transpose(2, 1, 0))
"""
import os

import numpy as np

from vmon.oracles import files

ORDERS = ("xyz", "zyx")
DTYPES = (np.dtype("float32"), np.dtype("int16"))
N_RANGE = (2, 25)
SIZE_RANGE = (4, 40)
MRC_EXT = (".mrc", ".st", ".ali", ".rec")


def to_nyx(arr, order):
    """declared order -> [n,y,x] (a view).  The same transposition converts back (involution)."""
    return arr.transpose(2, 1, 0) if order == "xyz" else arr


from_nyx = to_nyx


def read_stack_file(path):
    """-> (nyx array or None, error text)"""
    if not isinstance(path, str) or not os.path.isfile(path):
        return None, "no such file"
    p = files.parse_mrc(path)
    if "error" in p or "data" not in p:
        return None, p.get("error", "unparsed")
    return p["data"].transpose(2, 1, 0), None


def stack_in_quantifier(nyx):
    if not isinstance(nyx, np.ndarray) or nyx.ndim != 3 or nyx.dtype not in DTYPES:
        return False
    n, h, w = nyx.shape
    if not (N_RANGE[0] <= n <= N_RANGE[1] and SIZE_RANGE[0] <= h <= SIZE_RANGE[1] and SIZE_RANGE[0] <= w <= SIZE_RANGE[1]):
        return False
    return bool(np.all(np.isfinite(nyx))) if nyx.dtype.kind == "f" else True


def input_nyx(tilt_stack, input_order):
    """The stack a caller handed over, as an independent [n,y,x] copy; None when it is not a stack of the quantifier."""
    if input_order not in ORDERS:
        return None
    if isinstance(tilt_stack, np.ndarray):
        if tilt_stack.ndim != 3:
            return None
        nyx = np.array(to_nyx(tilt_stack, input_order), copy=True)
    elif isinstance(tilt_stack, str) and tilt_stack.endswith(MRC_EXT):
        nyx, err = read_stack_file(tilt_stack)      # the declared order is irrelevant for files
        if nyx is None:
            return None
        nyx = np.array(nyx, copy=True)
    else:
        return None
    return nyx if stack_in_quantifier(nyx) else None


# ---- parameters, read independently ---------------------------------------------------------------
def read_angles(arg):
    """tilt angles as float64 (list / 1-d array / text file with one value per line) or None"""
    try:
        if isinstance(arg, np.ndarray):
            a = np.asarray(arg, dtype=np.float64)
        elif isinstance(arg, list):
            a = np.array([float(v) for v in arg], dtype=np.float64)
        elif isinstance(arg, str):
            if arg.endswith((".mdoc", ".xml")) or not os.path.isfile(arg):
                return None
            vals = []
            for line in open(arg, "rb").read().decode("ascii").replace("\r", "\n").split("\n"):
                t = line.split()
                if not t:
                    continue
                if len(t) != 1:
                    return None
                vals.append(float(t[0]))
            a = np.array(vals, dtype=np.float64)
        else:
            return None
    except Exception:
        return None
    return a if a.ndim == 1 else None


def angles_in_quantifier(a, n, min_gap=1e-3):
    """n finite angles without ties (also no ties after a float32 read: gaps >= min_gap at |angle| <= 360)"""
    if a is None or a.shape != (n,) or not np.all(np.isfinite(a)) or np.abs(a).max() > 360.0:
        return False
    s = sorted(float(v) for v in a)
    return all(s[k + 1] - s[k] >= min_gap for k in range(n - 1))


def _is_int(v):
    return isinstance(v, (int, np.integer)) and not isinstance(v, (bool, np.bool_))


def _truth(tok, bool_spelling_only=False):
    tok = tok.strip()
    if bool_spelling_only and tok in ("0", "1"):
        # an integer-typed Removed column is outside the quantifier (lead's ruling, round 6): the call is counted out-of-domain
        raise ValueError("integer-typed Removed column")
    if tok in ("True", "TRUE", "true", "1"):
        return True
    if tok in ("False", "FALSE", "false", "0"):
        return False
    raise ValueError(tok)


def read_indices(arg, numbered_from_1):
    """0-based tilt numbers to remove, in the order given (list / array / text file / csv flag table), or None.

    csv: column ToBeRemoved flags rows; rows whose Removed flag is set are no longer part of the stack, so the
    positions count the remaining rows only; a flag table is always 0-based (positions)."""
    try:
        if isinstance(arg, (list, np.ndarray)):
            if isinstance(arg, np.ndarray):
                if arg.ndim != 1 or arg.dtype.kind not in "iu":
                    return None
                vals = arg.tolist()
            else:
                vals = list(arg)
            if not all(_is_int(v) for v in vals):
                return None
            return [int(v) - (1 if numbered_from_1 else 0) for v in vals]
        if isinstance(arg, str) and os.path.isfile(arg):
            lines = [l for l in open(arg, "rb").read().decode("ascii").replace("\r", "\n").split("\n") if l.strip()]
            if arg.endswith(".csv"):
                head = [h.strip() for h in lines[0].split(",")]
                if "ToBeRemoved" not in head:
                    return None
                c_rm = head.index("ToBeRemoved")
                c_gone = head.index("Removed") if "Removed" in head else None
                pos, out = 0, []
                for l in lines[1:]:
                    cells = l.split(",")
                    if c_gone is not None and _truth(cells[c_gone], bool_spelling_only=True):
                        continue
                    if _truth(cells[c_rm]):
                        out.append(pos)
                    pos += 1
                return out
            out = []
            for l in lines:
                t = l.split()
                if len(t) != 1:
                    return None
                out.append(int(t[0]) - (1 if numbered_from_1 else 0))
            return out
    except Exception:
        return None
    return None


def csv_rows_left(path):
    """number of rows of a flag table that are still part of the stack (Removed not set)"""
    lines = [l for l in open(path).read().replace("\r", "\n").split("\n") if l.strip()]
    head = [h.strip() for h in lines[0].split(",")]
    if "Removed" not in head:
        return len(lines) - 1
    c = head.index("Removed")
    return sum(1 for l in lines[1:] if not _truth(l.split(",")[c]))


def indices_in_quantifier(idx0, n):
    """non-empty proper subset of range(n), no repetition"""
    return idx0 is not None and 1 <= len(idx0) < n and len(set(idx0)) == len(idx0) and all(0 <= k < n for k in idx0)


def axes_list(axes):
    if isinstance(axes, str):
        axes = [axes]
    if not isinstance(axes, list) or not 1 <= len(axes) <= 6 or not all(isinstance(a, str) and a in ("x", "y", "z") for a in axes):
        return None
    return list(axes)


def int_like(v, allow_str=False):
    if _is_int(v):
        return int(v)
    if allow_str and isinstance(v, str) and v.strip().isdigit():
        return int(v.strip())
    return None


# ---- the numpy selections the property names --------------------------------------------------------
def exp_sort(nyx, angles):
    order = sorted(range(len(angles)), key=lambda k: float(angles[k]))      # python sort: not numpy's argsort
    return nyx[order], order


def exp_remove(nyx, idx0):
    gone = set(idx0)
    keep = [k for k in range(nyx.shape[0]) if k not in gone]
    return nyx[keep], keep


def exp_split(nyx):
    return nyx[0::2], nyx[1::2]


def interleave(even, odd):
    n = even.shape[0] + odd.shape[0]
    out = np.empty((n,) + even.shape[1:], dtype=even.dtype)
    out[0::2] = even
    out[1::2] = odd
    return out


# Convention of flip_along_axes (its docstring: IMOD `clip flipx / flipy / flipz`): flipping "along x" mirrors the image
# about the x axis, i.e. reverses the row index y; "y" reverses the column index x; "z" reverses the tilt order.
FLIP_AXIS = {"x": 1, "y": 2, "z": 0}


def exp_flip(nyx, axes):
    out = nyx
    for a in axes:
        out = np.flip(out, axis=FLIP_AXIS[a])
    return out


def exp_crop(nyx, new_w, new_h):
    n, H, W = nyx.shape
    w = W if new_w is None else new_w
    h = H if new_h is None else new_h
    y0 = H // 2 - h // 2
    x0 = W // 2 - w // 2
    return nyx[:, y0:y0 + h, x0:x0 + w]


def block_means(nyx, b):
    """float64 means over the complete b x b blocks only: shape (n, H//b, W//b), plus max |value| per block"""
    n, H, W = nyx.shape
    hb, wb = H // b, W // b
    v = nyx[:, :hb * b, :wb * b].astype(np.float64).reshape(n, hb, b, wb, b)
    return v.mean(axis=(2, 4)), np.abs(v).max(axis=(2, 4))


def block_sums_exact(nyx, b):
    """int64 sums over the complete b x b blocks (exact for integer stacks)"""
    n, H, W = nyx.shape
    hb, wb = H // b, W // b
    return nyx[:, :hb * b, :wb * b].astype(np.int64).reshape(n, hb, b, wb, b).sum(axis=(2, 4))


def bin_tolerance(dtype, block_absmax):
    if np.dtype(dtype).kind in "iu":
        return np.full(block_absmax.shape, 1.0)              # integer stacks: within 1 of the mean (any rounding mode)
    return 1e-5 * block_absmax + 1e-37                       # float32 accumulation of <= 1600 values


# ---- comparison -------------------------------------------------------------------------------------
def diff_exact(got, exp):
    """None or a witness dict (first differing voxel); exact numeric equality"""
    if not isinstance(got, np.ndarray):
        return {"what": "not an array", "type": type(got).__name__}
    if tuple(got.shape) != tuple(exp.shape):
        return {"what": "shape (n,y,x)", "got": list(got.shape), "expected": list(exp.shape)}
    if got.size == 0:
        return None
    neq = ~(np.asarray(got, dtype=np.float64) == np.asarray(exp, dtype=np.float64))
    if not neq.any():
        return None
    k = tuple(int(v) for v in np.argwhere(neq)[0])
    tilts_wrong = np.flatnonzero(neq.reshape(neq.shape[0], -1).any(axis=1))
    return {"what": "values", "first_nyx": list(k), "got": float(got[k]), "expected": float(exp[k]), "n_wrong_voxels": int(neq.sum()),
            "tilts_wrong": tilts_wrong[:8].tolist(), "n_tilts_wrong": int(tilts_wrong.size)}


def diff_tol(got, exp, tol):
    d = np.abs(np.asarray(got, dtype=np.float64) - exp)
    bad = ~(d <= tol)
    if not bad.any():
        return None
    k = tuple(int(v) for v in np.argwhere(bad)[0])
    return {"what": "block mean", "first_block_nyx": list(k), "got": float(got[k]), "expected_mean": float(exp[k]), "tolerance": float(tol[k]),
            "n_wrong_blocks": int(bad.sum())}


def diff_binned(got, nyx_in, b):
    """result of binning vs block means over complete blocks; edge (incomplete) blocks are not judged"""
    if not isinstance(got, np.ndarray) or got.ndim != 3:
        return {"what": "not a 3-d array"}
    means, amax = block_means(nyx_in, b)
    n, hb, wb = means.shape
    if got.shape[0] != n or got.shape[1] < hb or got.shape[2] < wb:
        return {"what": "shape (n,y,x)", "got": list(got.shape), "expected_at_least": [n, hb, wb]}
    tol = bin_tolerance(nyx_in.dtype, amax)
    if nyx_in.dtype.kind in "iu":
        # exact integer arithmetic: where the block sum is a multiple of b*b the mean IS an integer and every rounding mode
        # (truncate, floor, round) must return exactly that integer; the tolerance of 1 stays for fractional means only
        sums = block_sums_exact(nyx_in, b)
        integral = sums % (b * b) == 0
        means = np.where(integral, (sums // (b * b)).astype(np.float64), means)
        tol = np.where(integral, 0.0, tol)
    w = diff_tol(got[:, :hb, :wb], means, tol)
    if w is not None and w["tolerance"] == 0.0:
        w["what"] = "block mean (the exact mean is an integer: result must equal it)"
    if w is not None and nyx_in.dtype.kind == "f":
        # mechanism note for the witness: all deviations inside the a-priori bound of a plain (non-pairwise) float32 accumulation
        # of b*b values, b*b * 2**-24 * max|block| (the defect repaired in /repo: bin now accumulates in float64)
        d = np.abs(np.asarray(got[:, :hb, :wb], dtype=np.float64) - means)
        if bool(np.all(d <= np.maximum(tol, b * b * 2.0 ** -24 * amax + 1e-37))):
            w["mechanism"] = "float32 accumulation error: within b*b*2^-24*max|block|, beyond 1e-5*max|block|"
    return w
