"""Independent reference code for C17 (tilt-series metadata): mdoc grammar generator + section parser, text-file
number readers, gctf/ctffind4 writers and readers, '$xxx' file-format expansion, wedge-list expectations.

Nothing here imports cryoCAT.  STAR text is tokenised with vmon.oracles.star, EM bytes with vmon.oracles.files.
"""
import os
import re

import numpy as np
import pandas as pd

from vmon.oracles import star

# ================================================================================================
# mdoc grammar
# ================================================================================================
SEC_RE = re.compile(r"^\[(ZValue|FrameSet)\s*=\s*(.*?)\]\s*$")
INT_RE = re.compile(r"^[+-]?\d+$")

HEADER_KEYS = ["PixelSpacing", "Voltage", "ImageFile", "ImageSize", "DataMode", "Montage", "Binning", "ImageSeries",
               "TiltAxisAngle", "Version", "Notes", "Operator", "GridName", "CameraLength"]
SECTION_KEYS = ["StagePosition", "StageZ", "Magnification", "Intensity", "SpotSize", "Defocus", "ImageShift", "RotationAngle",
                "ExposureTime", "Binning", "CameraIndex", "DividedBy2", "MagIndex", "CountsPerElectron", "MinMaxMean",
                "TargetDefocus", "NumSubFrames", "FrameDosesAndNumber", "FilterSlitAndLoss", "ChannelName", "UncroppedSize",
                "Operator", "Comment", "GainReference", "TimeStamp"]
TEXT_POOL = ["TS_01.mrc", "4096 4096", "12-Jan-21  14:01:35", "SerialEM", "K3-0123 gain.dm4", "a b  c", "x,y;z", "50%", "(2)",
             "it's", 'say "hi"', "[x]", "a]b", "{3}", "tomo#7", "path/to/file.tif", "X:\\frames\\raw\\a.tif", "1,5", "3.4.5", "0x1F",
             "--3", "1e", "e5", "1.5x", "K3", "+", "-", "..", "~x", "a|b", "q?", "<t>", "$1", "!x", "*", "a:b", "_under", "12@stack"]
UNICODE_POOL = ["5 µm hole", "2.1 Å/px", "85.3°", "Béla Ångström", "café", "naïve", "Dvořák", "Müller", "αβγ", "−3 µm", "½ dose", "漢字",
                "tilt ±60°", "Ø 2 µm", "n°7", "señal", "œuvre"]
SPECIAL_POOL = ["nan", "NaN", "inf", "-inf", "True", "False", "None", "1e-05", "5E3", "+3", "+2.5", "1_000", " 7 ", "0x10", "1.2.3",
                "-", "--1", "1-2", "٣"]  # the last one is a non-ASCII digit: only used when the class asks for it


def _float_text(rng, lo=-3.0, hi=9.0):
    """decimal text of a positive float whose Python repr has no exponent (1e-4 <= v < 1e16)"""
    for _ in range(50):
        mag = 10.0 ** rng.uniform(lo, hi)
        dec = int(rng.integers(1, 7))
        t = "%.*f" % (dec, mag)
        r = rng.random()
        if r < 0.06:
            t = ("%d." % int(mag))                      # "10."
        elif r < 0.12 and mag < 1:
            t = t.lstrip("0") or t                      # ".5"
        v = float(t)
        if v >= 1e-4 and v < 1e15 and "e" not in repr(v):
            return t
    return "1.5"


def gen_value(rng, kind):
    if kind == "int":
        r = rng.random()
        if r < 0.08:
            return "%0*d" % (int(rng.integers(2, 6)), int(rng.integers(0, 100)))       # leading zeros
        if r < 0.13:
            return "".join(str(d) for d in rng.integers(1, 10, int(rng.integers(19, 31))))   # beyond int64
        return str(int(rng.integers(0, 10 ** int(rng.integers(1, 10)))))
    if kind == "float":
        return _float_text(rng)
    if kind == "neg":
        return "-" + (gen_value(rng, "int") if rng.random() < 0.4 else _float_text(rng, -3, 5))
    if kind == "pair":
        k = int(rng.integers(2, 4))
        return " ".join("%.*f" % (int(rng.integers(0, 4)), rng.uniform(-5000, 5000)) for _ in range(k))
    if kind == "datetime":
        return "%02d-%s-%02d  %02d:%02d:%02d" % (rng.integers(1, 29), rng.choice(["Jan", "Feb", "Mar", "Oct"]), rng.integers(18, 25),
                                               rng.integers(0, 24), rng.integers(0, 60), rng.integers(0, 60))
    if kind == "path":
        return "X:\\frames\\TS_%02d_%03d_%.1f.tif" % (rng.integers(1, 99), rng.integers(0, 200), rng.uniform(-60, 60))
    if kind == "special":
        return str(rng.choice(SPECIAL_POOL[:-1])).strip()
    if kind == "empty":
        return ""
    if kind == "unicode":
        t = str(rng.choice(UNICODE_POOL))
        return t if rng.random() < 0.6 else "%s %s" % (gen_value(rng, "text").replace("=", ":"), t)
    if kind == "expfloat":
        r = rng.random()
        if r < 0.5:
            return "%.*f" % (int(rng.integers(6, 12)), 10.0 ** rng.uniform(-9, -4.05))
        return "%.1f" % (10.0 ** rng.uniform(16.1, 22))
    t = str(rng.choice(TEXT_POOL))
    if rng.random() < 0.3:
        t = "".join(rng.choice(list("abcXYZ_/.-@0123456789\"',;[](){}%|?&~<>$!*:+ "), size=int(rng.integers(1, 14)))).strip() or "t"
    return t


def tilt_scheme(rng, n, scheme, ties=False):
    step = float(rng.choice([1.0, 2.0, 3.0, 1.5, 2.5]))
    off = float(np.round(rng.uniform(-0.6, 0.6), 2))
    k = np.arange(n)
    base = (k - n // 2) * step + off
    base = base + np.round(rng.uniform(-0.2, 0.2, n), 2)       # stage inaccuracy; still strictly ascending (step >= 1)
    if scheme == "ascending":
        t = base
    elif scheme == "descending":
        t = base[::-1]
    elif scheme == "dose_symmetric":
        order = np.argsort(np.abs(k - n // 2), kind="stable")
        t = base[order]
    elif scheme == "bidirectional":
        h = n // 2
        t = np.concatenate([base[h:], base[:h][::-1]])
    else:
        t = base[rng.permutation(n)]
    t = np.array(t, dtype=float)
    if ties and n >= 2:
        for _ in range(int(rng.integers(1, 1 + max(1, n // 4)))):
            a, b = rng.integers(0, n, 2)
            t[a] = t[b]
    return t


def tilt_text(rng, v, style):
    if style == "g":
        return "%g" % v
    if style == "4":
        return "%.4f" % v
    if style == "int" and float(v) == round(float(v)):
        return "%d" % round(float(v))
    return "%.2f" % v


def gen_mdoc(rng, n, cls="plain", section_id="ZValue", scheme=None, ties=False, with_prior=None, value_kinds=None,
             allow_exp=False, prior_mode="cumulative"):
    """-> struct dict(header=[(k,v)], titles=[..], section_id, sections=[{"id": text, "items": [(k, v), ...]}], layout={...})
    All values are texts as they will stand in the file (already stripped)."""
    hostile = cls in ("values", "expfloat", "unicode")
    uni = cls == "unicode"                 # non-ASCII text (degree / micro / Angstrom signs, accented names) in titles, header, image values
    nh = int(rng.integers(2 if uni else 0, 7))
    hkeys = [str(x) for x in rng.choice(HEADER_KEYS, nh, replace=False)]
    header = []
    for k in hkeys:
        kinds = ["int", "float", "text", "pair", "neg"] + (["special", "empty", "datetime"] if hostile else [])
        kind = str(rng.choice(kinds))
        if cls == "expfloat" and rng.random() < 0.5:
            kind = "expfloat"
        if uni and rng.random() < 0.6:
            kind = "unicode"
        header.append((k, gen_value(rng, kind)))
    titles = []
    if section_id == "ZValue":
        for _ in range(int(rng.integers(1 if uni else 0, 4))):
            r = rng.random()
            deg = "°" if (uni or rng.random() < 0.25) else ""
            if r < 0.4:
                titles.append("T = SerialEM: Digitized on %s  %s" % (str(rng.choice(["Krios", "Glacios", "Arctica"])), gen_value(rng, "datetime")))
            elif r < 0.8:
                titles.append("T =     Tilt axis angle = %.1f%s, binning = %d  spot = %d  camera = %d" % (
                    rng.uniform(-180, 180), deg, rng.integers(1, 5), rng.integers(1, 10), rng.integers(0, 3)))
            else:
                titles.append("T = %s" % gen_value(rng, "unicode" if uni else "text").replace("[", "(").replace("]", ")").strip() or "T = x")
    else:
        header.insert(0, ("T", "SerialEM: Acquired on %s  %s" % (str(rng.choice(["Krios", "Glacios"])), gen_value(rng, "datetime"))))
    # ---- section keys
    nk = int(rng.integers(0, 10))
    keys = [str(x) for x in rng.choice(SECTION_KEYS, nk, replace=False)]
    if with_prior is None:
        with_prior = bool(rng.random() < 0.6)
    dose_keys = ["ExposureDose"] + (["PriorRecordDose"] if with_prior else []) + ["DateTime", "SubFramePath"]
    if cls in ("plain", "crlf", "values") and rng.random() < 0.3 and with_prior is not True:
        dose_keys = []
    keys = keys + dose_keys + ["TiltAngle"]
    keys = [keys[j] for j in rng.permutation(len(keys))]
    kinds = {}
    for k in keys:
        pool = ["int", "float", "text", "pair", "neg", "mixed_num"] + (["special", "mixed_all", "empty"] if hostile else []) + (["unicode"] * 4 if uni else [])
        kinds[k] = str(rng.choice(pool))
    if value_kinds:
        kinds.update(value_kinds)
    scheme = scheme or str(rng.choice(["ascending", "descending", "dose_symmetric", "bidirectional", "random"]))
    tilts = tilt_scheme(rng, n, scheme, ties)
    tstyle = str(rng.choice(["2", "2", "4", "g", "int"]))
    exposure = float(np.round(rng.uniform(0.5, 4.0), int(rng.integers(1, 4))))
    zmode = str(rng.choice(["seq", "seq", "seq", "from1", "gaps", "perm"]))
    if zmode == "seq":
        zs = np.arange(n)
    elif zmode == "from1":
        zs = np.arange(1, n + 1)
    elif zmode == "gaps":
        zs = np.sort(rng.choice(np.arange(3 * n + 2), n, replace=False))
    else:
        zs = rng.permutation(n)
    if section_id == "FrameSet":
        zs = np.arange(n) if rng.random() < 0.5 else np.zeros(n, dtype=int)
    acq_rank = np.argsort(np.argsort(rng.permutation(n))) if scheme == "random" else np.arange(n)
    sections = []
    vary_order = cls == "values" and rng.random() < 0.4
    for j in range(n):
        items = []
        for k in keys:
            if k == "TiltAngle":
                v = tilt_text(rng, tilts[j], tstyle)
            elif k == "ExposureDose":
                v = ("%r" % exposure) if rng.random() < 0.9 else ("%d" % round(exposure))
            elif k == "PriorRecordDose":
                p = exposure * int(acq_rank[j])
                if prior_mode == "zeros":          # PriorRecordDose present and 0 in EVERY image (dose = 0 + exposure)
                    p = 0.0
                elif prior_mode == "constant":     # one distinct non-zero value in every image
                    p = 3 * exposure
                v = "0" if p == 0 and rng.random() < 0.7 else "%r" % float(np.round(p, 4))
            elif k == "DateTime":
                v = "12-Jan-21  14:%02d:%02d" % (int(acq_rank[j]) // 2 % 60, 30 * (int(acq_rank[j]) % 2) + int(rng.integers(0, 29)))
            elif k == "SubFramePath":
                v = "X:\\frames\\TS_07_%03d_%s.tif" % (j, tilt_text(rng, tilts[j], "2"))
            else:
                kd = kinds[k]
                if kd == "mixed_num":
                    kd = str(rng.choice(["int", "float", "neg"]))
                elif kd == "mixed_all":
                    kd = str(rng.choice(["int", "float", "neg", "text", "special", "pair"]))
                if (cls == "expfloat" and rng.random() < 0.25) or (cls == "values" and rng.random() < 0.03):
                    kd = "expfloat"
                v = gen_value(rng, kd)
            items.append((k, v))
        if vary_order and j > 0:
            items = [items[q] for q in rng.permutation(len(items))]
        sections.append({"id": str(int(zs[j])), "items": items})
    layout = {"crlf": cls == "crlf" or (cls != "plain" and rng.random() < 0.15),
              "blank_between": int(rng.choice([1, 1, 1, 2, 0])), "ws_lines": bool(rng.random() < 0.2),
              "tight_eq": bool(hostile and rng.random() < 0.2), "pad_values": bool(hostile and rng.random() < 0.3),
              "final_newline": bool(rng.random() < 0.85), "trailing_blank": bool(rng.random() < 0.7)}
    return {"header": header, "titles": titles, "section_id": section_id, "sections": sections, "layout": layout,
            "tilts": [float(x) for x in tilts], "scheme": scheme, "with_prior": with_prior and "PriorRecordDose" in keys}


def render_mdoc(st):
    lay = st["layout"]
    eq = "=" if lay["tight_eq"] else " = "
    pad = "  " if lay["pad_values"] else ""
    blank = "   " if lay["ws_lines"] else ""
    lines = []
    for k, v in st["header"]:
        lines.append("%s%s%s%s" % (k, eq, pad + v, pad))
    lines.append(blank)
    for t in st["titles"]:
        lines.append("[%s]" % t)
        lines.append("")
    for s in st["sections"]:
        lines.append("[%s = %s]" % (st["section_id"], s["id"]))
        for k, v in s["items"]:
            lines.append("%s%s%s%s" % (k, eq, pad + v, pad))
        lines += [blank] * lay["blank_between"]
    if not lay["trailing_blank"]:
        while lines and not lines[-1].strip():
            lines.pop()
    nl = "\r\n" if lay["crlf"] else "\n"
    text = nl.join(lines)
    if lay["final_newline"]:
        text += nl
    return text


def parse_mdoc(text):
    """Independent section parser -> dict(header=[(k, vtext)], titles, section_id, sections=[{"id": text, "items": [(k, vtext)]}]).
    Raises ValueError for a text outside the grammar."""
    lines = re.split(r"\r\n|\n|\r", text)
    header, titles, sections = [], [], []
    sid = None
    cur = None
    for ln, raw in enumerate(lines, 1):
        s = raw.strip()
        if not s:
            continue
        m = SEC_RE.match(raw.rstrip())
        if m and (sid is None or m.group(1) == sid):
            sid = m.group(1)
            cur = {"id": m.group(2).strip(), "items": []}
            sections.append(cur)
            continue
        if cur is None:
            if s.startswith("["):
                if not s.endswith("]"):
                    raise ValueError("line %d: unterminated title" % ln)
                titles.append(s[1:-1].strip())
                continue
            k, e, v = raw.partition("=")
            if not e or "=" in v:
                raise ValueError("line %d: header line is not 'key = value'" % ln)
            header.append((k.strip(), v.strip()))
            continue
        if raw.startswith("["):
            raise ValueError("line %d: bracket line inside the image sections" % ln)
        k, e, v = raw.partition("=")
        if not e or "=" in v:
            raise ValueError("line %d: section line is not 'key = value'" % ln)
        cur["items"].append((k.strip(), v.strip()))
    return {"header": header, "titles": titles, "section_id": sid, "sections": sections}


def mdoc_in_grammar(p):
    """is the parsed text inside the property's quantifier? -> None or reason"""
    if not p["sections"]:
        return "no sections"
    hk = [k for k, _ in p["header"]]
    if len(set(hk)) != len(hk) or any(not k for k in hk):
        return "duplicate/empty header key"
    for t in p["titles"]:
        if t.startswith("[") or t.endswith("]") or t == "":
            return "bracket at a title edge"
    k0 = [k for k, _ in p["sections"][0]["items"]]
    if len(set(k0)) != len(k0) or "TiltAngle" not in k0 or "Removed" in k0 or p["section_id"] in k0 or any(not k for k in k0):
        return "section keys"
    for s in p["sections"]:
        ks = [k for k, _ in s["items"]]
        if sorted(ks) != sorted(k0):
            return "ragged sections"
        if not INT_RE.match(s["id"]):
            return "section id not an integer"
        try:
            float(dict(s["items"])["TiltAngle"])
        except ValueError:
            return "TiltAngle not a number"
    return None


def is_num(v):
    return isinstance(v, (int, float, np.integer, np.floating)) and not isinstance(v, (bool, np.bool_))


def value_matches(text, obj):
    """does the in-memory object stand for the file text?  numbers by value, everything else as stripped text"""
    if isinstance(obj, (bool, np.bool_)):
        return False
    t = text.strip()
    if is_num(obj):
        if isinstance(obj, (float, np.floating)) and obj != obj:
            return False
        try:
            if INT_RE.match(t) and t.isascii():
                return int(t) == obj
            return float(t) == float(obj)
        except (ValueError, OverflowError):
            return False
    return isinstance(obj, str) and obj == t


def cell(v):
    """canonical form of one table cell"""
    if isinstance(v, (bool, np.bool_)):
        return ("b", bool(v))
    if is_num(v):
        if isinstance(v, (float, np.floating)) and v != v:
            return ("nan",)
        return ("n", v.item() if isinstance(v, np.generic) else v)
    if v is None:
        return ("none",)
    return ("s", v) if isinstance(v, str) else ("o", repr(v))


def cells_equal(a, b):
    return a[0] == b[0] and (len(a) == 1 or a[1] == b[1])


def table_state(imgs):
    """(columns, index labels, rows of canonical cells) of an image table"""
    cols = [str(c) for c in imgs.columns]
    rows = [[cell(v) for v in r] for r in imgs.itertuples(index=False, name=None)]
    return cols, list(imgs.index), rows


def rows_by_name(cols, rows, skip=()):
    return [{c: v for c, v in zip(cols, r) if c not in skip} for r in rows]


def first_row_diff(got, exp):
    """two lists of {col: cell}: -> None or witness"""
    if len(got) != len(exp):
        return {"what": "number of images", "got": len(got), "expected": len(exp)}
    for i, (g, e) in enumerate(zip(got, exp)):
        if sorted(g) != sorted(e):
            return {"what": "columns", "row": i, "got": sorted(g)[:12], "expected": sorted(e)[:12]}
        for c in e:
            if not cells_equal(g[c], e[c]):
                return {"what": "cell", "row": i, "column": c, "got": list(g[c]), "expected": list(e[c])}
    return None



# ================================================================================================
# one-value-per-line files
# ================================================================================================
NUM_STYLES = ["lf", "crlf", "lead_ws", "trail_ws", "tabs", "no_final_nl", "blank_end", "sci", "ints", "plus", "blank_inside", "odd_forms"]


def odd_form(rng, t):
    """another decimal spelling of the same number: .5  5.  1E1  +3  3e-06  007.50"""
    v = float(t)
    r = rng.random()
    if r < 0.2 and t.startswith("0."):
        return t[1:]
    if r < 0.2 and t.startswith("-0."):
        return "-" + t[2:]
    if r < 0.4 and v == round(v):
        return "%d." % round(v)
    if r < 0.55:
        return ("%E" % v) if rng.random() < 0.5 else ("%.6e" % v)
    if r < 0.7 and v > 0:
        return "+" + t
    if r < 0.8 and v > 0:
        return "00" + t
    return t


def render_numbers(rng, values, style, fmt=None):
    fmt = fmt or str(rng.choice(["%.2f", "%.4f", "%g", "%.1f", "%.6f"]))
    toks = []
    for v in values:
        if style == "sci":
            t = "%.5e" % v
        elif style == "ints" and float(v) == round(float(v)):
            t = "%d" % round(float(v))
        else:
            t = fmt % v
        if style == "plus" and float(t) > 0 and rng.random() < 0.5:
            t = "+" + t
        if style == "odd_forms":
            t = odd_form(rng, t)
        toks.append(t)
    lines = []
    for t in toks:
        if style == "lead_ws":
            t = " " * int(rng.integers(1, 5)) + t
        elif style == "trail_ws":
            t = t + " " * int(rng.integers(1, 4))
        elif style == "tabs":
            t = "\t" + t + ("\t" if rng.random() < 0.5 else "")
        lines.append(t)
        if style == "blank_inside" and rng.random() < 0.2:
            lines.append("")
    nl = "\r\n" if style == "crlf" else "\n"
    text = nl.join(lines)
    if style != "no_final_nl":
        text += nl
    if style == "blank_end":
        text += nl * int(rng.integers(1, 3))
    return text, toks


def read_numbers(path):
    """independent reader: one numeric token per non-blank line -> float64 array, or None if the file is not of that form"""
    try:
        text = open(path, "rb").read().decode("utf-8")
    except (OSError, UnicodeDecodeError):
        return None
    vals = []
    for raw in re.split(r"\r\n|\n|\r", text):
        t = raw.split()
        if not t:
            continue
        if len(t) != 1 or not star.NUM_RE.match(t[0]):
            return None
        vals.append(float(t[0]))
    return np.array(vals, dtype=np.float64) if vals else None


def f32_close(got, exp, ulps=2):
    """elementwise: got equals float32(exp) within a couple of float32 ulps"""
    got = np.asarray(got, dtype=np.float64)
    e32 = np.asarray(exp, dtype=np.float64).astype(np.float32)
    tol = ulps * np.spacing(np.abs(e32)).astype(np.float64)
    return got.shape == e32.shape and bool(np.all(np.abs(got - e32.astype(np.float64)) <= tol))


# ================================================================================================
# defocus files
# ================================================================================================
GCTF_OTHER = ["rlnMicrographName", "rlnCtfImage", "rlnVoltage", "rlnSphericalAberration", "rlnAmplitudeContrast", "rlnMagnification",
              "rlnDetectorPixelSize", "rlnCtfFigureOfMerit", "rlnFinalResolution", "rlnCtfMaxResolution", "rlnCtfBfactor"]


def render_gctf(rng, U, V, ang, phase=None, style="plain"):
    n = len(U)
    others = [str(x) for x in rng.choice(GCTF_OTHER, int(rng.integers(0, 7)), replace=False)]
    labels = others + ["rlnDefocusU", "rlnDefocusV", "rlnDefocusAngle"] + (["rlnPhaseShift"] if phase is not None else [])
    if style != "canonical":
        labels = [labels[j] for j in rng.permutation(len(labels))]
    fmt = str(rng.choice(["%.6f", "%.2f", "%.4f"]))
    cols = {}
    for lab in labels:
        whole = style in ("ints", "all_ints")          # 'all_ints': every defocus/angle/phase token is a whole number (integer-typed columns)
        if lab == "rlnDefocusU":
            cols[lab] = [("%d" % round(v)) if whole else fmt % v for v in U]
        elif lab == "rlnDefocusV":
            cols[lab] = [("%d" % round(v)) if whole else fmt % v for v in V]
        elif lab == "rlnDefocusAngle":
            cols[lab] = [("%d" % round(v)) if style == "all_ints" else "%.6f" % v for v in ang]
        elif lab == "rlnPhaseShift":
            cols[lab] = [("%d" % round(v)) if style == "all_ints" else "%.6f" % v for v in phase]
        elif lab in ("rlnMicrographName", "rlnCtfImage"):
            cols[lab] = ["Micrographs/TS_07_%03d.%s" % (j, "mrc" if lab == "rlnMicrographName" else "ctf:mrc") for j in range(n)]
        else:
            base = float(rng.uniform(0.01, 300))
            cols[lab] = ["%.6f" % (base + (0.001 * j if lab.startswith("rlnCtf") or lab == "rlnFinalResolution" else 0)) for j in range(n)]
    nl = "\r\n" if style == "crlf" else "\n"
    lines = [""] if rng.random() < 0.7 else []
    if style == "comments":
        lines.append("# version 30001")
    lines += ["data_", "", "loop_"]
    numbered = rng.random() < 0.8
    for k, lab in enumerate(labels, 1):
        lines.append("_%s #%d" % (lab, k) if numbered else "_%s" % lab)
    sep = "\t" if rng.random() < 0.3 else " " * int(rng.integers(1, 4))
    for j in range(n):
        lines.append(sep.join(cols[lab][j] for lab in labels))
    text = nl.join(lines) + nl + (nl if rng.random() < 0.5 else "")
    return text


def read_gctf(path):
    """independent reader of a gctf STAR file -> (n,5) array [defocus1, defocus2, astigmatism, phase_shift, defocus_mean] (micrometre)
    or None when the file is outside the grammar"""
    try:
        blocks = star.tokenize(open(path, "rb").read().decode("utf-8"))
    except (OSError, UnicodeDecodeError, ValueError):
        return None
    if not blocks:
        return None
    b = blocks[0]
    need = ["rlnDefocusU", "rlnDefocusV", "rlnDefocusAngle"]
    if any(lab not in b["labels"] for lab in need) or len(set(b["labels"])) != len(b["labels"]) or not b["rows"]:
        return None

    def col(lab):
        j = b["labels"].index(lab)
        toks = [r[j] for r in b["rows"]]
        if not all(star.NUM_RE.match(t) for t in toks):
            raise ValueError
        return np.array([float(t) for t in toks])
    try:
        U, V, A = col("rlnDefocusU"), col("rlnDefocusV"), col("rlnDefocusAngle")
        P = col("rlnPhaseShift") if "rlnPhaseShift" in b["labels"] else np.zeros(len(U))
    except ValueError:
        return None
    return np.column_stack([U * 1e-4, V * 1e-4, A, P, (U + V) / 2.0 * 1e-4])


CTFFIND_HEADER = ["# Output from CTFFind version 4.1.14, run on 2021-01-12 14:01:35",
                  "# Input file: TS_07.st ; Number of micrographs: 41",
                  "# Pixel size: 1.350 Angstroms ; acceleration voltage: 300.0 keV ; spherical aberration: 2.70 mm ; amplitude contrast: 0.07",
                  "# Box size: 512 pixels ; min. res.: 30.0 Angstroms ; max. res.: 5.0 Angstroms ; min. def.: 5000.0 um; max. def. 50000.0 um",
                  "# Columns: #1 - micrograph number; #2 - defocus 1 [Angstroms]; #3 - defocus 2; #4 - azimuth of astigmatism; #5 - additional phase shift [radians]; #6 - cross correlation; #7 - spacing (in Angstroms) up to which CTF rings were fit successfully",
                  "#"]


def render_ctffind4(rng, U, V, ang, phase, style="plain"):
    n = len(U)
    nh = {"plain": 5, "nohdr": 0}.get(style, int(rng.integers(0, 7)))
    lines = list(CTFFIND_HEADER[:nh])
    ncol = 7 if style != "cols" else int(rng.choice([5, 6, 8]))
    fmt = "%.6f" if style != "short" else "%.2f"
    for j in range(n):
        vals = [j + 1.0, U[j], V[j], ang[j], phase[j]] + [float(rng.uniform(0.01, 0.3)), float(rng.uniform(3, 20)), 0.0][:ncol - 5]
        row = " ".join(fmt % v for v in vals)
        if style == "whole":                           # every number written without a fractional part
            row = " ".join("%d" % round(v) for v in vals)
        if style == "lead_ws":
            row = "  " + row
        if style == "tabs":
            row = row.replace(" ", "\t")
        lines.append(row)
    nl = "\r\n" if style == "crlf" else "\n"
    return nl.join(lines) + (nl if style != "no_final_nl" else "")


def read_ctffind4(path):
    """independent reader: '#' lines at the top are comments -> (n,5) float64 array as for read_gctf, or None"""
    try:
        text = open(path, "rb").read().decode("utf-8")
    except (OSError, UnicodeDecodeError):
        return None
    rows = []
    seen_data = False
    width = None
    for raw in re.split(r"\r\n|\n|\r", text):
        if raw.startswith("#"):
            if seen_data:
                return None
            continue
        t = raw.split()
        if not t:
            continue
        seen_data = True
        if len(t) < 5 or not all(star.NUM_RE.match(x) for x in t) or (width is not None and len(t) != width):
            return None
        width = len(t)
        rows.append([float(x) for x in t[:5]])
    if not rows:
        return None
    a = np.array(rows)
    U, V = a[:, 1], a[:, 2]
    return np.column_stack([U * 1e-4, V * 1e-4, a[:, 3], a[:, 4], (U + V) / 2.0 * 1e-4])


# ================================================================================================
# '$xxx' file formats, argument readers for the wedge-list expectations
# ================================================================================================
class OutOfDomain(Exception):
    pass


def expand_format(fmt, number, letter="x"):
    """'TS_$xxx/$xxx.tlt', 79 -> 'TS_079/079.tlt' (zero padded to the run length; longer numbers are an error)"""
    out = []
    i = 0
    while i < len(fmt):
        if fmt[i] == "$" and i + 1 < len(fmt) and fmt[i + 1] == letter:
            j = i + 1
            while j < len(fmt) and fmt[j] == letter:
                j += 1
            digits = str(int(number))
            if len(digits) > j - i - 1:
                raise OutOfDomain("number longer than the pattern")
            out.append(digits.rjust(j - i - 1, "0"))
            i = j
        else:
            out.append(fmt[i])
            i += 1
    return "".join(out)


def mdoc_tilts_and_dose(path):
    """independent: (tilts in file order, prior+exposure in file order or None)"""
    try:
        p = parse_mdoc(open(path, "rb").read().decode("utf-8"))
    except (OSError, UnicodeDecodeError, ValueError):
        raise OutOfDomain("mdoc outside the grammar")
    if mdoc_in_grammar(p) is not None:
        raise OutOfDomain(mdoc_in_grammar(p))
    tilts = np.array([float(dict(s["items"])["TiltAngle"]) for s in p["sections"]])
    dose = None
    k0 = [k for k, _ in p["sections"][0]["items"]]
    if "ExposureDose" in k0 and "PriorRecordDose" in k0:
        try:
            dose = np.array([float(dict(s["items"])["ExposureDose"]) + float(dict(s["items"])["PriorRecordDose"]) for s in p["sections"]])
        except ValueError:
            dose = None
    return tilts, dose


def arg_tilts(arg, sort_angles=True):
    """expected return of the tilt loader for this argument -> (array, kind) ; kind in array/list/mdoc/file"""
    if isinstance(arg, np.ndarray):
        if arg.size == 0:
            raise OutOfDomain("empty")
        return arg, "array"
    if isinstance(arg, list):
        if not arg:
            raise OutOfDomain("empty")
        return np.asarray(arg), "list"
    if isinstance(arg, str):
        if arg.endswith(".mdoc"):
            t, _ = mdoc_tilts_and_dose(arg)
            return (np.sort(t) if sort_angles else t), "mdoc"
        if arg.endswith(".xml"):
            raise OutOfDomain("warp xml")
        v = read_numbers(arg)
        if v is None:
            raise OutOfDomain("not a one-value-per-line file")
        v = v.astype(np.float32)
        return (np.sort(v) if sort_angles else v), "file"
    raise OutOfDomain("unsupported type")


def arg_dose(arg, sort_mdoc=True):
    if isinstance(arg, np.ndarray):
        return arg, "array"
    if isinstance(arg, list):
        return np.asarray(arg), "list"
    if isinstance(arg, str):
        if arg.endswith((".csv", ".xml")):
            raise OutOfDomain("csv/xml dose")
        if arg.endswith(".mdoc"):
            t, d = mdoc_tilts_and_dose(arg)
            if d is None:
                raise OutOfDomain("no PriorRecordDose: the property states prior + exposure only")
            if sort_mdoc:
                if len(set(t.tolist())) != len(t):
                    raise OutOfDomain("tilt ties: order of the sorted doses is not determined")
                d = d[np.argsort(t, kind="stable")]
            return d, "mdoc"
        v = read_numbers(arg)
        if v is None:
            raise OutOfDomain("not a one-value-per-line file")
        return v.astype(np.float32), "file"
    raise OutOfDomain("unsupported type")


def arg_defocus_mean(arg, file_type):
    if isinstance(arg, pd.DataFrame):
        if "defocus_mean" not in arg.columns:
            raise OutOfDomain("frame without defocus_mean")
        return arg["defocus_mean"].to_numpy(dtype=float), "frame"
    if isinstance(arg, str):
        ft = str(file_type).lower()
        if ft == "gctf":
            a = read_gctf(arg)
        elif ft == "ctffind4":
            a = read_ctffind4(arg)
        else:
            raise OutOfDomain("warp")
        if a is None:
            raise OutOfDomain("defocus file outside the grammar")
        return a[:, 4], ft
    a = np.asarray(arg, dtype=float)
    if a.ndim != 2 or a.shape[1] != 5:
        raise OutOfDomain("array not Nx5")
    return a[:, 4], "array"


def _table_from(arg):
    if isinstance(arg, pd.DataFrame):
        return arg.to_numpy(dtype=float)
    if isinstance(arg, str):
        if arg.endswith(".com") or not os.path.isfile(arg):
            raise OutOfDomain("com file / missing")
        try:
            return np.loadtxt(arg, ndmin=2, dtype=float)
        except ValueError:
            raise OutOfDomain("not a numeric table")
    if isinstance(arg, (int, float, np.integer, np.floating)) and not isinstance(arg, bool):
        return np.array([[float(arg)]])
    try:
        a = np.asarray(arg, dtype=float)
    except (ValueError, TypeError):
        raise OutOfDomain("not numeric")
    if a.ndim == 0:
        a = a.reshape(1, 1)
    if a.ndim == 1:
        a = a.reshape(1, -1)
    if a.ndim != 2:
        raise OutOfDomain("not a table")
    return a


def arg_dims_single(arg):
    a = _table_from(arg)
    if a.shape != (1, 3):
        raise OutOfDomain("single-tomogram dimensions must be 1x3")
    return a[0]


def arg_zshift_single(arg):
    if isinstance(arg, (list, np.ndarray)):
        a = np.asarray(arg, dtype=float)
        if a.ndim == 1:                      # a plain sequence is read as one value per row
            a = a.reshape(-1, 1)
    else:
        a = _table_from(arg)
    if a.shape != (1, 1):
        raise OutOfDomain("single-tomogram z-shift must be one number")
    return float(a[0, 0])


def arg_dims_batch(arg, tomos):
    a = _table_from(arg)
    if a.shape == (1, 3):
        return {int(t): a[0] for t in tomos}
    if a.ndim == 2 and a.shape[1] == 4:
        out = {}
        for t in tomos:
            hit = a[a[:, 0] == float(t)]
            if len(hit) == 0:
                raise OutOfDomain("tomogram without dimensions")
            if len(hit) > 1 and not np.all(hit == hit[0]):
                raise OutOfDomain("ambiguous dimensions")
            out[int(t)] = hit[0, 1:]
        return out
    raise OutOfDomain("dimension table shape")


def arg_zshift_batch(arg, tomos):
    if isinstance(arg, (list, np.ndarray)):
        a = np.asarray(arg, dtype=float)
        if a.ndim == 1:
            a = a.reshape(-1, 1)
        if a.ndim == 0:
            a = a.reshape(1, 1)
    else:
        a = _table_from(arg)
    if a.shape == (1, 1):
        return {int(t): float(a[0, 0]) for t in tomos}
    if a.ndim == 2 and a.shape[1] == 2:
        out = {}
        for t in tomos:
            hit = a[a[:, 0] == float(t)]
            if len(hit) == 0:
                raise OutOfDomain("tomogram without z-shift")
            if len(hit) > 1 and not np.all(hit == hit[0]):
                raise OutOfDomain("ambiguous z-shift")
            out[int(t)] = float(hit[0, 1])
        return out
    raise OutOfDomain("z-shift table shape")


def arg_tomograms(arg):
    t, kind = arg_tilts(arg)
    t = np.asarray(t)
    if t.ndim != 1 or not np.all(np.isfinite(t.astype(float))):
        raise OutOfDomain("tomogram list")
    return [int(x) for x in t.astype(int)], kind


WL_COLS = ["tomo_num", "pixelsize", "tomo_x", "tomo_y", "tomo_z", "z_shift", "tilt_angle", "defocus", "exposure", "voltage",
           "amp_contrast", "cs"]


def expected_single(tomo_id, tomo_dim, pixel_size, tlt_file, z_shift, ctf_file, ctf_file_type, dose_file, voltage, amp_contrast, cs):
    """expected wedge-list columns {name: float64 array} for one tomogram (defocus/exposure only when supplied)"""
    for v in (pixel_size, voltage, amp_contrast, cs, tomo_id):
        if not is_num(v) or not np.isfinite(float(v)):
            raise OutOfDomain("non-numeric constant")
    tilts, tkind = arg_tilts(tlt_file)
    tilts = np.asarray(tilts, dtype=float)
    if tilts.ndim != 1 or not np.all(np.isfinite(tilts)):
        raise OutOfDomain("tilts")
    if tkind == "file":
        raw = read_numbers(tlt_file)
        if np.any(np.diff(raw) < 0):
            raise OutOfDomain("tilt file not ascending: the pairing with the i-th defocus/dose is not defined")
    if tkind == "mdoc" and len(set(tilts.tolist())) != len(tilts):
        raise OutOfDomain("tilt ties in mdoc")
    n = len(tilts)
    dims = arg_dims_single(tomo_dim)
    zs = arg_zshift_single(z_shift)
    exp = {"tomo_num": np.full(n, float(tomo_id)), "pixelsize": np.full(n, float(pixel_size)), "tomo_x": np.full(n, dims[0]),
           "tomo_y": np.full(n, dims[1]), "tomo_z": np.full(n, dims[2]), "z_shift": np.full(n, zs), "tilt_angle": tilts,
           "voltage": np.full(n, float(voltage)), "amp_contrast": np.full(n, float(amp_contrast)), "cs": np.full(n, float(cs))}
    if ctf_file is not None:
        d, _ = arg_defocus_mean(ctf_file, ctf_file_type)
        if d.shape != (n,) or not np.all(np.isfinite(d)):
            raise OutOfDomain("defocus rows != tilts")
        exp["defocus"] = d
    if dose_file is not None:
        d, _ = arg_dose(dose_file)
        d = np.asarray(d, dtype=float)
        if d.shape != (n,) or not np.all(np.isfinite(d)):
            raise OutOfDomain("dose rows != tilts")
        exp["exposure"] = d
    if not np.all(np.isfinite(np.concatenate([dims, [zs]]))):
        raise OutOfDomain("nan dims")
    return exp


def expected_batch(A):
    """A = bound arguments of create_wedge_list_sg_batch -> (tomogram order, list of per-tomogram expectations)"""
    tomos, tkind = arg_tomograms(A["tomo_list"])
    if len(set(tomos)) != len(tomos):
        raise OutOfDomain("repeated tomogram")
    if A["tomo_dim_file_format"] is None:
        if A["tomo_dim"] is None:
            raise OutOfDomain("no dimensions")
        dims = arg_dims_batch(A["tomo_dim"], tomos)
    else:
        dims = {t: arg_dims_single(expand_format(A["tomo_dim_file_format"], t)) for t in tomos}
    if A["z_shift_file_format"] is None:
        zs = arg_zshift_batch(A["z_shift"], tomos)
    else:
        zs = {t: arg_zshift_single(expand_format(A["z_shift_file_format"], t)) for t in tomos}
    out = []
    for t in tomos:
        ctf = expand_format(A["ctf_file_format"], t) if A["ctf_file_format"] is not None else None
        dose = expand_format(A["dose_file_format"], t) if A["dose_file_format"] is not None else None
        out.append(expected_single(t, dims[t], A["pixel_size"], expand_format(A["tlt_file_format"], t), zs[t], ctf, A["ctf_file_type"],
                                   dose, A["voltage"], A["amp_contrast"], A["cs"]))
    return tomos, out


def concat_expected(parts):
    keys = [k for k in WL_COLS if any(k in p for p in parts)]
    out = {}
    for k in keys:
        if not all(k in p for p in parts):
            raise OutOfDomain("column supplied for some tomograms only")
        out[k] = np.concatenate([p[k] for p in parts])
    return out


def num_tol(exp):
    return 1e-6 * np.maximum(1.0, np.abs(exp))


def compare_frame(df, exp, dropped_absent=True):
    """returned wedge-list frame vs expectation {col: array} -> None or witness"""
    if not isinstance(df, pd.DataFrame):
        return {"what": "not a DataFrame", "type": type(df).__name__}
    n = len(next(iter(exp.values())))
    if len(df) != n:
        return {"what": "row count (one row per tilt per tomogram)", "got": len(df), "expected": n}
    cols = [str(c) for c in df.columns]
    if len(set(cols)) != len(cols):
        return {"what": "repeated column", "columns": cols}
    for k in exp:
        if k not in cols:
            return {"what": "column missing", "column": k, "columns": cols}
    for k in cols:
        if k not in exp:
            if k in ("defocus", "exposure") and not dropped_absent:
                try:
                    allnan = bool(np.all(pd.isna(df[k].to_numpy())))
                except Exception:
                    allnan = False
                if allnan:
                    continue
            return {"what": "unexpected column", "column": k}
    for k, e in exp.items():
        try:
            g = np.array([float(v) for v in df[k].tolist()])
        except (TypeError, ValueError):
            return {"what": "non-numeric cell", "column": k, "head": [repr(v) for v in df[k].tolist()[:3]]}
        bad = ~(np.abs(g - e) <= num_tol(e))
        if bad.any():
            i = int(np.argmax(bad))
            return {"what": "value", "column": k, "row": i, "got": float(g[i]), "expected": float(e[i]), "n_wrong_rows": int(bad.sum())}
    return None


def compare_star(path, df, exp, extra_ok=()):
    """written STOPGAP wedge list (tokenised independently) vs expectation -> None or witness"""
    try:
        blocks = star.tokenize(open(path, "rb").read().decode("utf-8"))
    except (OSError, UnicodeDecodeError, ValueError) as e:
        return {"what": "written wedge list is not a readable STAR text", "error": str(e)[:200]}
    if len(blocks) != 1 or blocks[0]["name"] != "data_stopgap_wedgelist":
        return {"what": "block name", "got": [b["name"] for b in blocks]}
    b = blocks[0]
    if sorted(lab for lab in b["labels"] if lab not in extra_ok) != sorted(exp):
        return {"what": "labels", "file": b["labels"], "expected": sorted(exp)}
    if isinstance(df, pd.DataFrame) and b["labels"] != [str(c) for c in df.columns]:
        return {"what": "label order differs from the returned table", "file": b["labels"], "table": [str(c) for c in df.columns]}
    n = len(next(iter(exp.values())))
    if len(b["rows"]) != n:
        return {"what": "row count in file", "got": len(b["rows"]), "expected": n}
    for k, e in exp.items():
        j = b["labels"].index(k)
        toks = [r[j] for r in b["rows"]]
        if not all(star.NUM_RE.match(t) for t in toks):
            i = [bool(star.NUM_RE.match(t)) for t in toks].index(False)
            return {"what": "non-numeric token", "column": k, "row": i, "token": toks[i]}
        g = np.array([float(t) for t in toks])
        bad = ~(np.abs(g - e) <= num_tol(e) + 0.5e-6)
        if bad.any():
            i = int(np.argmax(bad))
            return {"what": "value in file", "column": k, "row": i, "token": toks[i], "expected": float(e[i])}
    return None


def write_wedge_star(rng, path, tomo_ids, tilt_lists, shuffle_rows=False):
    """independent writer of a STOPGAP wedge list (for feeding wedge_list_sg_to_em)"""
    labels = ["tomo_num", "pixelsize", "tomo_x", "tomo_y", "tomo_z", "z_shift", "tilt_angle", "defocus", "exposure", "voltage", "amp_contrast", "cs"]
    keep = [lab for lab in labels if lab in ("tomo_num", "tilt_angle") or rng.random() < 0.7]
    keep = [keep[j] for j in rng.permutation(len(keep))]
    rows = []
    for t, tl in zip(tomo_ids, tilt_lists):
        for a in tl:
            r = {"tomo_num": "%d" % t, "tilt_angle": "%.4f" % a}
            for lab in keep:
                if lab not in r:
                    r[lab] = "%.3f" % rng.uniform(0, 300)
            rows.append(r)
    if shuffle_rows:
        rows = [rows[j] for j in rng.permutation(len(rows))]
    lines = ["", "data_stopgap_wedgelist", "", "loop_"] + ["_" + lab for lab in keep] + [""]
    lines += ["\t".join(r[lab].ljust(10) for lab in keep) for r in rows]
    with open(path, "w") as f:
        f.write("\n".join(lines) + "\n\n")


def read_wedge_star_minmax(path):
    """independent: {tomo: (min tilt, max tilt)} from a STOPGAP wedge list, or None"""
    try:
        blocks = star.tokenize(open(path, "rb").read().decode("utf-8"))
    except (OSError, UnicodeDecodeError, ValueError):
        return None
    if not blocks or "tomo_num" not in blocks[0]["labels"] or "tilt_angle" not in blocks[0]["labels"] or not blocks[0]["rows"]:
        return None
    b = blocks[0]
    jt, ja = b["labels"].index("tomo_num"), b["labels"].index("tilt_angle")
    out = {}
    try:
        for r in b["rows"]:
            t, a = float(r[jt]), float(r[ja])
            lo, hi = out.get(t, (a, a))
            out[t] = (min(lo, a), max(hi, a))
    except ValueError:
        return None
    return out
