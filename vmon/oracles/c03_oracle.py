"""Independent reference code for C03 (RELION <-> cryoCAT conversion).  No cryoCAT code, no scipy.

* `tokenize_star`  : small STAR tokenizer (lines, `data_*` blocks, `loop_`, `_label #n`, whitespace-separated tokens)
* `write_relion_star`, `write_stopgap_star` : plain string formatting writers (the "independent RELION writer")
* `check_export`, `check_import`, `check_roundtrip` : the clauses of the property as predicates over plain arrays,
  rotations from the hand-written matrices in vmon.oracles.so3:
      particle   R = Rz(psi) Rx(theta) Rz(phi)          (zxz, extrinsic)
      RELION     M = Rz(rot) Ry(tilt) Rz(psi)           (ZYZ, intrinsic)
      property   M = R^-1 = R^T   in both directions
* documented name layouts (RelionMotl.parse_tomo_id / parse_subtomo_id docstrings):
      <= 3.1   rlnMicrographName  .../<tomo>_<px>.mrc         first number of the last '/'-entry
               rlnImageName       .../<tomo>_<sub>_<px>.mrc   second number of the last '/'-entry
      >= 4.0   rlnTomoName        TS_<tomo>                   first number of the last '/'-entry
               rlnTomoParticleName TS_<tomo>/<sub>            the last '/'-entry is the number
  a purely numeric name is the number itself.
"""
import re

import numpy as np

from vmon.oracles import so3

COORD = ["rlnCoordinateX", "rlnCoordinateY", "rlnCoordinateZ"]
ANGLES = ["rlnAngleRot", "rlnAngleTilt", "rlnAnglePsi"]
ORIGIN_PX = ["rlnOriginX", "rlnOriginY", "rlnOriginZ"]
ORIGIN_A = ["rlnOriginXAngst", "rlnOriginYAngst", "rlnOriginZAngst"]
VERSIONS = (3.0, 3.1, 4.0)

# rotation-matrix tolerances (entry-wise).  scipy's as_euler treats |sin(tilt)| <= 1e-7 rad as gimbal lock and then
# returns angles that reproduce the rotation only to ~2*tilt_dev (measured: 3.5e-9 at 1e-7 deg, 1.75e-7 at 5e-6 deg);
# DESIGN.md section 3 allows 1e-4 deg (1.7e-6 rad) for comparisons near 0/180, the 5e-7 used here is tighter.
TOL_ROT_MEM = 1e-9
TOL_ROT_POLE = 5e-7
TOL_ROT_FILE = 1e-6          # three angles rounded to 6 decimals: <= 3 * 8.7e-9, generous margin
POLE_SIN = 5e-7              # |sin(tilt)| below this = "at the pole" (1e-7 rad scipy threshold with margin)
TOL_POS_MEM = 1e-9
TOL_POS_FILE = 0.5e-6 + 1e-9  # STAR precision: 6 decimals


def version_names(version):
    """-> (tomo-name column, subtomo-name column, origin columns, particle block name, origin in Angstrom?)"""
    if version >= 4.0:
        return "rlnTomoName", "rlnTomoParticleName", ORIGIN_A, "data_particles", True
    if version >= 3.1:
        return "rlnMicrographName", "rlnImageName", ORIGIN_A, "data_particles", True
    return "rlnMicrographName", "rlnImageName", ORIGIN_PX, "data_", False


# ---- STAR text --------------------------------------------------------------------------------------
def tokenize_star(text):
    """-> list of blocks {"name", "labels", "numbers", "rows", "errors"}; rows are lists of string tokens."""
    blocks, cur, in_labels = [], None, False
    for ln, raw in enumerate(text.split("\n"), 1):
        line = raw.rstrip("\r").strip()
        if not line or line.startswith("#"):
            continue
        if line.startswith("data_"):
            cur = {"name": line.split()[0], "labels": [], "numbers": [], "rows": [], "errors": []}
            blocks.append(cur)
            in_labels = False
            continue
        if cur is None:
            blocks.append({"name": None, "labels": [], "numbers": [], "rows": [], "errors": ["line %d before any data_ block" % ln]})
            cur = blocks[-1]
        if line == "loop_":
            in_labels = True
            continue
        if line.startswith("_") and (in_labels or not cur["rows"]):
            toks = line.split()
            cur["labels"].append(toks[0][1:])
            cur["numbers"].append(toks[1] if len(toks) > 1 and toks[1].startswith("#") else None)
            if not in_labels and len(toks) > 1 and not toks[1].startswith("#"):      # `_key value` pair form
                cur.setdefault("pairs", {})[toks[0][1:]] = toks[1]
            continue
        in_labels = False
        toks = line.split()
        if len(toks) != len(cur["labels"]):
            cur["errors"].append("line %d has %d tokens for %d labels" % (ln, len(toks), len(cur["labels"])))
        cur["rows"].append(toks)
    return blocks


def block_by_name(blocks, name):
    hit = [b for b in blocks if b["name"] == name]
    return hit[0] if len(hit) == 1 else None


def block_columns(block):
    """label -> list of string tokens (rows with a wrong token count make the block unusable -> None)"""
    if block is None or block["errors"] or len(set(block["labels"])) != len(block["labels"]):
        return None
    return {lab: [r[k] for r in block["rows"]] for k, lab in enumerate(block["labels"])}


def to_float(tokens):
    try:
        return np.array([float(t) for t in tokens], dtype=float)
    except (TypeError, ValueError):
        return None


def _fmt_cell(v, width):
    s = v if isinstance(v, str) else repr(v)
    return s.rjust(width) if width else s


def write_relion_star(path, blocks, numbered=True, sep=" ", width=12, comment=None, trailing_blank=True):
    """blocks: list of (block name, [(label, [string tokens])...]).  Plain string formatting only."""
    out = []
    if comment:
        out.append("# " + comment)
    for name, cols in blocks:
        out += ["", name, "", "loop_"]
        for k, (lab, _) in enumerate(cols, 1):
            out.append("_%s #%d" % (lab, k) if numbered else "_%s" % lab)
        n = len(cols[0][1]) if cols else 0
        for r in range(n):
            out.append(sep.join(_fmt_cell(c[1][r], width) for c in cols))
        if trailing_blank:
            out.append("")
    with open(path, "w") as f:
        f.write("\n".join(out) + "\n")


def write_stopgap_star(path, cols):
    """cols: [(label, [tokens])] -> a `data_stopgap_motivelist` block (labels without numbers, blank line before rows)."""
    out = ["", "data_stopgap_motivelist", "", "loop_"] + ["_%s" % lab for lab, _ in cols] + [""]
    for r in range(len(cols[0][1])):
        out.append("\t".join(c[1][r] for c in cols))
    with open(path, "w") as f:
        f.write("\n".join(out) + "\n\n")


# ---- names --------------------------------------------------------------------------------------------
_NUM = re.compile(r"[+-]?\d+(\.0*)?$")


def _as_number(v):
    if isinstance(v, (bool, np.bool_)):
        return None
    if isinstance(v, (int, float, np.integer, np.floating)):
        return float(v)
    s = str(v)
    if _NUM.match(s):
        return float(s)
    return None


def tomo_number(v):
    """number of the tomogram in a tomogram name (documented layout) or None"""
    x = _as_number(v)
    if x is not None:
        return x
    nums = re.findall(r"\d+", str(v).rsplit("/", 1)[-1])
    return float(nums[0]) if nums else None


def tomo_number_from_subtomo_name(v, version):
    """documented fallback when there is no tomogram-name column"""
    s = str(v)
    part = s.rsplit("/", 1)[-1] if version < 4.0 else s.rsplit("/", 1)[0]
    nums = re.findall(r"\d+", part)
    return float(nums[0]) if nums else None


def subtomo_number(v, version):
    x = _as_number(v)
    if x is not None:
        return x
    last = str(v).rsplit("/", 1)[-1]
    if version >= 4.0:
        return float(last) if re.fullmatch(r"\d+", last) else None
    nums = re.findall(r"\d+", last)
    return float(nums[1]) if len(nums) >= 2 else None


def ref_format(fmt, letter, value):
    """documented rule of prepare_particles_data: the longest `$<letter>+` run is replaced by the zero-padded id,
    shorter runs stay.  Used only to decide whether a format follows the documented layout."""
    runs = re.findall(r"\$%s+" % letter, fmt)
    if not runs:
        return None
    L = max(len(r) for r in runs)
    pad = str(int(value)).zfill(L - 1)
    return re.sub(r"\$%s+" % letter, lambda m: pad if len(m.group()) == L else m.group(), fmt)


def formats_follow_layout(tomo_format, subtomo_format, version):
    """(tomo name parseable?, subtomo name parseable?) for the documented layouts, decided on the format strings
    with two probe ids, never on cryoCAT's output."""
    okt = oks = True
    for t, s in ((7, 13), (120, 4056)):
        if tomo_format != "":
            name = ref_format(tomo_format, "x", t)
            okt = okt and name is not None and tomo_number(name) == t
        if subtomo_format != "":
            name = ref_format(subtomo_format, "y", s)
            if name is not None and re.search(r"\$x+", name):
                name = ref_format(name, "x", t)
            oks = oks and name is not None and subtomo_number(name, version) == s
    return okt, oks


# ---- geometry -----------------------------------------------------------------------------------------
def motl_rot(phi, theta, psi):
    return so3.zxz(np.asarray(phi, float), np.asarray(theta, float), np.asarray(psi, float))


def relion_rot(rot, tilt, psi):
    return so3.relion_zyz(np.asarray(rot, float), np.asarray(tilt, float), np.asarray(psi, float))


def at_pole(tilt_deg):
    return np.abs(np.sin(np.radians(np.asarray(tilt_deg, float)))) < POLE_SIN


def rot_mismatch(A, B, pole, tol_far, tol_pole):
    """first row where |A-B| exceeds its tolerance -> witness dict or None"""
    err = np.abs(A - B).reshape(len(A), -1).max(axis=1)
    tol = np.where(pole, max(tol_far, tol_pole), tol_far)
    bad = np.nonzero(~(err <= tol))[0]
    if bad.size == 0:
        return None
    r = int(bad[np.argmax(err[bad])]) if np.all(np.isfinite(err[bad])) else int(bad[0])
    return {"row": r, "max_entry_error": float(err[r]), "tolerance": float(tol[r]), "rows_wrong": int(bad.size),
            "rotation_angle_between_deg": float(so3.angle_deg(A[r] @ B[r].T))}


def snap_motl(df):
    """what the property needs from a particle table, as plain arrays"""
    g = lambda c: np.asarray(df[c].to_numpy(), dtype=float).copy()
    return {"n": len(df), "pos": np.column_stack([g("x") + g("shift_x"), g("y") + g("shift_y"), g("z") + g("shift_z")]),
            "phi": g("phi"), "theta": g("theta"), "psi": g("psi"), "tomo": g("tomo_id"), "sub": g("subtomo_id"),
            "cls": g("class")}


def snap_take(snap, order):
    """the particles `order` (positions) of a snapshot, in that order"""
    order = np.asarray(order, dtype=int)
    return {k: (v[order] if isinstance(v, np.ndarray) else len(order)) for k, v in snap.items()}


def _vec_mismatch(clause, got, exp, tol_abs, tol_rel=1e-12, labels=None):
    got, exp = np.asarray(got, float), np.asarray(exp, float)
    if got.shape != exp.shape:
        return {"clause": clause, "got_shape": list(got.shape), "expected_shape": list(exp.shape)}
    bad = ~(np.abs(got - exp) <= tol_abs + tol_rel * np.abs(exp))
    if not bad.any():
        return None
    idx = np.argwhere(bad)[0]
    w = {"clause": clause, "row": int(idx[0]), "got": float(got[tuple(idx)]), "expected": float(exp[tuple(idx)]),
         "cells_wrong": int(bad.sum())}
    if labels is not None and len(idx) > 1:
        w["column"] = labels[int(idx[1])]
    return w


def _need(rel, labels, clause):
    miss = [l for l in labels if l not in rel or rel[l] is None]
    return {"clause": clause, "missing_or_non_numeric_columns": miss} if miss else None


def check_export(snap, rel, version, tol_pos, tol_rot, names=(True, True)):
    """Clauses of the export direction.  snap = snap_motl(table before the call); rel = label -> float array
    (numeric labels) / list (names).  -> witness of the first broken clause, or None."""
    tomo_col, sub_col, origin, _, _ = version_names(version)
    n = snap["n"]
    w = _need(rel, COORD + ANGLES + origin + ["rlnClassNumber", "rlnRandomSubset", tomo_col, sub_col], "columns present")
    if w:
        return w
    for l in COORD + ANGLES + origin + ["rlnClassNumber", "rlnRandomSubset"]:
        if len(rel[l]) != n:
            return {"clause": "one row per particle", "column": l, "rows": len(rel[l]), "particles": n}
    w = _vec_mismatch("rlnCoordinate = x + shift", np.column_stack([rel[l] for l in COORD]), snap["pos"], tol_pos, labels=COORD)
    if w:
        return w
    w = _vec_mismatch("origin shifts are zero", np.column_stack([rel[l] for l in origin]), np.zeros((n, 3)), 0.0, 0.0, labels=origin)
    if w:
        return w
    M = relion_rot(rel["rlnAngleRot"], rel["rlnAngleTilt"], rel["rlnAnglePsi"])
    Rt = np.transpose(motl_rot(snap["phi"], snap["theta"], snap["psi"]), (0, 2, 1))
    w = rot_mismatch(M, Rt, at_pole(snap["theta"]), tol_rot, TOL_ROT_POLE)
    if w:
        r = w["row"]
        w.update({"clause": "Rz(rot)Ry(tilt)Rz(psi) = inverse of zxz rotation", "zxz_phi_theta_psi": [snap["phi"][r], snap["theta"][r], snap["psi"][r]],
                  "relion_rot_tilt_psi": [float(rel[a][r]) for a in ANGLES]})
        return w
    w = _vec_mismatch("rlnClassNumber = class", rel["rlnClassNumber"], snap["cls"], 0.0, 0.0)
    if w:
        return w
    exp_half = np.where(np.mod(snap["sub"], 2) == 1, 1.0, 2.0)
    w = _vec_mismatch("rlnRandomSubset 1/2 = odd/even subtomogram number", rel["rlnRandomSubset"], exp_half, 0.0, 0.0)
    if w:
        w["subtomo_id"] = float(snap["sub"][w["row"]])
        return w
    if names[0]:
        got = [tomo_number(v) for v in rel[tomo_col]]
        for r in range(n):
            if got[r] is None or got[r] != snap["tomo"][r]:
                return {"clause": "tomogram number survives in " + tomo_col, "row": r, "name": str(rel[tomo_col][r]),
                        "parsed": got[r], "tomo_id": float(snap["tomo"][r])}
    if names[1]:
        got = [subtomo_number(v, version) for v in rel[sub_col]]
        for r in range(n):
            if got[r] is None or got[r] != snap["sub"][r]:
                return {"clause": "subtomogram number survives in " + sub_col, "row": r, "name": str(rel[sub_col][r]),
                        "parsed": got[r], "subtomo_id": float(snap["sub"][r])}
    return None


def check_import(df, rel, version, pixel_size, tol_pos=TOL_POS_MEM, tol_rot=TOL_ROT_MEM):
    """Clauses of the import direction.  df = resulting particle table; rel = the RELION columns that were given
    (float arrays / name lists; absent columns are simply not in the dict).
    -> (witness or None, half-set info): info = None | {"single": value, "ok": bool, ...} when rlnRandomSubset holds
    one distinct value (N = 1, one-half files): the parity clause is judged like any other, info lets the caller
    count that such inputs were evaluated."""
    tomo_col, sub_col, origin, _, angst = version_names(version)
    n = len(rel[COORD[0]])
    g = lambda c: np.asarray(df[c].to_numpy(), dtype=float)
    if len(df) != n:
        return {"clause": "one particle per row", "particles": len(df), "rows": n}, None
    w = _vec_mismatch("x,y,z = rlnCoordinate", np.column_stack([g("x"), g("y"), g("z")]),
                      np.column_stack([rel[l] for l in COORD]), tol_pos, labels=["x", "y", "z"])
    if w:
        return w, None
    if all(l in rel for l in origin) and (pixel_size is not None or not angst):
        o = np.column_stack([rel[l] for l in origin])
        exp = -o / np.asarray(pixel_size, float).reshape(-1, 1) if angst else -o
        w = _vec_mismatch("shift = -origin" + (" / pixel size" if angst else ""), np.column_stack([g("shift_x"), g("shift_y"), g("shift_z")]),
                          exp, tol_pos, 1e-9, labels=["shift_x", "shift_y", "shift_z"])
        if w:
            w.update({"origin": float(o[w["row"], ["shift_x", "shift_y", "shift_z"].index(w.get("column", "shift_x"))]),
                      "pixel_size": np.asarray(pixel_size, float).ravel()[:1].tolist() if pixel_size is not None else None, "version": version})
            return w, None
    if all(l in rel for l in ANGLES):
        R = motl_rot(g("phi"), g("theta"), g("psi"))
        Mt = np.transpose(relion_rot(rel["rlnAngleRot"], rel["rlnAngleTilt"], rel["rlnAnglePsi"]), (0, 2, 1))
        w = rot_mismatch(R, Mt, at_pole(rel["rlnAngleTilt"]), tol_rot, TOL_ROT_POLE)
        if w:
            r = w["row"]
            w.update({"clause": "zxz rotation = inverse of Rz(rot)Ry(tilt)Rz(psi)", "relion_rot_tilt_psi": [float(rel[a][r]) for a in ANGLES],
                      "zxz_phi_theta_psi": [float(g("phi")[r]), float(g("theta")[r]), float(g("psi")[r])]})
            return w, None
    exp_tomo = None
    if tomo_col in rel:
        exp_tomo = [tomo_number(v) for v in rel[tomo_col]]
    elif sub_col in rel and not all(_as_number(v) is not None for v in rel[sub_col]):
        exp_tomo = [tomo_number_from_subtomo_name(v, version) for v in rel[sub_col]]
    if exp_tomo is not None and all(v is not None for v in exp_tomo):
        w = _vec_mismatch("tomo_id = number in the tomogram name", g("tomo_id"), exp_tomo, 0.0, 0.0)
        if w:
            return w, None
    if "rlnClassNumber" in rel:
        w = _vec_mismatch("class = rlnClassNumber", g("class"), rel["rlnClassNumber"], 0.0, 0.0)
        if w:
            return w, None
    info = None
    if sub_col in rel:
        exp_sub = [subtomo_number(v, version) for v in rel[sub_col]]
        if all(v is not None for v in exp_sub):
            w = _vec_mismatch("geom3 = subtomogram number in the name", g("geom3"), exp_sub, 0.0, 0.0)
            if w:
                w["name"] = str(rel[sub_col][w["row"]])
                return w, None
        ids = g("subtomo_id")
        if len(np.unique(ids)) != n or not np.all(np.isfinite(ids)):
            u, c = np.unique(ids, return_counts=True)
            return {"clause": "subtomo_id unique", "repeated": u[c > 1][:5].tolist(), "particles": n}, None
        if "rlnRandomSubset" in rel:
            hs = np.asarray(rel["rlnRandomSubset"], float)
            vals = set(np.unique(hs).tolist())
            if vals <= {1.0, 2.0}:
                exp_par = np.where(hs == 1.0, 1.0, 0.0)
                w = _vec_mismatch("subtomo_id odd/even = rlnRandomSubset 1/2", np.mod(ids, 2), exp_par, 0.0, 0.0)
                if w:
                    w.update({"subtomo_id": float(ids[w["row"]]), "rlnRandomSubset": float(hs[w["row"]])})
                if len(vals) == 1:
                    info = {"single": float(hs[0]), "ok": w is None, "witness": w, "particles": n}
                if w:
                    return w, info
    return None, info


def check_roundtrip(snap, df, tol_pos, tol_rot):
    """export -> import returned table `df` against the original particles `snap` (row i <-> row i)."""
    g = lambda c: np.asarray(df[c].to_numpy(), dtype=float)
    if len(df) != snap["n"]:
        return {"clause": "same number of particles", "got": len(df), "expected": snap["n"]}
    pos = np.column_stack([g("x") + g("shift_x"), g("y") + g("shift_y"), g("z") + g("shift_z")])
    w = _vec_mismatch("particle returns to the same position", pos, snap["pos"], tol_pos, labels=["x", "y", "z"])
    if w:
        return w
    w = rot_mismatch(motl_rot(g("phi"), g("theta"), g("psi")), motl_rot(snap["phi"], snap["theta"], snap["psi"]),
                     at_pole(snap["theta"]), tol_rot, 2 * TOL_ROT_POLE)
    if w:
        w["clause"] = "particle returns to the same orientation"
        return w
    for clause, col, key in (("tomogram number survives", "tomo_id", "tomo"), ("class survives", "class", "cls"),
                             ("subtomogram number survives in geom3", "geom3", "sub")):
        w = _vec_mismatch(clause, g(col), snap[key], 0.0, 0.0)
        if w:
            return w
    ids = g("subtomo_id")
    if len(np.unique(ids)) != len(ids):
        return {"clause": "subtomo_id unique after the round trip"}
    w = _vec_mismatch("half-set (parity of the subtomogram number) survives", np.mod(ids, 2), np.mod(snap["sub"], 2), 0.0, 0.0)
    if w:
        w.update({"subtomo_id_before": float(snap["sub"][w["row"]]), "subtomo_id_after": float(ids[w["row"]])})
    return w
