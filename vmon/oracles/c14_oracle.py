"""Independent reference code for C14 (map rotation / placement / windowing / symmetrisation).

Nothing here calls cryoCAT or scipy.ndimage.  Rotations are the hand-written matrices of vmon.oracles.so3
(R = Rz(psi) Rx(theta) Rz(phi) for zxz angles phi, theta, psi); voxel permutations and windows are brute-force
integer index arithmetic; smooth test maps are sums of isotropic Gaussians whose rotated image is known in
closed form (an isotropic Gaussian centred at offset m, rotated actively by R, is the same Gaussian centred at R m).

Box centre of a map of shape S: c = S // 2 (per axis).  Offsets are measured from c.
"""
import math

import numpy as np

from vmon.oracles import so3


# ---- small helpers ---------------------------------------------------------------------------------
def centre(shape):
    return np.asarray(shape, dtype=int) // 2


def as_cube_rotation(R, tol=1e-9):
    """-> integer 3x3 matrix if R is (within tol) one of the 24 proper cube rotations, else None"""
    R = np.asarray(R, dtype=float)
    if R.shape != (3, 3) or not np.all(np.isfinite(R)):
        return None
    M = np.rint(R)
    if np.abs(R - M).max() > tol:
        return None
    M = M.astype(int)
    if not (np.array_equal(np.abs(M).sum(axis=0), [1, 1, 1]) and np.array_equal(np.abs(M).sum(axis=1), [1, 1, 1])):
        return None
    if int(round(np.linalg.det(M))) != 1:
        return None
    return M


def grid_index(shape):
    """(nvox,3) integer indices of all voxels of a box, C order"""
    return np.stack(np.meshgrid(*[np.arange(n) for n in shape], indexing="ij"), -1).reshape(-1, 3)


def permuted(vol, M, fill=0.0):
    """Active rotation of a box by the cube rotation M about c = shape//2, by index arithmetic only:
    result[c + M v] = vol[c + v]; voxels of the result whose pre-image lies outside the box get `fill`.
    Returns (result, src_inside mask (flat), src index array (nvox,3))."""
    shape = vol.shape
    c = centre(shape)
    tgt = grid_index(shape)
    src = c + (tgt - c) @ M            # row form of M^T (tgt - c)   [(M^T u)_k = sum_j M[j,k] u_j]
    inside = np.all((src >= 0) & (src < np.asarray(shape)), axis=1)
    res = np.full(shape, fill, dtype=float)
    flat = res.reshape(-1)
    flat[inside] = np.asarray(vol, dtype=float)[tuple(src[inside].T)]
    return res, inside, src


def judge_cube_rotation(vol, out, M, rel_tol=1e-12):
    """Property clause: out[c + M v] = vol[c + v] for every voxel c+v at least one voxel away from every face
    (and whose image lies in the box).  -> (n_voxels_judged, witness or None)"""
    shape = np.asarray(vol.shape)
    if out is None or tuple(np.shape(out)) != tuple(vol.shape):
        return 0, {"what": "shape of the rotated map", "got": list(np.shape(out)) if out is not None else None, "expected": list(vol.shape)}
    exp, inside, src = permuted(vol, M)
    interior = inside & np.all((src >= 1) & (src <= shape - 2), axis=1)
    n = int(interior.sum())
    if n == 0:
        return 0, None
    scale = max(1.0, float(np.abs(np.asarray(vol, dtype=float)).max()))
    d = np.abs(np.asarray(out, dtype=float).reshape(-1)[interior] - exp.reshape(-1)[interior])
    bad = ~(d <= rel_tol * scale)
    if not bad.any():
        return n, None
    k = int(np.argmax(np.where(np.isfinite(d), d, np.inf)))
    tgt = grid_index(vol.shape)[interior][k]
    s = src[interior][k]
    return n, {"what": "out[c + R v] != in[c + v]", "R": M.tolist(), "box": list(vol.shape), "centre": centre(vol.shape).tolist(),
               "source_voxel": s.tolist(), "target_voxel": tgt.tolist(), "in_value": float(np.asarray(vol, dtype=float)[tuple(s)]),
               "out_value": float(np.asarray(out, dtype=float)[tuple(tgt)]), "n_wrong": int(bad.sum()), "n_judged": n}


# ---- smooth band-limited test maps -----------------------------------------------------------------
class Blob:
    """sum_k a_k exp(-|v - m_k|^2 / (2 s_k^2)), v = offset from the box centre"""

    def __init__(self, means, sigmas, amps):
        self.m = np.asarray(means, dtype=float).reshape(-1, 3)
        self.s = np.asarray(sigmas, dtype=float).reshape(-1)
        self.a = np.asarray(amps, dtype=float).reshape(-1)

    def render(self, shape, R=None, offsets=None):
        """values on the voxel grid of a box of `shape` (offsets from shape//2), after active rotation by R"""
        c = centre(shape)
        ax = [np.arange(n, dtype=float) - cc for n, cc in zip(shape, c)]
        out = np.zeros(tuple(shape))
        m = self.m if R is None else self.m @ np.asarray(R, dtype=float).T
        for mk, sk, ak in zip(m, self.s, self.a):
            ex = np.exp(-(ax[0] - mk[0]) ** 2 / (2 * sk * sk))
            ey = np.exp(-(ax[1] - mk[1]) ** 2 / (2 * sk * sk))
            ez = np.exp(-(ax[2] - mk[2]) ** 2 / (2 * sk * sk))
            out += ak * ex[:, None, None] * ey[None, :, None] * ez[None, None, :]
        return out

    def summary(self):
        return {"k": int(len(self.a)), "m0": np.round(self.m[0], 3).tolist(), "s0": round(float(self.s[0]), 3)}


def random_blob(rng, shape, kmin=2, kmax=5, smin=2.0, smax=2.8, reach=4.0, cyl=False):
    """Gaussians whose `reach`-sigma balls stay inside the sphere (cyl: z-cylinder) inscribed in the box about c, so
    that every rotation about c (about z) keeps the density inside the box; first blob pushed off-centre."""
    shape = np.asarray(shape)
    c = centre(shape)
    room = np.minimum(c, shape - 1 - c).astype(float)
    K = int(rng.integers(kmin, kmax + 1))
    means, sig, amp = [], [], []
    for k in range(K):
        s = float(rng.uniform(smin, smax))
        if cyl:
            rxy = max(min(room[0], room[1]) - reach * s - 1.0, 0.0)
            rz = max(room[2] - reach * s - 1.0, 0.0)
            ang = rng.uniform(0, 2 * np.pi)
            r = rxy * (1.0 if k == 0 else math.sqrt(rng.uniform(0, 1)))
            m = np.array([r * np.cos(ang), r * np.sin(ang), rng.uniform(-rz, rz)])
        else:
            rmax = max(room.min() - reach * s - 1.0, 0.0)
            d = rng.normal(size=3)
            d /= np.linalg.norm(d)
            m = d * rmax * (1.0 if k == 0 else rng.uniform(0, 1) ** (1 / 3))
        means.append(m)
        sig.append(s)
        amp.append(float(rng.uniform(0.5, 1.0)))
    return Blob(means, sig, amp)


def centroid_offset(vol):
    """intensity-weighted centroid of a map, as offset from the box centre"""
    vol = np.asarray(vol, dtype=float)
    tot = vol.sum()
    res = []
    for ax in range(3):
        other = tuple(a for a in range(3) if a != ax)
        res.append(float((vol.sum(axis=other) * np.arange(vol.shape[ax])).sum() / tot))
    return np.array(res) - centre(vol.shape)


# ---- windows ---------------------------------------------------------------------------------------
def window_start(coord, sub_shape):
    """first volume index of the window of shape N centred at c: floor(c - N/2), per axis"""
    coord = np.asarray(coord, dtype=float).reshape(3)
    return np.array([math.floor(float(coord[k]) - float(sub_shape[k]) / 2.0) for k in range(3)], dtype=int)


def mean_of(volume):
    v = np.asarray(volume, dtype=float).reshape(-1)
    return math.fsum(v.tolist()) / v.size


def expected_window(volume, coord, sub_shape):
    """requested window copied voxel by voxel; out-of-volume voxels = volume mean"""
    sub_shape = [int(s) for s in sub_shape]
    st = window_start(coord, sub_shape)
    out = np.full(sub_shape, mean_of(volume), dtype=float)
    idx = [st[k] + np.arange(sub_shape[k]) for k in range(3)]
    ok = [(idx[k] >= 0) & (idx[k] < volume.shape[k]) for k in range(3)]
    if all(o.any() for o in ok):
        out[np.ix_(*ok)] = np.asarray(volume, dtype=float)[np.ix_(*[idx[k][ok[k]] for k in range(3)])]
    n_inside = int(np.prod([o.sum() for o in ok]))
    return out, st, n_inside


def judge_indices(coord, vol_shape, sub_shape, res):
    """clause for get_start_end_indices: per axis the slices vol[vs:ve], sub[ss:se] have the length of
    [start, start+N) n [0, V) and, when non-empty, vs = max(start, 0), ss = vs - start.  -> witness or None"""
    try:
        vs, ve, ss, se = [np.asarray(r).astype(int).reshape(3) for r in res]
    except Exception:
        return {"what": "get_start_end_indices did not return four index triples"}
    st = window_start(coord, sub_shape)
    for k in range(3):
        N, V = int(sub_shape[k]), int(vol_shape[k])
        lo, hi = max(st[k], 0), min(st[k] + N, V)
        L = max(hi - lo, 0)
        lv, ls = max(ve[k] - vs[k], 0), max(se[k] - ss[k], 0)
        good = lv == L and ls == L and min(vs[k], ve[k], ss[k], se[k]) >= 0 and ve[k] <= V and se[k] <= N
        if good and L > 0:
            good = vs[k] == lo and ss[k] == lo - st[k]
        if not good:
            return {"what": "window indices", "axis": k, "coord": float(np.asarray(coord, dtype=float)[k]), "N": N, "V": V,
                    "expected_start": int(st[k]), "expected_volume_slice": [int(lo), int(hi)] if L else "empty",
                    "got_volume_slice": [int(vs[k]), int(ve[k])], "got_sub_slice": [int(ss[k]), int(se[k])]}
    return None


# ---- placement -------------------------------------------------------------------------------------
def stamp(container, mask, start, colour):
    """container[start + j] = colour for every j with mask[j], clipped to the container"""
    idx = np.argwhere(mask) + np.asarray(start, dtype=int)
    ok = np.all((idx >= 0) & (idx < np.asarray(container.shape)), axis=1)
    idx = idx[ok]
    container[tuple(idx.T)] = colour
    return int(ok.sum())


def expected_placement_cube(templates, Ms, positions, colours, container):
    """cube-rotation poses: permuted binary template stamped at floor(p - 1 - N/2) + j, in list order"""
    out = np.array(container, dtype=float, copy=True)
    n_st = 0
    for T, M, p, col in zip(templates, Ms, positions, colours):
        rot, _, _ = permuted(T, M)
        st = window_start(np.asarray(p, dtype=float) - 1.0, T.shape)
        n_st += stamp(out, rot > 0.5, st, float(col))
    return out, n_st


def expected_placement_smooth(blobs, shapes, Rs, positions, colours, container, level, tol):
    """random poses, smooth templates: voxels where the analytically rotated template exceeds level+tol must carry
    the colour, voxels below level-tol must keep what was there; the band in between is undetermined.
    -> (expected, undetermined mask, per-particle dict(start, definite voxel count, band voxel count))"""
    out = np.array(container, dtype=float, copy=True)
    und = np.zeros(out.shape, dtype=bool)
    info = []
    for B, shp, R, p, col in zip(blobs, shapes, Rs, positions, colours):
        f = B.render(shp, R)
        st = window_start(np.asarray(p, dtype=float) - 1.0, shp)
        definite = f > level + tol
        band = (~definite) & (f >= level - tol)
        stamp(und, band, st, True)
        n = stamp(out, definite, st, float(col))
        stamp(und, definite, st, False)
        info.append({"start": st, "definite": int(definite.sum()), "definite_in_volume": n, "band": int(band.sum())})
    return out, und, info


# ---- symmetrisation --------------------------------------------------------------------------------
def judge_exact_invariance(sym, n, rel_tol=1e-12):
    """n in {2,4}: sym[c + Rz(360/n) u] = sym[c + u] on all voxels whose whole orbit lies at least one voxel away
    from every face.  -> (n voxels judged, witness or None)"""
    M = as_cube_rotation(so3.Rz(360.0 / n))
    shape = np.asarray(sym.shape)
    c = centre(shape)
    idx = grid_index(sym.shape)
    ok = np.ones(len(idx), dtype=bool)
    cur = idx
    for _ in range(n):
        ok &= np.all((cur >= 1) & (cur <= shape - 2), axis=1)
        cur = c + (cur - c) @ M.T
    if not ok.any():
        return 0, None
    a = idx[ok]
    b = c + (a - c) @ M.T
    va, vb = sym[tuple(a.T)], sym[tuple(b.T)]
    scale = max(1.0, float(np.abs(sym).max()))
    d = np.abs(va - vb)
    bad = ~(d <= rel_tol * scale)
    if not bad.any():
        return int(ok.sum()), None
    k = int(np.argmax(np.where(np.isfinite(d), d, np.inf)))
    return int(ok.sum()), {"what": "symmetrised map not invariant under the %g degree rotation about z" % (360.0 / n), "voxel": a[k].tolist(),
                           "image": b[k].tolist(), "values": [float(va[k]), float(vb[k])], "n_wrong": int(bad.sum())}
