"""Hand-written SO(3) reference (no scipy Euler code).  Conventions: DESIGN.md section 3.

Particle orientation, zxz Euler (phi, theta, psi), extrinsic, active on column vectors:
    R = Rz(psi) . Rx(theta) . Rz(phi)
RELION (rot, tilt, psi), intrinsic ZYZ:  M = Rz(rot) . Ry(tilt) . Rz(psi)
"""
import numpy as np


def _cs(a):
    a = np.radians(np.asarray(a, dtype=float))
    return np.cos(a), np.sin(a)


def Rz(a):
    c, s = _cs(a)
    R = np.zeros(np.shape(c) + (3, 3))
    R[..., 0, 0] = c; R[..., 0, 1] = -s; R[..., 1, 0] = s; R[..., 1, 1] = c; R[..., 2, 2] = 1
    return R


def Rx(a):
    c, s = _cs(a)
    R = np.zeros(np.shape(c) + (3, 3))
    R[..., 0, 0] = 1; R[..., 1, 1] = c; R[..., 1, 2] = -s; R[..., 2, 1] = s; R[..., 2, 2] = c
    return R


def Ry(a):
    c, s = _cs(a)
    R = np.zeros(np.shape(c) + (3, 3))
    R[..., 0, 0] = c; R[..., 0, 2] = s; R[..., 1, 1] = 1; R[..., 2, 0] = -s; R[..., 2, 2] = c
    return R


def zxz(phi, theta, psi):
    return Rz(psi) @ Rx(theta) @ Rz(phi)


def zxz_rows(angles):
    """angles: (n,3) rows phi,theta,psi -> (n,3,3)"""
    a = np.atleast_2d(np.asarray(angles, dtype=float))
    return zxz(a[:, 0], a[:, 1], a[:, 2])


def relion_zyz(rot, tilt, psi):
    return Rz(rot) @ Ry(tilt) @ Rz(psi)


def angle_deg(R):
    """rotation angle of R (..,3,3) in degrees, well conditioned at 0 and 180."""
    R = np.asarray(R)
    s = 0.5 * np.sqrt((R[..., 2, 1] - R[..., 1, 2]) ** 2 + (R[..., 0, 2] - R[..., 2, 0]) ** 2 + (R[..., 1, 0] - R[..., 0, 1]) ** 2)
    c = 0.5 * (R[..., 0, 0] + R[..., 1, 1] + R[..., 2, 2] - 1.0)
    return np.degrees(np.arctan2(s, c))


def angle_between(u, v):
    """angle between vectors (..,3) in degrees via atan2(|u x v|, u.v)."""
    cr = np.linalg.norm(np.cross(u, v), axis=-1)
    return np.degrees(np.arctan2(cr, np.sum(u * v, axis=-1)))


def to_zxz(R):
    """Inverse of zxz(): (..,3,3) -> phi, theta, psi in degrees (theta in [0,180]); gimbal lock: phi = 0."""
    R = np.asarray(R, dtype=float)
    st = np.sqrt(R[..., 0, 2] ** 2 + R[..., 1, 2] ** 2)
    theta = np.arctan2(st, R[..., 2, 2])
    psi = np.arctan2(R[..., 0, 2], -R[..., 1, 2])
    phi = np.arctan2(R[..., 2, 0], R[..., 2, 1])
    lock = st < 1e-12
    # theta = 0: R = Rz(psi+phi); theta = 180: R = Rz(psi) Rx(180) Rz(phi) = Rz(psi - phi) Rx(180)
    psi_l = np.arctan2(R[..., 1, 0], R[..., 0, 0])
    psi = np.where(lock, psi_l, psi)
    phi = np.where(lock, 0.0, phi)
    return np.degrees(phi), np.degrees(theta), np.degrees(psi)


def random_rotations(rng, n):
    """Haar-distributed rotation matrices from normalised Gaussian quaternions (hand-written q->R)."""
    q = rng.normal(size=(n, 4))
    q /= np.linalg.norm(q, axis=1, keepdims=True)
    return quat_to_matrix(q)


def quat_to_matrix(q):
    """q rows (x, y, z, w), unit."""
    x, y, z, w = q[:, 0], q[:, 1], q[:, 2], q[:, 3]
    R = np.empty((len(q), 3, 3))
    R[:, 0, 0] = 1 - 2 * (y * y + z * z); R[:, 0, 1] = 2 * (x * y - z * w); R[:, 0, 2] = 2 * (x * z + y * w)
    R[:, 1, 0] = 2 * (x * y + z * w); R[:, 1, 1] = 1 - 2 * (x * x + z * z); R[:, 1, 2] = 2 * (y * z - x * w)
    R[:, 2, 0] = 2 * (x * z - y * w); R[:, 2, 1] = 2 * (y * z + x * w); R[:, 2, 2] = 1 - 2 * (x * x + y * y)
    return R


def axis_angle(axis, deg):
    """Rodrigues formula; axis (3,), deg scalar."""
    a = np.asarray(axis, dtype=float)
    a = a / np.linalg.norm(a)
    K = np.array([[0, -a[2], a[1]], [a[2], 0, -a[0]], [-a[1], a[0], 0]])
    t = np.radians(deg)
    return np.eye(3) + np.sin(t) * K + (1 - np.cos(t)) * (K @ K)


def cube_rotations():
    """the 24 proper rotations of the cube as integer matrices"""
    import itertools
    res = []
    for perm in itertools.permutations(range(3)):
        for signs in itertools.product([1, -1], repeat=3):
            M = np.zeros((3, 3), dtype=int)
            for i in range(3):
                M[i, perm[i]] = signs[i]
            if round(np.linalg.det(M)) == 1:
                res.append(M)
    return res


def random_euler(rng, n, kind="random"):
    """(n,3) rows phi,theta,psi for a named orientation class."""
    a = np.column_stack([rng.uniform(-180, 180, n), rng.uniform(0, 180, n), rng.uniform(-180, 180, n)])
    if kind == "gimbal":
        a[:, 1] = rng.choice([0.0, 180.0], n)
    elif kind == "wide":
        a = rng.uniform(-720, 720, (n, 3))
    elif kind == "near_gimbal":
        a[:, 1] = rng.choice([0.0, 180.0], n) + rng.choice([-1, 1], n) * 1e-7
    elif kind == "lattice":
        a = rng.integers(-8, 9, (n, 3)) * 45.0
    elif kind == "mixed":
        k = rng.integers(0, 4, n)
        a[k == 1, 1] = rng.choice([0.0, 180.0], int((k == 1).sum()))
        w = rng.uniform(-720, 720, (n, 3))
        a[k == 2] = w[k == 2]
        l = rng.integers(-8, 9, (n, 3)) * 45.0
        a[k == 3] = l[k == 3]
    return a
