"""Independent reference code for C12 (Fourier filters are the documented radial gains).

Nothing here imports cryoCAT.  The gain of an observed filter execution is read off the DFT,
G(k) = fftn(out)(k) / fftn(in)(k), and compared with the gain the property statement prescribes.

Frequency radius (binding definition used by every clause below): r(k) = sqrt(kx^2 + ky^2 + kz^2) where k_i is the
signed integer DFT index along axis i (k_i = fftfreq(N_i) * N_i, i.e. -N_i/2 .. ceil(N_i/2) - 1), "Fourier pixels of
the mask grid".  In a non-cubic box this is a ball in index space (an ellipsoid in cycles/voxel), which is what the
code documents ("number of pixels/voxels in Fourier space") and what the unchanged code was measured to do.
"""
import fractions
import itertools
import math

import numpy as np

# mass of an isotropic 3-D unit Gaussian outside radius 4 (= 1.1339e-3); a Gaussian edge of width sigma cannot be
# closer to its plateau than this at distance 4*sigma from the edge.  1.2e-3 allows for kernel renormalisation.
TAIL4 = math.erfc(4.0 / math.sqrt(2.0)) + math.sqrt(2.0 / math.pi) * 4.0 * math.exp(-8.0)
SOFT_TOL = 1.2e-3
SQRT3 = math.sqrt(3.0)

_KCACHE = {}
_RAYCACHE = {}

RAY_BASE = [(1, 0, 0), (1, 1, 0), (1, 1, 1), (1, -1, 0), (1, 1, -1), (2, 1, 0), (2, 1, 1)]


def kindex(shape):
    """(kx, ky, kz, k2): signed integer DFT indices (int64 grids, ij indexing) and their exact squared radius."""
    shape = tuple(int(n) for n in shape)
    if shape not in _KCACHE:
        axes = []
        for n in shape:
            j = np.arange(n, dtype=np.int64)
            axes.append(np.where(j < (n + 1) // 2, j, j - n))       # 0..ceil(n/2)-1, then -floor(n/2)..-1
        kx, ky, kz = np.meshgrid(*axes, indexing="ij")
        if len(_KCACHE) > 64:
            _KCACHE.clear()
        _KCACHE[shape] = (kx, ky, kz, kx * kx + ky * ky + kz * kz)
    return _KCACHE[shape]


def hard_lowpass_gain(shape, cut):
    """Statement: without a soft edge the gain is exactly 1 up to the cutoff radius and 0 beyond (integer arithmetic)."""
    k2 = kindex(shape)[3]
    return (k2 <= int(cut) * int(cut)).astype(np.float64)


def ray_directions():
    """The lattice directions of DESIGN 4/C12 with all axis permutations and signs, one per +-pair."""
    dirs = set()
    for b in RAY_BASE:
        for p in itertools.permutations(b):
            for s in itertools.product((1, -1), repeat=3):
                d = tuple(int(a * c) for a, c in zip(p, s))
                if d > tuple(-x for x in d):
                    dirs.add(d)
    return sorted(dirs)


def ray_pairs(shape):
    """Flat indices (a, b) of consecutive bins t*d, (t+1)*d along every lattice ray from the origin, as far as the
    ray stays inside the box's frequency range |k_i| <= N_i // 2 (an even axis' Nyquist bin is +-N_i/2)."""
    shape = tuple(int(n) for n in shape)
    if shape not in _RAYCACHE:
        a, b, meta = [], [], []
        for d in ray_directions():
            tmax = min((n // 2) // abs(c) for c, n in zip(d, shape) if c != 0)
            prev = 0
            for t in range(1, tmax + 1):
                idx = np.ravel_multi_index(tuple((t * c) % n for c, n in zip(d, shape)), shape)
                a.append(prev); b.append(int(idx)); meta.append((d, t))
                prev = int(idx)
        if len(_RAYCACHE) > 64:
            _RAYCACHE.clear()
        _RAYCACHE[shape] = (np.array(a, dtype=np.int64), np.array(b, dtype=np.int64), meta)
    return _RAYCACHE[shape]


def _exact(a, b, op):
    """the binary floating-point operation on two floats is exact"""
    fa, fb = float(a), float(b)
    return fractions.Fraction(fa * fb if op == "*" else fa / fb) == (a * b if op == "*" else a / b)


def round_half_exact(edge, pixel_size, resolution, margin=1e-12):
    """round(edge*pixel_size/resolution) in exact rational arithmetic on the given binary floats.
    Returns (pixels, None), or (None, reason) when the value cannot be decided independently of the rounding rule /
    the floating-point evaluation order:
      * an EXACT tie k + 1/2 with k ODD is decided: round-half-even and round-half-up both give k + 1 (required
        additionally: edge*pix, pix/res and edge/res are exact float operations, so every evaluation order of
        box*pixel_size/resolution yields exactly k + 0.5);
      * an exact tie with k EVEN (half-even: k, half-up: k + 1) stays undecided, and so does an inexact near-tie closer than
        1e-12 (relative) to k + 1/2: the two float roundings of box*pixel_size/resolution are worth ~2.3e-16 relative, so anything
        farther from the tie (the planted 1e-9 .. 5e-7) is decided whatever the evaluation order."""
    try:
        e, p, r = (fractions.Fraction(float(v)) for v in (edge, pixel_size, resolution))
    except (TypeError, ValueError, OverflowError):
        return None, "not finite numbers"
    if e <= 0 or p <= 0 or r <= 0:
        return None, "non-positive"
    q = e * p / r
    if q > 10 ** 7:
        return None, "huge"
    fl = q.numerator // q.denominator
    frac = q - fl
    half = fractions.Fraction(1, 2)
    if frac == half:
        if fl % 2 == 1 and _exact(e, p, "*") and _exact(p, r, "/") and _exact(e, r, "/"):
            return int(fl + 1), None
        return None, "tie with even floor (rounding rule dependent)" if fl % 2 == 0 else "tie, inexact float evaluation"
    if abs(frac - half) <= fractions.Fraction(margin) * max(1, fl):
        return None, "near-tie"
    return int(fl + (1 if frac > half else 0)), None


DYADIC_PIX = (0.25, 0.5, 0.75, 1.0, 1.25, 1.5, 1.75, 2.0, 2.5, 3.0, 3.5, 4.0, 5.0, 6.0, 7.0)
DYADIC_RES = (0.5, 1.0, 2.0, 4.0, 8.0, 16.0, 32.0, 64.0, 128.0)


def odd_floor_ties(n0):
    """all (pixel_size, resolution, pixels) with n0*pix/res == k + 1/2 exactly, k odd, 1 <= k+1 <= n0//2, drawn from
    exactly representable dyadic pixel sizes and power-of-two resolutions (every float operation exact)."""
    out = []
    for pix in DYADIC_PIX:
        for res in DYADIC_RES:
            q = fractions.Fraction(n0) * fractions.Fraction(pix) / fractions.Fraction(res)
            fl = q.numerator // q.denominator
            if q - fl == fractions.Fraction(1, 2) and fl % 2 == 1 and 1 <= fl + 1 <= n0 // 2:
                if round_half_exact(n0, pix, res)[0] == fl + 1:
                    out.append((pix, res, int(fl + 1)))
    return out


class Gain:
    """Gain of one observed execution, read off the DFT of input and output.

    eta bounds the relative (to max|F_in|) error of the observed spectra: 1e-12 for float64/integer maps,
    1e-6 for float32 maps (numpy evaluates their forward FFT in single precision).  A bin is *observable* when the
    resulting uncertainty of G there, tau(k) = 1e-9 + eta*max|F|/|F(k)|, is at most 1e-3."""

    def __init__(self, x, y):
        x = np.asarray(x)
        self.shape = x.shape
        self.eta = 1e-12 if x.dtype.itemsize >= 8 or x.dtype.kind in "iu" else 1e-6
        self.F = np.fft.fftn(np.asarray(x, dtype=np.float64))
        self.Fo = np.fft.fftn(np.asarray(y, dtype=np.float64))
        aF = np.abs(self.F)
        self.Fmax = float(aF.max())
        with np.errstate(divide="ignore", invalid="ignore"):
            self.tau = 1e-9 + self.eta * self.Fmax / aF
        self.obs = self.tau <= 1e-3
        self.all_obs = bool(self.obs.all())
        G = np.zeros(self.shape, dtype=np.complex128)
        np.divide(self.Fo, self.F, out=G, where=self.obs)
        self.G = G.real
        self.Gi = G.imag
        self.aF = aF

    def n_obs(self):
        return int(self.obs.sum())

    def where(self, bad):
        """witness for the worst offending bin of a boolean array"""
        kx, ky, kz, k2 = kindex(self.shape)
        idx = np.argwhere(bad)
        i = tuple(int(v) for v in idx[0])
        return {"k": [int(kx[i]), int(ky[i]), int(kz[i])], "k2": int(k2[i]), "gain": float(self.G[i]),
                "gain_imag": float(self.Gi[i]), "n_bad_bins": int(len(idx)), "n_observable_bins": self.n_obs()}

    def quiet_elsewhere(self):
        """gain <= 1 on the bins that carry (almost) no input: no output energy may appear there.  None if fine."""
        un = ~self.obs
        if not un.any():
            return None
        bad = un & (np.abs(self.Fo) > self.aF * (1 + 1e-9) + 10 * self.eta * self.Fmax)
        if bad.any():
            w = self.where(bad)
            i = tuple(int(v) for v in np.argwhere(bad)[0])
            w.update(clause="output energy at a frequency absent from the input", out_amp=float(abs(self.Fo[i])), in_amp=float(self.aF[i]),
                     in_max=self.Fmax)
            return w
        return None

    def real_and_range(self, lo=True, hi=True, extra_tol=0.0):
        bad = self.obs & (np.abs(self.Gi) > self.tau)
        if bad.any():
            return dict(self.where(bad), clause="gain not real")
        if lo:
            bad = self.obs & (self.G < -self.tau - extra_tol)
            if bad.any():
                return dict(self.where(bad), clause="gain < 0")
        if hi:
            bad = self.obs & (self.G > 1 + self.tau)
            if bad.any():
                return dict(self.where(bad), clause="gain > 1")
        return None

    def equals(self, expected, clause):
        bad = self.obs & ((np.abs(self.G - expected) > self.tau) | (np.abs(self.Gi) > self.tau))
        if bad.any():
            w = self.where(bad)
            i = tuple(int(v) for v in np.argwhere(bad)[0])
            return dict(w, clause=clause, expected_gain=float(expected[i]))
        return None


def soft_plateaus(g, cut, sigma, lowpass_like=True):
    """Soft-edge clauses on a Gain whose G should behave like a low-pass (pass 1-G for a high-pass):
    1 for r <= cut-4s-1 and 0 for r >= cut+4s+1 up to the Gaussian tail mass SOFT_TOL; to 1e-9 where even the
    corner of a per-axis kernel of half-width 4s+1 cannot reach the edge (r <= cut-sqrt3(4s+1), r >= cut+sqrt3(4s+1))."""
    k2 = kindex(g.shape)[3]
    G = g.G if lowpass_like else 1.0 - g.G
    m = 4.0 * float(sigma) + 1.0
    out = []
    for name, region, target, tol in (
            ("1 inside cutoff-4s-1", _le_r(k2, cut - m), 1.0, SOFT_TOL),
            ("0 outside cutoff+4s+1", _ge_r(k2, cut + m), 0.0, SOFT_TOL),
            ("exactly 1 inside cutoff-sqrt3(4s+1)", _le_r(k2, cut - SQRT3 * m), 1.0, 0.0),
            ("exactly 0 outside cutoff+sqrt3(4s+1)", _ge_r(k2, cut + SQRT3 * m), 0.0, 0.0)):
        reg = region & g.obs
        bad = reg & (np.abs(G - target) > tol + g.tau)
        if bad.any():
            w = g.where(bad)
            w.update(clause=name, lowpass_like_gain=float(G[tuple(int(v) for v in np.argwhere(bad)[0])]), cut=int(cut), sigma=float(sigma))
            return w, None
        out.append(int(reg.sum()))
    return None, {"n_plateau1": out[0], "n_plateau0": out[1]}


def _le_r(k2, rad):
    if rad < 0:
        return np.zeros(k2.shape, dtype=bool)
    return k2 <= rad * rad * (1 + 1e-12)


def _ge_r(k2, rad):
    if rad <= 0:
        return np.ones(k2.shape, dtype=bool)
    return k2 >= rad * rad * (1 - 1e-12)


def rays_nonincreasing(g, lowpass_like=True):
    """max increase of the gain between consecutive bins of the lattice rays (both bins observable)."""
    a, b, meta = ray_pairs(g.shape)
    G = (g.G if lowpass_like else 1.0 - g.G).ravel()
    ob = g.obs.ravel()
    tau = g.tau.ravel()
    use = ob[a] & ob[b]
    inc = G[b] - G[a] - tau[a] - tau[b]
    bad = use & (inc > 0)
    if bad.any():
        j = int(np.argmax(np.where(use, inc, -np.inf)))
        d, t = meta[j]
        return {"clause": "gain increases along a lattice ray from the origin", "direction": list(d), "step": int(t),
                "gain_before": float(G[a[j]]), "gain_after": float(G[b[j]]), "n_increasing_pairs": int(bad.sum())}, int(use.sum())
    return None, int(use.sum())


def symmetry(g, cut, sigma):
    """axis swaps between equal-sized axes; single-index sign flips when the blurred sphere stays inside the box
    (cut+4s+1 < min(N)/2).  Returns (witness|None, n_relations_judged)."""
    G, ob, tau = g.G, g.obs, g.tau
    n = 0
    for (i, j) in ((0, 1), (0, 2), (1, 2)):
        if g.shape[i] == g.shape[j]:
            n += 1
            Gs, os_, ts = np.swapaxes(G, i, j), np.swapaxes(ob, i, j), np.swapaxes(tau, i, j)
            bad = ob & os_ & (np.abs(G - Gs) > tau + ts)
            if bad.any():
                return dict(g.where(bad), clause="gain changes under swapping axes %d,%d of equal size" % (i, j)), n
    if cut + 4.0 * sigma + 1.0 < min(g.shape) / 2.0:
        for ax in range(3):
            n += 1
            flip = (-np.arange(g.shape[ax])) % g.shape[ax]
            Gs, os_, ts = np.take(G, flip, axis=ax), np.take(ob, flip, axis=ax), np.take(tau, flip, axis=ax)
            bad = ob & os_ & (np.abs(G - Gs) > tau + ts)
            if bad.any():
                return dict(g.where(bad), clause="gain changes under a sign flip of frequency index %d" % ax), n
    return None, n


# ---- test fields ---------------------------------------------------------------------------------
def plane_wave(shape, k, phase=0.0, amp=1.0):
    """cos(2 pi (kx x/Nx + ky y/Ny + kz z/Nz) + phase), integer k."""
    ax = [np.arange(n, dtype=np.float64) for n in shape]
    X, Y, Z = np.meshgrid(*ax, indexing="ij")
    # reduce the integer products modulo N before the division: exact arguments
    ph = (((int(k[0]) * X) % shape[0]) / shape[0] + ((int(k[1]) * Y) % shape[1]) / shape[1] + ((int(k[2]) * Z) % shape[2]) / shape[2])
    return amp * np.cos(2.0 * np.pi * ph + phase)


def whiten(x, rng):
    """a real field with the phases of x and Hermitian-symmetric amplitudes in [0.5, 2]: every DFT bin is non-zero
    and the spectrum is well conditioned."""
    F = np.fft.fftn(x)
    m = rng.uniform(0.5, 2.0, size=x.shape)
    mm = m[::-1, ::-1, ::-1]
    mm = np.roll(mm, (1, 1, 1), axis=(0, 1, 2))          # m(-k)
    m = 0.5 * (m + mm)
    a = np.abs(F)
    a[a == 0] = 1.0
    return np.real(np.fft.ifftn(F / a * m))
