"""Independent reference code for C19 (chain tracing): table readers and a validator of the property's clauses.

Nothing here calls cryoCAT.  Distances are plain numpy Euclidean norms between the exit site of one particle and the
entry site of another (site = x+shift_x, y+shift_y, z+shift_z of the respective list); EM files are parsed from bytes.
The validator does NOT predict which chains the tracer builds (the property does not say); it decides whether a returned
table is a partition of the input into simple, distance-respecting chains.
"""
import numpy as np
import pandas as pd

from vmon.oracles import files

CANON = ["score", "geom1", "geom2", "subtomo_id", "tomo_id", "object_id", "subtomo_mean", "x", "y", "z",
         "shift_x", "shift_y", "shift_z", "geom3", "geom4", "geom5", "phi", "psi", "theta", "class"]


def read_list(obj):
    """-> dict(sub, tomo, pos, n) of a particle list given as DataFrame / object with .df / EM file path, or None."""
    df = None
    if isinstance(obj, pd.DataFrame):
        df = obj
    elif hasattr(obj, "df") and isinstance(getattr(obj, "df"), pd.DataFrame):
        df = obj.df
    elif isinstance(obj, str):
        try:
            em = files.parse_em(obj)
        except OSError:
            return None
        if "error" in em or em["dims"][0] != 20 or em["dims"][2] != 1:
            return None
        a = np.asarray(em["data"][:, :, 0].T, dtype=np.float64)       # (N,20), canonical field order
        df = pd.DataFrame(a, columns=CANON)
    if df is None or sorted(map(str, df.columns)) != sorted(CANON):
        return None
    try:
        v = df[["subtomo_id", "tomo_id", "x", "y", "z", "shift_x", "shift_y", "shift_z"]].to_numpy(dtype=np.float64)
    except Exception:
        return None
    if not np.all(np.isfinite(v)):
        return None
    return {"sub": v[:, 0].copy(), "tomo": v[:, 1].copy(), "pos": v[:, 2:5] + v[:, 5:8], "n": int(len(v)),
            "index_unique": bool(df.index.is_unique) or isinstance(obj, (pd.DataFrame, str))}   # a DataFrame's labels are dropped on loading; a Motl object keeps them


def read_output(res):
    df = getattr(res, "df", None)
    if not isinstance(df, pd.DataFrame):
        return None
    need = ["subtomo_id", "tomo_id", "object_id", "geom2", "geom4"]
    if any(c not in df.columns for c in need):
        return None
    v = df[need].to_numpy(dtype=np.float64)
    return {"sub": v[:, 0], "tomo": v[:, 1], "obj": v[:, 2], "order": v[:, 3], "dist": v[:, 4], "n": int(len(v))}


def paired(E, X):
    """row k of the entry list and row k of the exit list are the same particle (same id, same tomogram), ids unique."""
    return (E is not None and X is not None and E["n"] == X["n"] and np.array_equal(E["sub"], X["sub"])
            and np.array_equal(E["tomo"], X["tomo"]) and len(np.unique(E["sub"])) == E["n"])


def link_matrix(E, X):
    """D[i, j] = |exit_i - entry_j| for particles of the same tomogram (i != j), else +inf."""
    d = np.sqrt(sq_matrix(E, X))
    return d


def sq_matrix(E, X):
    d2 = ((X["pos"][:, None, :] - E["pos"][None, :, :]) ** 2).sum(axis=2)
    same = E["tomo"][:, None] == E["tomo"][None, :]
    d2 = np.where(same, d2, np.inf)
    np.fill_diagonal(d2, np.inf)
    return d2


def _lattice_rows(P):
    """rows whose coordinates are multiples of 1/8 below 2**20: differences, squares and their sums are exact in float64."""
    return np.all(P * 8 == np.round(P * 8), axis=1) & np.all(np.abs(P) < 2.0 ** 20, axis=1)


def _lattice_value(b):
    return bool(b * 8 == round(b * 8) and abs(b) < 2.0 ** 20)


def exact_pairs(E, X, dmin, dmax):
    """pairs (exit i, entry j) whose squared distance and the squared bounds are exactly representable: ties with a bound are
    decided exactly there (d == min is NOT in (min, max], d == max is)."""
    if not (_lattice_value(dmin) and _lattice_value(dmax)):
        return np.zeros((E["n"], E["n"]), dtype=bool)
    return np.outer(_lattice_rows(X["pos"]), _lattice_rows(E["pos"]))


def candidates(E, X, dmin, dmax):
    """boolean matrix: exit i -> entry j is an admissible link, i.e. same tomogram, i != j, distance in (min, max]."""
    d2 = sq_matrix(E, X)
    ex = exact_pairs(E, X, dmin, dmax)
    d = np.sqrt(d2)
    with np.errstate(invalid="ignore"):
        return np.where(ex, (d2 > dmin * dmin) & (d2 <= dmax * dmax), (d > dmin) & (d <= dmax))


ROUNDOFF = 1e-13


def boundary_clear(E, X, dmin, dmax, eps=None):
    """eps=None (monitor): only candidate distances within float64 ROUND-OFF of a bound (|d - b| < 1e-13 * b, pair not on the exact lattice)
    put an input out of domain - there the KD-tree's squared-radius test and this oracle's sqrt may legitimately disagree; everything farther
    from a bound (1e-12 relative and more) is decided by comparing float64 distances.  d == 0 with min_distance == 0 is not a near-tie (0 is
    computed exactly by everybody).  eps=number (generators of classes that do not aim at the bounds): absolute band eps is avoided."""
    d = link_matrix(E, X)
    fin = np.isfinite(d)
    if eps is None:
        near = fin & ((np.abs(d - dmax) < ROUNDOFF * dmax) | (np.abs(d - dmin) < ROUNDOFF * dmin))
    else:
        near = fin & ((np.abs(d - dmax) <= eps) | ((np.abs(d - dmin) <= eps) & ~((d == 0) & (dmin == 0))))   # d == 0 == min is exact, not a near-tie
    return not bool((near & ~exact_pairs(E, X, dmin, dmax)).any())


def validate(E, X, out, dmin, dmax, tol=1e-9):
    """-> (witnesses {clause: witness or None}, stats).  Clauses: partition, tomogram, orders, link_range, link_recorded."""
    w = {"partition": None, "tomogram": None, "orders": None, "link_range": None, "link_recorded": None}
    stats = {"chains": 0, "links": 0, "longest": 0, "singletons": 0}
    # --- every input particle exactly once ---------------------------------------------------------
    a, b = np.sort(E["sub"]), np.sort(out["sub"])
    if a.shape != b.shape or not np.array_equal(a, b):
        ia, ca = np.unique(E["sub"], return_counts=True)
        ib, cb = np.unique(out["sub"], return_counts=True)
        cnt_in, cnt_out = dict(zip(ia.tolist(), ca.tolist())), dict(zip(ib.tolist(), cb.tolist()))
        missing = [k for k in cnt_in if k not in cnt_out][:8]
        dup = [k for k, c in cnt_out.items() if c > cnt_in.get(k, 0) and k in cnt_in][:8]
        alien = [k for k in cnt_out if k not in cnt_in][:8]
        w["partition"] = {"n_in": int(E["n"]), "n_out": int(out["n"]), "missing_ids": missing, "repeated_ids": dup,
                          "unknown_ids": alien}
    exact = exact_pairs(E, X, dmin, dmax)
    row_of = {s: k for k, s in enumerate(E["sub"].tolist())}
    src = np.array([row_of.get(s, -1) for s in out["sub"].tolist()], dtype=int)
    known = src >= 0
    # --- tomogram of each particle unchanged ----------------------------------------------------------
    bad = known & (out["tomo"] != E["tomo"][np.clip(src, 0, None)])
    if bad.any():
        k = int(np.argmax(bad))
        w["tomogram"] = {"subtomo_id": float(out["sub"][k]), "tomo_in": float(E["tomo"][src[k]]), "tomo_out": float(out["tomo"][k]),
                         "n_changed": int(bad.sum())}
    # --- chains: (tomogram, object number) -------------------------------------------------------------
    if not np.all(np.isfinite(out["obj"])) or not np.all(np.isfinite(out["order"])):
        w["orders"] = {"what": "non-finite object or order number"}
        return w, stats
    keys = np.stack([out["tomo"], out["obj"]], axis=1)
    uk, inv = np.unique(keys, axis=0, return_inverse=True)
    inv = np.asarray(inv).reshape(-1)
    for g in range(len(uk)):
        rows = np.flatnonzero(inv == g)
        k = len(rows)
        orders = out["order"][rows]
        srt = np.argsort(orders, kind="stable")
        stats["chains"] += 1
        stats["longest"] = max(stats["longest"], k)
        stats["singletons"] += int(k == 1)
        if not np.array_equal(orders[srt], np.arange(1, k + 1, dtype=float)):
            if w["orders"] is None:
                w["orders"] = {"tomo": float(uk[g, 0]), "object": float(uk[g, 1]), "members": int(k),
                               "orders": np.sort(orders)[:30].tolist(), "subtomo_ids": out["sub"][rows][srt][:30].tolist()}
            continue
        rr = rows[srt]
        if not np.all(known[rr]):
            continue
        for a_, b_ in zip(rr[:-1], rr[1:]):
            i, j = src[a_], src[b_]
            stats["links"] += 1
            if E["tomo"][i] != E["tomo"][j]:
                if w["tomogram"] is None:
                    w["tomogram"] = {"what": "consecutive chain members from different tomograms", "former": float(E["sub"][i]),
                                     "latter": float(E["sub"][j]), "tomos": [float(E["tomo"][i]), float(E["tomo"][j])]}
                continue
            d2 = float(((X["pos"][i] - E["pos"][j]) ** 2).sum())
            d = float(np.sqrt(d2))
            inside = (d2 > dmin * dmin and d2 <= dmax * dmax) if exact[i, j] else (d > dmin and d <= dmax)
            if not inside and w["link_range"] is None:
                w["link_range"] = {"tomo": float(uk[g, 0]), "object": float(uk[g, 1]), "former": float(E["sub"][i]),
                                   "latter": float(E["sub"][j]), "order_of_former": float(out["order"][a_]),
                                   "exit_to_entry": d, "min_distance": float(dmin), "max_distance": float(dmax),
                                   "exact_lattice_pair": bool(exact[i, j])}
            rec = float(out["dist"][a_])
            if not (abs(rec - d) <= tol) and w["link_recorded"] is None:
                w["link_recorded"] = {"tomo": float(uk[g, 0]), "object": float(uk[g, 1]), "former": float(E["sub"][i]),
                                      "latter": float(E["sub"][j]), "order_of_former": float(out["order"][a_]),
                                      "exit_to_entry": d, "recorded_on_former": rec,
                                      "recorded_on_latter": float(out["dist"][b_])}
    return w, stats
