"""Independent reference code for C09 (spatial filters).  Pure numpy / struct; no cryoCAT code is called here.

Conventions (DESIGN.md 3 and 4/C09):
  complete position c = (x,y,z) + (shift_x,shift_y,shift_z)
  out-of-bounds:   kept  <=>  every component of c - b >= 0  and of  c + b < dim(own tomogram);  b = 0 | ceil(box/2)
  trimming:        x' = x - (start - 1);  kept  <=>  1 <= x' <= end - start + 1 on all axes  (x,y,z only, shifts untouched)
  reference points removed <=> some point of the same tomogram at Euclidean distance <= radius of c (inclusive: exact
                   ties d^2 == r^2 are removed; near-but-not-exact ties |d-r| < 1e-6 are out of domain)
  tomogram mask:   voxel index = trunc(c); removed <=> tomogram listed, 0 <= index < mask shape on all axes, mask voxel == 0
"""
import collections
import math
import os
import re

import numpy as np

from vmon.oracles import files

COLS = ["score", "geom1", "geom2", "subtomo_id", "tomo_id", "object_id", "subtomo_mean", "x", "y", "z",
        "shift_x", "shift_y", "shift_z", "geom3", "geom4", "geom5", "phi", "psi", "theta", "class"]
IX, ISH, ITOMO, ISUB = 7, 10, 4, 3


# ---- tables ---------------------------------------------------------------------------------------
def table(df):
    """(N,20) float64 array in canonical field order, or None if the frame is not a 20-field particle table."""
    try:
        if any(c not in df.columns for c in COLS) or len(df.columns) != 20:
            return None
        return np.ascontiguousarray(df[COLS].to_numpy(dtype=np.float64)).reshape(len(df), 20)
    except Exception:
        return None


def geometry_finite(arr):
    return bool(arr is not None and np.all(np.isfinite(arr[:, [ITOMO] + list(range(IX, IX + 6))])))


def positions(arr):
    return arr[:, IX:IX + 3] + arr[:, ISH:ISH + 3]


def _keys(arr):
    a = np.array(arr, dtype=np.float64) + 0.0          # -0.0 -> 0.0
    a[np.isnan(a)] = np.nan                            # one NaN payload
    return [r.tobytes() for r in a]


def match_rows(orig, obs):
    """Map every observed row to the earliest not yet used identical original row (-1: no such row)."""
    pool = collections.defaultdict(collections.deque)
    for i, k in enumerate(_keys(orig)):
        pool[k].append(i)
    idx = np.full(len(obs), -1, dtype=np.int64)
    for j, k in enumerate(_keys(obs)):
        q = pool.get(k)
        if q:
            idx[j] = q.popleft()
    return idx


def kept_mask(n, idx):
    m = np.zeros(n, dtype=bool)
    m[idx[idx >= 0]] = True
    return m


def in_order(idx):
    v = idx[idx >= 0]
    return bool(np.all(np.diff(v) > 0))


# ---- out of bounds --------------------------------------------------------------------------------
def parse_dims(obj):
    """-> (ids (N,), dims (N,3)) for an N x 4 specification (array-like, DataFrame, text file), else None."""
    try:
        if hasattr(obj, "columns") and hasattr(obj, "to_numpy"):
            a = obj.to_numpy(dtype=np.float64)
        elif isinstance(obj, str):
            if obj.endswith(".com") or not os.path.isfile(obj):
                return None
            rows = [[float(t) for t in re.split(r"\s+", ln.strip())] for ln in open(obj).read().splitlines() if ln.strip()]
            a = np.array(rows, dtype=np.float64)
        else:
            a = np.array(obj, dtype=np.float64)
        if a.ndim == 1:
            a = a.reshape(1, -1)
        if a.ndim != 2 or a.shape[1] != 4 or a.shape[0] < 1 or not np.all(np.isfinite(a)):
            return None
        ids = a[:, 0]
        if len(set(ids.tolist())) != len(ids):
            return None
        return ids, a[:, 1:4]
    except Exception:
        return None


def half_box(boundary_type, box_size):
    """b of the statement, or None when the call is a documented refusal / outside the quantifier."""
    if boundary_type == "center":
        return 0
    if boundary_type != "whole":
        return None
    try:
        if isinstance(box_size, bool) or box_size is None or not (box_size > 0) or not math.isfinite(box_size):
            return None
    except Exception:
        return None
    q = int(box_size // 2)
    return q if q * 2 == box_size else q + 1


def own_dims(tomo, ids, dims):
    """(N,3) dimensions of each particle's own tomogram, None if some tomogram has no entry."""
    out = np.zeros((len(tomo), 3))
    for t in set(tomo.tolist()):
        hit = np.nonzero(ids == t)[0]
        if len(hit) != 1:
            return None
        out[tomo == t] = dims[hit[0]]
    return out


def oob_expected(arr, ids, dims, b):
    """-> (lower_ok, upper_ok, pos, own) ; kept <=> lower_ok & upper_ok."""
    pos = positions(arr)
    own = own_dims(arr[:, ITOMO], ids, dims)
    if own is None:
        return None
    lower_ok = np.ones(len(arr), dtype=bool)
    upper_ok = np.ones(len(arr), dtype=bool)
    for a in range(3):                                  # brute force, axis by axis
        lower_ok &= (pos[:, a] - b) >= 0
        upper_ok &= (pos[:, a] + b) < own[:, a]
    return lower_ok, upper_ok, pos, own


# ---- trimming -------------------------------------------------------------------------------------
def vec3(v):
    try:
        a = np.array(v, dtype=np.float64).reshape(-1)
    except Exception:
        return None
    return a if a.shape == (3,) and np.all(np.isfinite(a)) else None


def trim_expected(arr, start, end):
    """-> (keep mask, table with x,y,z re-expressed relative to the trimmed volume)."""
    out = arr.copy()
    keep = np.ones(len(arr), dtype=bool)
    for a in range(3):
        off = start[a] - 1.0
        out[:, IX + a] = arr[:, IX + a] - off
        size = end[a] - start[a] + 1.0
        keep &= (out[:, IX + a] >= 1.0) & (out[:, IX + a] <= size)
    return keep, out


# ---- reference points -----------------------------------------------------------------------------
def exact_tie(p, q, r):
    """True iff |p-q|^2 == r^2 holds EXACTLY: the rational value of the float inputs agrees and every float
    operation of the straightforward evaluation (differences, squares, partial sums, r*r) is exact, so any
    implementation that compares d^2 with r^2 (or d with r) in float64 sees the same equality."""
    from fractions import Fraction as Fr
    d2, fsum = Fr(0), 0.0
    for a in range(3):
        pa, qa = float(p[a]), float(q[a])
        df = qa - pa
        if Fr(df) != Fr(qa) - Fr(pa):
            return False
        sq = df * df
        if Fr(sq) != Fr(df) ** 2:
            return False
        d2 += Fr(sq)
        fsum += sq
        if Fr(fsum) != d2:
            return False
    r = float(r)
    r2 = r * r
    return Fr(r2) == Fr(r) ** 2 and d2 == Fr(r2)


def dist_expected(arr, feat, pts_xyz, pts_feat, radius):
    """-> (removed mask, smallest |distance - radius| over the same-group pairs that are NOT exact ties, #exact ties).
    "within the radius" is inclusive: an exact tie (d^2 == r^2 in exact arithmetic) is removed."""
    pos = positions(arr)
    removed = np.zeros(len(arr), dtype=bool)
    margin = np.inf
    ties = 0
    for i in range(len(arr)):
        q = pts_xyz[pts_feat == feat[i]]
        if len(q) == 0:
            continue
        d = np.sqrt(((q - pos[i]) ** 2).sum(axis=1))
        close = np.abs(d - radius) < 1e-6
        inside = d <= radius
        for j in np.nonzero(close)[0]:
            if exact_tie(pos[i], q[j], radius):
                ties += 1
                inside[j] = True
            else:
                margin = min(margin, float(abs(d[j] - radius)))
        if (~close).any():
            margin = min(margin, float(np.abs(d[~close] - radius).min()))
        removed[i] = bool(inside.any())
    return removed, margin, ties


# ---- masks ----------------------------------------------------------------------------------------
def read_mask(obj):
    """Binary mask indexed [x,y,z] from an array or an MRC/EM file (parsed from bytes); None if not a 0/1 volume."""
    try:
        if isinstance(obj, str):
            if obj.endswith(".em"):
                p = files.parse_em(obj)
            elif re.search(r"\.(mrc|rec|st|ali)$", obj):
                p = files.parse_mrc(obj)
            else:
                return None
            if "error" in p:
                return None
            a = np.array(p["data"], dtype=np.float64)
        elif isinstance(obj, np.ndarray):
            a = np.array(obj, dtype=np.float64)
        else:
            return None
        if a.ndim != 3 or a.size == 0 or not np.all((a == 0) | (a == 1)):
            return None
        return a
    except Exception:
        return None


def parse_tomo_list(obj):
    try:
        if isinstance(obj, str):
            if obj.endswith((".mdoc", ".xml")) or not os.path.isfile(obj):
                return None
            v = sorted(float(t) for t in open(obj).read().split())      # the loader sorts file input
            a = np.array(v, dtype=np.float64)
            if not np.array_equal(a.astype(np.float32).astype(np.float64), a):
                return None      # the loader reads list files as float32: ids it cannot hold are outside the domain (reported)
        elif isinstance(obj, (list, np.ndarray)):
            a = np.array(obj, dtype=np.float64).reshape(-1)
        else:
            return None
        if a.size == 0 or not np.all(np.isfinite(a)) or len(set(a.tolist())) != a.size:
            return None
        return a
    except Exception:
        return None


def mask_expected(arr, tomos, masks):
    """masks: list aligned with tomos.  -> (removed mask, inside-volume mask, gap flag).
    gap: a listed particle has a complete position in the open interval (-1, 0) on some axis (trunc != floor there)."""
    pos = positions(arr)
    vox = np.trunc(pos).astype(np.int64)
    removed = np.zeros(len(arr), dtype=bool)
    inside_any = np.zeros(len(arr), dtype=bool)
    gap = False
    for t, m in zip(tomos, masks):
        for i in np.nonzero(arr[:, ITOMO] == t)[0]:
            if np.any((pos[i] > -1.0) & (pos[i] < 0.0)):
                gap = True
            ins = all(0 <= vox[i, a] < m.shape[a] for a in range(3))
            inside_any[i] = ins
            if ins and m[vox[i, 0], vox[i, 1], vox[i, 2]] == 0:
                removed[i] = True
    return removed, inside_any, gap
