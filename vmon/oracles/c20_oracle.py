"""Independent brute-force reference for C20 (membrane thickness pairing).  Pure numpy, no cryoCAT code, no KD-tree.

Formulation deliberately different from the code under observation: the cone test is evaluated as an ANGLE
(atan2(|n x v|, n.v) < max_angle) instead of the lateral^2 / proj^2 inequality, distances come from
numpy.linalg.norm, and everything is a dense (sources x targets) table.
"""
import numpy as np


class Table:
    """Dense source x target table of one call.

    src, tgt : index arrays (into the point array) of the source / target points (ascending)
    D        : (ns, nt) Euclidean distances |p_t - p_s| in voxels
    ANG      : (ns, nt) angle in degrees between v = p_t - p_s and the source normal (0..180)
    DOT      : (ns, nt) v . n_s
    A        : (ns, nt) bool, the admissible set: 0 < |v| <= max_vox, v.n > 0, angle < max_angle
    margin   : smallest relative distance of any source-target pair to the range or cone boundary
    tie_gap  : smallest relative gap (in units of max_vox) between the distances of two admissible pairs that share
               a source or share a target (inf if there is no such couple)
    """

    def __init__(self, points, normals, src_mask, tgt_mask, max_vox, max_angle_deg, tgt_idx=None):
        P = np.asarray(points, dtype=np.float64)
        N = np.asarray(normals, dtype=np.float64)
        self.n = len(P)
        self.src = np.flatnonzero(np.asarray(src_mask))
        self.tgt = np.flatnonzero(np.asarray(tgt_mask)) if tgt_idx is None else np.asarray(tgt_idx, dtype=np.int64)
        self.max_vox = float(max_vox)
        self.max_angle = float(max_angle_deg)
        ns, nt = len(self.src), len(self.tgt)
        if ns == 0 or nt == 0:
            self.D = np.zeros((ns, nt)); self.ANG = np.zeros((ns, nt)); self.DOT = np.zeros((ns, nt))
            self.A = np.zeros((ns, nt), dtype=bool)
            self.margin = np.inf; self.tie_gap = np.inf
            return
        V = P[self.tgt][None, :, :] - P[self.src][:, None, :]            # (ns, nt, 3)
        Ns = N[self.src][:, None, :]
        self.D = np.linalg.norm(V, axis=2)
        self.DOT = np.einsum("stk,stk->st", V, np.broadcast_to(Ns, V.shape))
        C = np.cross(np.broadcast_to(Ns, V.shape), V)
        self.ANG = np.degrees(np.arctan2(np.linalg.norm(C, axis=2), self.DOT))
        self.A = (self.D > 0) & (self.D <= self.max_vox) & (self.DOT > 0) & (self.ANG < self.max_angle)
        m_range = np.abs(self.D - self.max_vox).min() / self.max_vox
        m_cone = np.abs(self.ANG - self.max_angle).min() / self.max_angle
        self.margin = float(min(m_range, m_cone))
        self.tie_gap = self._tie_gap()

    def _tie_gap(self):
        if not self.A.any():
            return np.inf
        M = np.where(self.A, self.D, np.inf)
        g = np.inf
        for ax in (0, 1):
            S = np.sort(M, axis=ax)
            d = np.diff(S, axis=ax)
            d = d[np.isfinite(d)]
            if d.size:
                g = min(g, float(d.min()))
        return g / self.max_vox

    # ---- derived quantities -----------------------------------------------------------------
    def cand_counts(self):
        return self.A.sum(axis=1)

    def max_candidates(self):
        return int(self.A.sum(axis=1).max()) if self.A.size else 0

    def greedy(self):
        """The matching obtained by taking admissible pairs by increasing distance (unique when tie_gap > 0).
        -> dict source_point_index -> target_point_index"""
        si, tj = np.nonzero(self.A)
        order = np.argsort(self.D[si, tj], kind="stable")
        used_s, used_t, res = set(), set(), {}
        for k in order:
            a, b = int(si[k]), int(tj[k])
            if a in used_s or b in used_t:
                continue
            used_s.add(a); used_t.add(b)
            res[int(self.src[a])] = int(self.tgt[b])
        return res

    def stats(self):
        """numbers used for the non-triviality rule"""
        A = self.A
        inrange = (self.D <= self.max_vox) & (self.D > 0)
        return {"n_src": int(len(self.src)), "n_tgt": int(len(self.tgt)), "admissible": int(A.sum()),
                "max_cand": self.max_candidates(),
                "src_multi": int((A.sum(axis=1) >= 2).sum()), "tgt_contested": int((A.sum(axis=0) >= 2).sum()) if A.size else 0,
                "inrange_rejected_cone": int((inrange & (self.DOT > 0) & ~A).sum()),
                "inrange_behind": int((inrange & (self.DOT <= 0)).sum()),
                "behind_in_backward_cone": int((inrange & (self.DOT < 0) & ((180.0 - self.ANG) < self.max_angle)).sum()),
                "out_of_range_in_cone": int(((self.D > self.max_vox) & (self.DOT > 0) & (self.ANG < self.max_angle)).sum())}


def judge_matching(T, thickness, valid, pairs, voxel, max_nm, src_mask_full, tgt_mask_full):
    """Evaluate the single-call clauses of C20 on one returned (thickness_results, valid_mask, point_pairs).
    -> dict clause -> None (holds) or witness dict"""
    n = T.n
    out = {"one_to_one": None, "pairs_admissible": None, "thickness_value": None, "greedy_maximal": None}
    thickness = np.asarray(thickness); valid = np.asarray(valid); pairs = np.asarray(pairs)
    if thickness.shape != (n,) or valid.shape != (n,) or pairs.shape != (n,):
        w = {"what": "result shapes", "thickness": list(thickness.shape), "valid": list(valid.shape), "pairs": list(pairs.shape), "n": n}
        return {k: w for k in out}
    vm = valid.astype(bool)
    S = np.flatnonzero(vm)
    Tg = pairs[S].astype(np.int64)
    src_pos = {int(p): k for k, p in enumerate(T.src)}
    tgt_pos = {int(p): k for k, p in enumerate(T.tgt)}
    # -- one-to-one, roles
    not_src = [int(s) for s in S if int(s) not in src_pos]
    if not_src:
        out["one_to_one"] = {"what": "valid measurement on a point that is not a source", "points": not_src[:5]}
    else:
        u, c = np.unique(Tg, return_counts=True)
        if (c > 1).any():
            t = int(u[c > 1][0])
            out["one_to_one"] = {"what": "target used twice", "target": t, "sources": [int(s) for s in S[Tg == t]][:6],
                                 "n_reused_targets": int((c > 1).sum())}
    # -- admissibility of every returned pair
    bad = None
    for s, t in zip(S.tolist(), Tg.tolist()):
        if s not in src_pos:
            continue
        if t not in tgt_pos:
            bad = {"what": "paired point is not a target", "source": s, "paired": t}
            break
        a, b = src_pos[s], tgt_pos[t]
        if not T.A[a, b]:
            bad = {"what": "returned pair is not admissible", "source": s, "target": t, "distance_vox": float(T.D[a, b]),
                   "max_vox": T.max_vox, "proj": float(T.DOT[a, b]), "angle_deg": float(T.ANG[a, b]), "max_angle": T.max_angle,
                   "n_inadmissible_pairs": int(sum(1 for s2, t2 in zip(S.tolist(), Tg.tolist())
                                                   if s2 in src_pos and t2 in tgt_pos and not T.A[src_pos[s2], tgt_pos[t2]]))}
            break
    out["pairs_admissible"] = bad
    # -- thickness = distance * voxel (float32 result), not above the maximum
    for s, t in zip(S.tolist(), Tg.tolist()):
        if s not in src_pos or t not in tgt_pos:
            continue
        exp = float(T.D[src_pos[s], tgt_pos[t]]) * voxel
        got = float(thickness[s])
        if not (abs(got - exp) <= 1e-5 * exp) or got > max_nm * (1 + 1e-5):
            out["thickness_value"] = {"source": s, "target": t, "thickness": got, "distance_vox_times_voxel": exp, "voxel": voxel,
                                      "max_thickness": max_nm}
            break
    # -- greedy maximality
    if not_src or (bad is not None and bad["what"] == "paired point is not a target"):
        out["greedy_maximal"] = "skip"          # roles already violated (reported above): clause not evaluable
        return out
    s_matched = np.zeros(len(T.src), dtype=bool)
    t_used = np.zeros(len(T.tgt), dtype=bool)
    partner_d = np.full(len(T.src), np.inf)
    for s, t in zip(S.tolist(), Tg.tolist()):
        s_matched[src_pos[s]] = True
        t_used[tgt_pos[t]] = True
        partner_d[src_pos[s]] = T.D[src_pos[s], tgt_pos[t]]
    free = T.A & ~s_matched[:, None] & ~t_used[None, :]
    if free.any():
        a, b = np.argwhere(free)[0]
        out["greedy_maximal"] = {"what": "admissible pair left over with both ends unmatched", "source": int(T.src[a]), "target": int(T.tgt[b]),
                                 "distance_vox": float(T.D[a, b]), "angle_deg": float(T.ANG[a, b]), "n_leftover_pairs": int(free.sum())}
    else:
        closer = T.A & s_matched[:, None] & ~t_used[None, :] & (T.D < partner_d[:, None] * (1 - 1e-9))
        if closer.any():
            a, b = np.argwhere(closer)[0]
            out["greedy_maximal"] = {"what": "matched source has a closer admissible unmatched target", "source": int(T.src[a]),
                                     "closer_target": int(T.tgt[b]), "closer_distance_vox": float(T.D[a, b]),
                                     "partner_distance_vox": float(partner_d[a]), "n_such": int(closer.sum())}
    return out


def judge_candidates(T, match_distances, match_indices, match_counts, capacity, counts_before=None):
    """Candidate lists written by the numba kernel vs the admissible set (as sets per source). -> None or witness.
    A point that is not a source has no admissible pair: its count must be 0 or left as the caller initialised it."""
    md = np.asarray(match_distances); mi = np.asarray(match_indices); mc = np.asarray(match_counts)
    rtol = 1e-12 if md.dtype == np.float64 else 1e-6
    if counts_before is not None:
        non = np.ones(T.n, dtype=bool); non[T.src] = False
        badn = non & (mc != 0) & (mc != np.asarray(counts_before))
        if badn.any():
            k = int(np.flatnonzero(badn)[0])
            return {"what": "candidates listed for a point that is not a source", "point": k, "count": int(mc[k]),
                    "count_before_call": int(np.asarray(counts_before)[k]), "n_such_points": int(badn.sum())}
    for a, s in enumerate(T.src.tolist()):
        exp = T.tgt[T.A[a]]
        c = int(mc[s])
        if c != len(exp) or c < 0 or c > capacity:
            got = sorted(int(x) for x in mi[s, :max(0, min(c, capacity))])
            return {"what": "candidate count", "source": s, "count": c, "expected_count": int(len(exp)),
                    "extra": sorted(set(got) - set(exp.tolist()))[:6], "missing": sorted(set(exp.tolist()) - set(got))[:6]}
        got = mi[s, :c].astype(np.int64)
        if sorted(got.tolist()) != sorted(exp.tolist()):
            return {"what": "candidate set", "source": s, "extra": sorted(set(got.tolist()) - set(exp.tolist()))[:6],
                    "missing": sorted(set(exp.tolist()) - set(got.tolist()))[:6]}
        pos = {int(t): k for k, t in enumerate(T.tgt.tolist())}
        for k in range(c):
            d_exp = float(T.D[a, pos[int(got[k])]])
            if not abs(float(md[s, k]) - d_exp) <= rtol * d_exp:
                return {"what": "candidate distance", "source": s, "target": int(got[k]), "stored": float(md[s, k]), "expected": d_exp}
    return None


def judge_assignment(cands, n_points, voxel, result, rel_tie=1e-9):
    """Greedy one-to-one assignment on an explicit candidate list [(dist, source, target), ...] (what
    process_matches_cpu2cpu receives).  Sources and targets are separate name spaces (a point may be both).
    -> (witness or None, unique) ; unique = no two candidates sharing a source or a target are closer than rel_tie (relative)
    in distance, so that 'by increasing distance' fixes the result."""
    try:
        thick, valid, pairs = (np.asarray(x) for x in result)
    except Exception:
        return {"what": "result is not (thickness_results, valid_mask, point_pairs)"}, False
    if thick.shape != (n_points,) or valid.shape != (n_points,) or pairs.shape != (n_points,):
        return {"what": "result shapes", "thickness": list(thick.shape), "valid": list(valid.shape), "pairs": list(pairs.shape)}, False
    best = {}
    for d, s, t in cands:
        if (s, t) not in best or d < best[(s, t)]:
            best[(s, t)] = d
    by_s, by_t = {}, {}
    for (s, t), d in best.items():
        by_s.setdefault(s, []).append((d, t))
        by_t.setdefault(t, []).append((d, s))
    unique = True
    for grp in list(by_s.values()) + list(by_t.values()):
        if len(grp) > 1:
            ds = np.sort(np.array([g[0] for g in grp]))
            if np.any(np.diff(ds) < rel_tie * ds[1:]):
                unique = False
                break
    vm = valid.astype(bool)
    S = np.flatnonzero(vm).tolist()
    got = {int(s): int(pairs[s]) for s in S}
    for s, t in got.items():
        if (s, t) not in best:
            return {"what": "returned pair is not in the candidate list", "source": s, "target": t, "source_has_candidates": s in by_s}, unique
    used = {}
    for s, t in got.items():
        if t in used:
            return {"what": "target used twice", "target": t, "sources": [used[t], s]}, unique
        used[t] = s
    for s, t in got.items():
        exp = best[(s, t)] * voxel
        if not abs(float(thick[s]) - exp) <= 1e-5 * exp:
            return {"what": "thickness != candidate distance * voxel", "source": s, "target": t, "thickness": float(thick[s]), "expected": exp}, unique
    for (s, t), d in best.items():
        if s not in got and t not in used:
            return {"what": "candidate left over with both ends unmatched", "source": s, "target": t, "distance": d}, unique
        if s in got and t not in used and d < best[(s, got[s])] * (1 - rel_tie):
            return {"what": "matched source has a closer unmatched candidate target", "source": s, "partner": got[s],
                    "partner_distance": best[(s, got[s])], "closer_target": t, "closer_distance": d,
                    "gap": best[(s, got[s])] - d}, unique
    if unique:
        ref, us, ut = {}, set(), set()
        for (s, t), d in sorted(best.items(), key=lambda kv: kv[1]):
            if s in us or t in ut:
                continue
            us.add(s); ut.add(t); ref[s] = t
        if ref != got:
            diff = sorted(set(ref.items()) ^ set(got.items()))
            s0 = diff[0][0]
            return {"what": "assignment differs from greedy-by-increasing-distance on the candidate list", "source": s0,
                    "returned": got.get(s0), "returned_distance": best.get((s0, got.get(s0))), "reference": ref.get(s0),
                    "reference_distance": best.get((s0, ref.get(s0))), "n_different": len(diff)}, unique
    return None, unique
