"""Independent reference for C04 (STOPGAP <-> cryoCAT particle lists).  No cryoCAT code, no cryocat.starfileio.

* the documented renaming, written out by hand from the property statement / STOPGAP motive-list field names;
* a small STAR tokenizer (split lines; labels start with `_`; rows are whitespace-separated tokens);
* an independent STOPGAP .star writer (to feed the reader with files cryoCAT did not write);
* comparisons: exact (in memory), STAR precision (0.5e-6 + 1e-12*|x|), and the update_coord form
  (complete positions equal, integer orig_*, |shift| <= 0.5).
"""
import numpy as np

# cryoCAT field -> STOPGAP field: score, subtomogram / tomogram / object numbers, position, shifts, phi/psi/theta, class
PAIRS = [("score", "score"), ("subtomo_id", "subtomo_num"), ("tomo_id", "tomo_num"), ("object_id", "object"),
         ("x", "orig_x"), ("y", "orig_y"), ("z", "orig_z"),
         ("shift_x", "x_shift"), ("shift_y", "y_shift"), ("shift_z", "z_shift"),
         ("phi", "phi"), ("psi", "psi"), ("theta", "the"), ("class", "class")]
EM_KEYS = [p[0] for p in PAIRS]
SG_KEYS = [p[1] for p in PAIRS]
EM2SG = dict(PAIRS)
SG2EM = {b: a for a, b in PAIRS}
SG_CANON = ["motl_idx", "tomo_num", "object", "subtomo_num", "halfset", "orig_x", "orig_y", "orig_z", "score",
            "x_shift", "y_shift", "z_shift", "phi", "psi", "the", "class"]
POS = ("x", "y", "z")
SHIFT = ("shift_x", "shift_y", "shift_z")
OTHER8 = [k for k in EM_KEYS if k not in POS + SHIFT]
BLOCK = "data_stopgap_motivelist"
assert len(PAIRS) == 14 and len(OTHER8) == 8 and sorted(SG_CANON) == sorted(SG_KEYS + ["halfset", "motl_idx"])


def star_tol(x):
    return 0.5e-6 + 1e-12 * np.abs(np.asarray(x, dtype=float))


# ---- tables -> plain arrays ----------------------------------------------------------------------
def em_fields(df):
    """dict cryoCAT-name -> float64 array (positional row order) or None when a field is missing / not numeric."""
    return _fields(df, EM_KEYS, None)


def sg_fields(df):
    """STOPGAP-named frame -> dict keyed by the cryoCAT names (renaming applied by THIS module)."""
    return _fields(df, SG_KEYS, SG2EM)


WHY = [""]          # why the last em_fields / sg_fields call returned None (for witnesses)


def _fields(df, keys, rename):
    out = {}
    WHY[0] = ""
    try:
        cols = set(map(str, df.columns))
        for k in keys:
            if k not in cols:
                WHY[0] = "field %s is missing" % k
                return None
            v = df[k]
            if getattr(v, "ndim", 1) != 1:
                WHY[0] = "field %s is not one column" % k
                return None
            if getattr(v.dtype, "kind", "O") not in "iuf":
                # a column left as text / object ('3e-06' strings) is not a reproduced numeric field, even if its strings
                # could be parsed: np.array(..., dtype=float) would silently hide that
                WHY[0] = "field %s has non-numeric dtype %s (first value %r)" % (k, v.dtype, v.iloc[0] if len(v) else None)
                return None
            a = np.array(v.to_numpy(), dtype=np.float64, copy=True)
            out[rename[k] if rename else k] = a
    except Exception as e:
        WHY[0] = "%s: %s" % (type(e).__name__, str(e)[:120])
        return None
    return out


def narrow_float(df, sg=False):
    """True when one of the 14 shared fields is typed float16/float32: such tables are outside the quantifier (lead's ruling,
    round 6: every loader/constructor path of the property yields float64 tables; exotic column dtypes are not covered)."""
    try:
        for k in (SG_KEYS if sg else EM_KEYS):
            if k in df.columns and getattr(df[k].dtype, "kind", "") == "f" and df[k].dtype.itemsize < 8:
                return True
    except Exception:
        return False
    return False


def all_finite(F):
    return all(np.all(np.isfinite(a)) for a in F.values())


def integral_ids(F):
    a = F["subtomo_id"]
    return bool(np.all(a == np.round(a)) and np.all(np.abs(a) < 2.0 ** 53))


def range_index(df):
    try:
        idx = df.index.to_numpy()
        return idx.dtype.kind in "iu" and np.array_equal(idx, np.arange(len(df)))
    except Exception:
        return False


# ---- halfset / motl_idx --------------------------------------------------------------------------
def parity_halfset(ids):
    """A for even, B for odd subtomogram numbers (Python integer arithmetic)."""
    return ["A" if int(v) % 2 == 0 else "B" for v in ids]


def expected_motl_idx(ids, reset):
    return np.arange(1, len(ids) + 1, dtype=float) if reset else np.asarray(ids, dtype=float)


def check_halfset_idx(halfset, motl_idx, ids, reset, star=False):
    """-> None or witness.  halfset: list of objects/tokens, motl_idx: float array.  star=True: motl_idx was read from a
    6-decimal STAR file and is compared within STAR precision (0.5e-6 + 1e-12|x|: exact for integers below ~5e11; the
    writer's 6-decimal rounding may move integers close to 2**53 by one)."""
    n = len(ids)
    if len(halfset) != n or len(motl_idx) != n:
        return {"what": "row count", "rows": [len(halfset), len(motl_idx)], "expected_rows": n}
    exp_h = parity_halfset(ids)
    bad = [r for r in range(n) if not (isinstance(halfset[r], str) and halfset[r] == exp_h[r])]
    if bad:
        r = bad[0]
        return {"what": "halfset", "row": r, "subtomo_num": float(ids[r]), "got": repr(halfset[r]), "expected": exp_h[r],
                "n_wrong_rows": len(bad), "n_rows": n}
    exp_i = expected_motl_idx(ids, reset)
    mi = np.asarray(motl_idx, dtype=float)
    neq = ~(np.abs(mi - exp_i) <= star_tol(exp_i)) if star else ~(mi == exp_i)
    if neq.any():
        r = int(np.argmax(neq))
        return {"what": "motl_idx", "reset_index": bool(reset), "row": r, "got": float(mi[r]), "expected": float(exp_i[r]),
                "subtomo_num": float(ids[r]), "n_wrong_rows": int(neq.sum()), "n_rows": n}
    return None


# ---- comparisons ---------------------------------------------------------------------------------
def _first(field, bad, got, exp, extra=None):
    r = int(np.argmax(bad))
    w = {"field": field, "row": r, "got": float(got[r]), "expected": float(exp[r]), "abs_err": float(abs(got[r] - exp[r])),
         "n_wrong_rows": int(bad.sum()), "n_rows": int(len(exp))}
    if extra:
        w.update(extra)
    return w


def cmp_plain(got, exp, mode, keys=None):
    """14 fields row by row in the same order.  mode 'exact' (in memory) or 'star' (6-decimal file)."""
    keys = keys or EM_KEYS
    w, wrong = None, []
    for k in keys:
        g, e = got.get(k), exp[k]
        if g is None or len(g) != len(e):
            return {"field": k, "what": "missing field or row count", "rows": None if g is None else int(len(g)),
                    "expected_rows": int(len(e))}
        if mode == "exact":
            bad = ~(g == e)
        else:
            bad = ~(np.abs(g - e) <= star_tol(e))
        if bad.any():
            wrong.append(k)
            if w is None:
                w = _first(k, bad, g, e, {"mode": mode})
    if w is not None:
        w["wrong_fields"] = wrong
    return w


def complete(F):
    return np.column_stack([F[p] + F[s] for p, s in zip(POS, SHIFT)])


def cmp_positions_updated(got, exp, mode, pos_slack=1.0):
    """Position clauses of the update_coord form: complete position (x+shift) unchanged; x,y,z exactly integral;
    |shift| <= 0.5.  mode 'exact' (in memory): complete position within 1e-9*max(1,|P|); mode 'star': within
    pos_slack*0.5e-6 + 1e-12|P| + 1e-12*max(1,|P|), pos_slack = number of 6-decimal roundings on the way."""
    if got is None:
        return {"what": "a shared field is missing or not numeric"}
    for k in POS + SHIFT:
        if got.get(k) is None or len(got[k]) != len(exp[k]):
            return {"field": k, "what": "missing field or row count"}
    P, Q = complete(exp), complete(got)
    if mode == "exact":
        tol = 1e-9 * np.maximum(1.0, np.abs(P))
    else:
        tol = pos_slack * 0.5e-6 + 1e-12 * np.abs(P) + 1e-12 * np.maximum(1.0, np.abs(P))
    bad = ~(np.abs(Q - P) <= tol)
    if bad.any():
        r, c = np.argwhere(bad)[0]
        return {"what": "complete position changed", "row": int(r), "axis": "xyz"[c], "got": float(Q[r, c]), "expected": float(P[r, c]),
                "abs_err": float(abs(Q[r, c] - P[r, c])), "n_wrong_cells": int(bad.sum()), "mode": mode}
    for p, s in zip(POS, SHIFT):
        gp, gs = got[p], got[s]
        # in memory: exactly integral.  Read from a 6-decimal file: integral to STAR precision (the same thing for any value the
        # 6 decimals can resolve; only for |x| >= 2**51 may the writer's rounding move an integer by its own ulp)
        bad = ~(gp == np.round(gp)) if mode == "exact" else ~(np.abs(gp - np.round(gp)) <= star_tol(gp) - 0.5e-6 + 1e-9)
        if bad.any():
            return _first(p, bad, gp, np.round(gp), {"what": "position not integral after update_coord"})
        bad = ~(np.abs(gs) <= 0.5)
        if bad.any():
            return _first(s, bad, gs, np.clip(gs, -0.5, 0.5), {"what": "|shift| > 0.5 after update_coord"})
    return None


# ---- STAR tokenizer ------------------------------------------------------------------------------
def tokenize_star(path):
    """-> list of blocks {name, labels, rows}; rows are lists of string tokens.  Blank and # lines are skipped."""
    text = open(path, "rb").read().decode("utf-8", "replace")
    blocks, cur = [], None
    for ln in text.replace("\r\n", "\n").replace("\r", "\n").split("\n"):
        s = ln.strip()
        if not s or s.startswith("#"):
            continue
        if s.startswith("data_"):
            cur = {"name": s.split()[0], "labels": [], "rows": [], "loop": False}
            blocks.append(cur)
            continue
        if cur is None:
            blocks.append({"name": None, "labels": [], "rows": [s.split()], "loop": False})
            continue
        if s == "loop_" and not cur["rows"]:
            cur["loop"] = True
            continue
        if s.startswith("_") and not cur["rows"]:
            cur["labels"].append(s.split()[0][1:])
            continue
        cur["rows"].append(s.split())
    return blocks


def parse_sg_star(path, n_expected):
    """-> (F keyed by cryoCAT names, halfset tokens, motl_idx array, None) or (None, None, None, witness)."""
    try:
        blocks = tokenize_star(path)
    except OSError as e:
        return None, None, None, {"what": "file not readable", "error": str(e)[:200]}
    sg = [b for b in blocks if b["name"] == BLOCK]
    if len(sg) != 1:
        return None, None, None, {"what": "expected one %s block" % BLOCK, "blocks": [b["name"] for b in blocks][:6]}
    b = sg[0]
    labels = b["labels"]
    miss = [k for k in SG_CANON if k not in labels]
    if miss or len(set(labels)) != len(labels):
        return None, None, None, {"what": "labels", "missing": miss, "labels": labels[:24]}
    if len(b["rows"]) != n_expected:
        return None, None, None, {"what": "row count", "rows": len(b["rows"]), "expected_rows": n_expected}
    for r, row in enumerate(b["rows"]):
        if len(row) != len(labels):
            return None, None, None, {"what": "tokens per row", "row": r, "tokens": len(row), "labels": len(labels), "line": row[:20]}
    col = {l: [row[j] for row in b["rows"]] for j, l in enumerate(labels)}
    F = {}
    for em, sgk in PAIRS + [("motl_idx", "motl_idx")]:
        try:
            F[em] = np.array([float(t) for t in col[sgk]], dtype=float)
        except ValueError:
            badtok = [t for t in col[sgk] if not _isfloat(t)][:3]
            return None, None, None, {"what": "non-numeric token", "field": sgk, "tokens": badtok}
    mi = F.pop("motl_idx")
    return F, col["halfset"], mi, None


def _isfloat(t):
    try:
        float(t)
        return True
    except ValueError:
        return False


# ---- independent STOPGAP writer --------------------------------------------------------------------
def odd_token(v):
    """Unusual but valid number spellings: .5  -.5  5.  +3  1E5 ; None when the value has no such spelling."""
    v = float(v)
    if v == 0.5:
        return ".5"
    if v == -0.5:
        return "-.5"
    if v == int(v) and abs(v) < 1e15:
        k = int(v)
        if k != 0 and k % 100000 == 0:
            return "%dE5" % (k // 100000)
        if k % 3 == 0:
            return "%d." % k
        if k % 3 == 1 and k >= 0:
            return "+%d" % k
    return None


def write_sg_star(path, F, halfset, motl_idx, order=None, nl="\n", sep="\t", numbered=False, fmt="repr", int_tokens=False,
                  comment=None, odd_tokens=False):
    """Write a STOPGAP motive list from plain arrays (F keyed by cryoCAT names).  fmt: 'repr' (shortest round-trip),
    '%.6f', '%.10g'.  int_tokens: integral values of the id-like fields are written without a decimal point."""
    order = list(order) if order is not None else list(SG_CANON)
    n = len(motl_idx)
    idlike = {"motl_idx", "tomo_num", "object", "subtomo_num", "class"}

    def tok(name, v):
        v = float(v)
        if odd_tokens and odd_token(v) is not None:
            return odd_token(v)
        if int_tokens and name in idlike and v == int(v):
            return str(int(v))
        if fmt == "repr":
            return repr(v)
        return fmt % v
    cols = {}
    for em, sgk in PAIRS:
        cols[sgk] = [tok(sgk, v) for v in F[em]]
    cols["halfset"] = list(halfset)
    cols["motl_idx"] = [tok("motl_idx", v) for v in motl_idx]
    with open(path, "w", newline="") as f:
        if comment:
            f.write("# " + comment + nl)
        f.write(nl + BLOCK + nl + nl + "loop_" + nl)
        for j, name in enumerate(order, 1):
            f.write("_" + name + ((" #%d" % j) if numbered else "") + nl)
        f.write(nl)
        for r in range(n):
            f.write(sep.join(cols[name][r] for name in order) + nl)
        f.write(nl)


def foreign_halfset(rng, ids, style):
    """halfset letters as a list loaded from STOPGAP may carry them (not necessarily the parity of subtomo_num)."""
    par = parity_halfset(ids)
    n = len(par)
    if style == "parity":
        return par
    if style == "inverted":
        return ["B" if h == "A" else "A" for h in par]
    if style == "all_A":
        return ["A"] * n
    if style == "all_B":
        return ["B"] * n
    if style == "random":
        return [("A", "B")[int(v)] for v in rng.integers(0, 2, n)]
    raise ValueError(style)


def foreign_motl_idx(rng, ids, style):
    """motl_idx values as STOPGAP itself writes them: in general unrelated to subtomo_num."""
    n = len(ids)
    if style == "ids":
        return np.asarray(ids, dtype=float)
    if style == "1..N":
        return np.arange(1, n + 1, dtype=float)
    if style == "shuffled":
        return rng.permutation(np.arange(1, n + 1)).astype(float)
    if style == "offset":
        return np.arange(1, n + 1, dtype=float) + float(rng.integers(1, 5000))
    if style == "unrelated":
        return rng.choice(np.arange(1, 20 * n + 100), n, replace=False).astype(float)
    raise ValueError(style)


def sg_frame(F, halfset, motl_idx, order=None, int_cols=False):
    """A STOPGAP-form DataFrame built from plain arrays (no cryoCAT code)."""
    import pandas as pd
    d = {sgk: np.array(F[em], dtype=float, copy=True) for em, sgk in PAIRS}
    d["motl_idx"] = np.array(motl_idx, dtype=float, copy=True)
    d["halfset"] = list(halfset)
    if int_cols:
        for k in ("motl_idx", "tomo_num", "object", "subtomo_num", "class"):
            if np.all(d[k] == np.round(d[k])) and np.all(np.abs(d[k]) < 2.0 ** 53):
                d[k] = d[k].astype(np.int64)
    order = list(order) if order is not None else list(SG_CANON)
    return pd.DataFrame({k: d[k] for k in order}, columns=order)
