"""Independent reference for C18 (nearest-neighbour analysis): brute-force geometry with numpy and the hand-written SO(3)
matrices of vmon.oracles.so3.  No cryoCAT code, no KD-tree, no scipy rotation code.

Conventions (DESIGN.md section 3): complete position = (x,y,z) + (shift_x,shift_y,shift_z); orientation of a particle
R = Rz(psi).Rx(theta).Rz(phi); offset of neighbour j seen from query i: D = (Pj - Pi) * pixel; the same offset in the
query's own frame: Ri^T D; relative orientation Ri^T Rj; angular distance = rotation angle of Ri^T Rj in [0, 180].
"""
import numpy as np

from vmon.oracles import so3

NEED = ["subtomo_id", "tomo_id", "x", "y", "z", "shift_x", "shift_y", "shift_z", "phi", "theta", "psi"]
OUT_COLS = ["distance", "coord_x", "coord_y", "coord_z", "coord_rx", "coord_ry", "coord_rz", "angular_distance",
            "rot_x", "rot_y", "rot_z", "phi", "theta", "psi", "subtomo_idx", "subtomo_nn_idx"]


def arrays(df):
    """positional (index-free) numeric view of a particle table"""
    v = {c: np.asarray(df[c].to_numpy(), dtype=float) for c in NEED}
    P = np.column_stack([v["x"] + v["shift_x"], v["y"] + v["shift_y"], v["z"] + v["shift_z"]])
    R = so3.zxz(v["phi"], v["theta"], v["psi"])
    return {"P": P, "R": R, "tomo": v["tomo_id"], "sid": v["subtomo_id"], "n": len(P)}


def reference(dfa, dfb, k, pixel, tie_rel=1e-9):
    """Brute-force statement of the property for lists a (queries) and b (candidates).

    -> dict(queries = {query subtomo id: list of neighbour records in ascending rank}, order = query ids in list order,
            ties = list of (query id, rank, d_lo, d_hi) whose choice/order is not determined, ids_unique, shared, n_rows)
    A neighbour record: dict(j=row in b, id, dist, off(3), off_r(3), ang, Rrel(3,3))."""
    a, b = arrays(dfa), arrays(dfb)
    pixel = float(pixel)
    shared = sorted(set(a["tomo"].tolist()) & set(b["tomo"].tolist()))
    res = {"queries": {}, "order": [], "ties": [], "shared": shared, "n_rows": 0, "scale": 1.0,
           "avail": {}, "n_a": a["n"], "n_b": b["n"], "min_rel_gap": float("inf")}
    in_shared = np.isin(a["tomo"], shared)
    ids = a["sid"][in_shared]
    res["ids_unique"] = bool(len(set(ids.tolist())) == len(ids))
    scale = 1.0
    for t in shared:
        ia = np.flatnonzero(a["tomo"] == t)
        ib = np.flatnonzero(b["tomo"] == t)
        Pa, Pb = a["P"][ia], b["P"][ib]
        scale = max(scale, float(np.abs(Pa).max()) * pixel, float(np.abs(Pb).max()) * pixel)
        diff = Pb[None, :, :] - Pa[:, None, :]                       # (na, nb, 3)
        D = np.sqrt((diff ** 2).sum(axis=2))
        order = np.argsort(D, axis=1, kind="stable")
        m = min(int(k), len(ib))
        res["avail"][float(t)] = len(ib)
        Ds = np.take_along_axis(D, order, axis=1)
        # the first m neighbours and their order are determined only if consecutive sorted distances up to the
        # (m+1)-th are separated
        upto = min(m + 1, len(ib))
        for q in range(len(ia)):
            d = Ds[q, :upto]
            gaps = d[1:] - d[:-1]
            if len(gaps):
                res["min_rel_gap"] = min(res["min_rel_gap"], float((gaps / np.maximum(1.0, d[1:])).min()))
            bad = np.flatnonzero(gaps <= tie_rel * np.maximum(1.0, d[1:]))
            for r in bad:
                res["ties"].append((float(a["sid"][ia[q]]), int(r), float(d[r]), float(d[r + 1])))
        for q in range(len(ia)):
            i = ia[q]
            Ri = a["R"][i]
            recs = []
            for r in range(m):
                jj = order[q, r]
                j = ib[jj]
                off = diff[q, jj] * pixel
                Rrel = Ri.T @ b["R"][j]
                recs.append({"j": int(j), "id": float(b["sid"][j]), "dist": float(D[q, jj] * pixel), "off": off,
                             "off_r": Ri.T @ off, "ang": float(so3.angle_deg(Rrel)), "Rrel": Rrel})
            qid = float(a["sid"][i])
            res["queries"].setdefault(qid, recs)
            res["order"].append(qid)
            res["n_rows"] += m
    res["scale"] = scale
    return res


def knn_distances(Pa, Pb, k):
    """sorted brute-force distances (na, min(k, nb)) and the full distance matrix"""
    diff = Pb[None, :, :] - Pa[:, None, :]
    D = np.sqrt((diff ** 2).sum(axis=2))
    m = min(int(k), Pb.shape[0])
    return np.sort(D, axis=1)[:, :m], D


def group_rows(table):
    """rows of a get_nn_stats table grouped by the reported query id, table order kept inside a group.
    -> {qid: (n_q, 16) float array in OUT_COLS order}"""
    vals = table[OUT_COLS].to_numpy(dtype=float)
    groups = {}
    for row in vals:
        groups.setdefault(float(row[14]), []).append(row)
    return {q: np.array(v) for q, v in groups.items()}


def ang_tol(a):
    """tolerance (degrees) for an angular distance obtained through acos of a quaternion product: ill-conditioned
    only next to 0 degrees (sqrt(eps) radians), DESIGN section 3"""
    return 1e-4 if a < 1e-2 else 1e-7
