"""Independent reference code for C07 (distance suppression of particle lists and of score-map peaks).

Pure numpy, brute force.  Nothing in here imports cryoCAT or a KD-tree: distances are sqrt(sum(diff**2)) over all
pairs; lattice distances of voxels are compared as exact integers (squared) against the squared diameter.
"""
import numpy as np

COLS = ["score", "geom1", "geom2", "subtomo_id", "tomo_id", "object_id", "subtomo_mean", "x", "y", "z",
        "shift_x", "shift_y", "shift_z", "geom3", "geom4", "geom5", "phi", "psi", "theta", "class"]
TIE = 1e-9            # |dist - d| below this is an exact-distance tie: excluded by the property


# ---------------------------------------------------------------------------------------------------
# particle lists
# ---------------------------------------------------------------------------------------------------
def complete_positions(values, cols=COLS):
    """x+shift_x, y+shift_y, z+shift_z from an (N,20) value matrix in column order `cols`."""
    ix = [cols.index(c) for c in ("x", "y", "z")]
    isx = [cols.index(c) for c in ("shift_x", "shift_y", "shift_z")]
    return values[:, ix] + values[:, isx]


def dist_matrix(P, Q=None):
    """brute-force Euclidean distances, (len(P), len(Q))"""
    Q = P if Q is None else Q
    d = P[:, None, :] - Q[None, :, :]
    return np.sqrt((d * d).sum(axis=2))


def groups_of(labels):
    """dict label -> row indices (original order); labels compared numerically"""
    res = {}
    for i, v in enumerate(labels.tolist()):
        res.setdefault(v, []).append(i)
    return {k: np.array(v, dtype=int) for k, v in res.items()}


def cbd_domain(values, feature_idx, metric_idx, d, cols=COLS, max_n=3000):
    """Is (table, grouping, metric, d) inside the property's quantifier?  -> (True, None) or (False, reason).

    Excluded: exact-distance ties (|dist - d| < 1e-9 inside a group) and equal metric values among
    conflicting particles (same group, distance < d)."""
    n = values.shape[0]
    if n < 1:
        return False, "empty"
    if n > max_n:
        return False, "too large for the brute-force oracle"
    if isinstance(d, np.ndarray) and d.ndim == 0:
        d = d[()]
    if not (isinstance(d, (int, float, np.integer, np.floating)) and np.isfinite(d) and d > 0):
        return False, "d not a positive finite number"
    if not np.all(np.isfinite(values)):
        return False, "non-finite cell"
    P = complete_positions(values, cols)
    lab = values[:, feature_idx]
    met = values[:, metric_idx]
    for g, idx in groups_of(lab).items():
        if len(idx) < 2:
            continue
        D = dist_matrix(P[idx])
        iu = np.triu_indices(len(idx), 1)
        dd = D[iu]
        if np.any(np.abs(dd - d) < TIE):
            return False, "exact-distance tie"
        conf = dd < d
        if conf.any():
            mi, mj = met[idx][iu[0][conf]], met[idx][iu[1][conf]]
            if np.any(mi == mj):
                return False, "equal metric among conflicting particles"
    return True, None


def row_keys(values):
    """hashable exact key per row (bit pattern of the float64 cells; -0.0 folded into 0.0)"""
    v = np.ascontiguousarray(values + 0.0, dtype=np.float64)
    return [r.tobytes() for r in v]


def match_rows(old_values, new_values):
    """Map every result row to a distinct original row with identical cells.
    -> (orig_index array or None, witness)"""
    table = {}
    for i, k in enumerate(row_keys(old_values)):
        table.setdefault(k, []).append(i)
    used = {}
    out = []
    for j, k in enumerate(row_keys(new_values)):
        cand = table.get(k)
        pos = used.get(k, 0)
        if not cand or pos >= len(cand):
            # describe the nearest original row
            w = {"result_row": j, "reason": "no (further) identical original row"}
            if old_values.shape[1] == new_values.shape[1] and len(old_values):
                ne = (old_values != new_values[j][None, :])
                best = int(np.argmin(ne.sum(axis=1)))
                w["closest_original_row"] = best
                w["differing_columns"] = [int(c) for c in np.nonzero(ne[best])[0][:8]]
                w["got"] = [float(x) for x in new_values[j][ne[best]][:8]]
                w["original"] = [float(x) for x in old_values[best][ne[best]][:8]]
            return None, w
        used[k] = pos + 1
        out.append(cand[pos])
    return np.array(out, dtype=int), None


def cbd_separated(P, lab, kept, d):
    """no two kept rows of one group closer than d -> witness or None"""
    for g, idx in groups_of(lab).items():
        k = idx[kept[idx]]
        if len(k) < 2:
            continue
        D = dist_matrix(P[k])
        D[np.diag_indices(len(k))] = np.inf
        bad = np.argwhere(D < d)
        if len(bad):
            a, b = bad[0]
            return {"group": float(g), "rows": [int(k[a]), int(k[b])], "dist": float(D[a, b]), "d": float(d),
                    "n_close_pairs": int(len(bad) // 2)}
    return None


def cbd_dominated(P, lab, met, kept, d, keep_greater):
    """every removed row has a kept row of its own group within d whose metric is equal or better -> witness or None"""
    for g, idx in groups_of(lab).items():
        k = idx[kept[idx]]
        r = idx[~kept[idx]]
        if len(r) == 0:
            continue
        if len(k) == 0:
            return {"group": float(g), "reason": "whole group removed", "rows": [int(x) for x in r[:5]]}
        D = dist_matrix(P[r], P[k])
        better = (met[k][None, :] >= met[r][:, None]) if keep_greater else (met[k][None, :] <= met[r][:, None])
        ok = ((D <= d) & better).any(axis=1)
        if not ok.all():
            q = int(np.nonzero(~ok)[0][0])
            near = np.nonzero(D[q] <= d)[0]
            return {"group": float(g), "removed_row": int(r[q]), "removed_metric": float(met[r[q]]), "keep_greater": bool(keep_greater),
                    "kept_within_d": [{"row": int(k[j]), "dist": float(D[q, j]), "metric": float(met[k[j]])} for j in near[:4]],
                    "nearest_kept_dist": float(D[q].min()), "d": float(d), "n_undominated": int((~ok).sum())}
    return None


# ---------------------------------------------------------------------------------------------------
# score maps
# ---------------------------------------------------------------------------------------------------
def sq_lattice_dist(A, B):
    """exact integer squared distances between voxel index arrays (len(A), len(B))"""
    A = np.asarray(A, dtype=np.int64)
    B = np.asarray(B, dtype=np.int64)
    # |a|^2 + |b|^2 - 2 a.b : integer arithmetic, exact, no (m,k,3) temporary
    return (A * A).sum(axis=1)[:, None] + (B * B).sum(axis=1)[None, :] - 2 * (A @ B.T)


def peaks_separated(peaks, diameter):
    """pairwise distance of peaks strictly greater than the diameter -> witness or None"""
    n = len(peaks)
    d2 = float(diameter) * float(diameter)
    for s in range(0, n, 512):
        D2 = sq_lattice_dist(peaks[s:s + 512], peaks).astype(np.float64)
        rows = np.arange(s, min(n, s + 512))
        D2[rows - s, rows] = np.inf
        bad = np.argwhere(D2 <= d2)
        if len(bad):
            a, b = bad[0]
            return {"peaks_0based": [peaks[s + a].tolist(), peaks[b].tolist()], "dist": float(np.sqrt(D2[a, b])),
                    "diameter": float(diameter), "n_close_pairs": int(len(bad) // 2)}
    return None


def peaks_dominate(supra, supra_scores, peaks, peak_scores, diameter):
    """every supra-threshold voxel has a peak within the diameter (<=) with score >= its own -> witness or None"""
    d2 = float(diameter) * float(diameter)
    if len(peaks) == 0:
        return {"reason": "no peaks but %d supra-threshold voxels" % len(supra)} if len(supra) else None
    for s in range(0, len(supra), 2048):
        D2 = sq_lattice_dist(supra[s:s + 2048], peaks)
        ok = ((D2 <= d2) & (peak_scores[None, :] >= supra_scores[s:s + 2048][:, None])).any(axis=1)
        if not ok.all():
            q = int(np.nonzero(~ok)[0][0])
            j = int(np.argmin(D2[q]))
            return {"voxel_0based": supra[s + q].tolist(), "score": float(supra_scores[s + q]),
                    "nearest_peak_0based": peaks[j].tolist(), "nearest_peak_dist": float(np.sqrt(D2[q, j])),
                    "nearest_peak_score": float(peak_scores[j]), "diameter": float(diameter),
                    "n_undominated": int((~ok).sum())}
    return None


def threshold_of(scores, scores_threshold, sigma_threshold):
    """-> (threshold, band): band = half-width inside which float32/float64 accumulation order could flip a voxel"""
    if scores_threshold is not None:
        # a float32 map compared with a Python-float threshold: numpy (NEP 50) rounds the threshold to the map's dtype, so a
        # voxel within one float32 spacing of the threshold can fall on either side depending on the comparison dtype; the
        # property does not fix that hairline: such maps are not judged (band = 2 float32 ulps of the threshold magnitude)
        t = float(scores_threshold)
        band = 0.0
        if np.asarray(scores).dtype.itemsize < 8 and np.asarray(scores).dtype.kind == "f":
            band = 2.0 * float(np.spacing(np.float32(abs(t)))) if t != 0 else 0.0
        return t, band
    s = np.asarray(scores, dtype=np.float64).ravel()
    n = s.size
    mean = s.sum() / n
    std = np.sqrt(((s - mean) ** 2).sum() / (n - 1))
    thr = mean + float(sigma_threshold) * std
    eps = 1e-6 if np.asarray(scores).dtype.itemsize < 8 else 1e-12
    band = eps * (abs(mean) + abs(float(sigma_threshold)) * std + np.abs(s).max())
    return float(thr), float(band)


def parse_angle_csv(path):
    """rows of a comma separated 3-column text file -> (N,3) float array (no pandas)"""
    rows = []
    for line in open(path):
        line = line.strip()
        if not line:
            continue
        rows.append([float(t) for t in line.split(",")])
    return np.array(rows, dtype=np.float64)
