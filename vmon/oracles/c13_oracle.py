"""Independent reference for C13 (masks): analytic membership in exact integer arithmetic, set algebra on booleans.

Nothing here imports cryoCAT.  All geometry is brute force over np.indices with int64 values; radii may be rationals
(half-integers come out of the shell functions) and are handled through an exact integer threshold floor(r^2).
Indexing convention: mask[i, j, k] with i <-> x (axis 0), j <-> y (axis 1), k <-> z (axis 2); centre and radii are given
per axis in that order; default centre = floor(N/2) per axis.
"""
import re
from fractions import Fraction

import numpy as np

BOX_MIN, BOX_MAX = 6, 48            # the property's quantifier
SIGMA_MAX = 3.0
RANGE_TOL = 1e-9
CORE_TOL = 1e-3


# ---- reading of user parameters (size / centre / radii) -------------------------------------------------
def _integral(v):
    try:
        if isinstance(v, (bool, np.bool_)):
            return None
        f = float(v)
    except Exception:
        return None
    if f != f or abs(f) > 1e6 or f != int(f):
        return None
    return int(f)


def triple(v):
    """scalar -> (v,v,v); length-1 -> repeated; length-3 -> as is; integral values only.  None if not such a value."""
    if v is None:
        return None
    if (isinstance(v, np.ndarray) and v.ndim == 0) or (isinstance(v, np.generic) and not isinstance(v, (float, int))):
        return None            # numpy integer scalars / 0-d arrays for a size, centre or radii: input form outside the quantifier
    if isinstance(v, (list, tuple, np.ndarray)):
        seq = list(np.asarray(v).ravel()) if isinstance(v, np.ndarray) else list(v)
        if len(seq) == 1:
            seq = seq * 3
        if len(seq) != 3:
            return None
        out = [_integral(x) for x in seq]
    else:
        x = _integral(v)
        out = [x, x, x]
    if any(x is None for x in out):
        return None
    return tuple(out)


def box_ok(N, even=False):
    return N is not None and all(BOX_MIN <= n <= BOX_MAX for n in N) and (not even or all(n % 2 == 0 for n in N))


def centre_of(center, N):
    """requested centre (integral, inside the box) or the documented default floor(N/2); None if outside the quantifier"""
    if center is None:
        return tuple(n // 2 for n in N)
    c = triple(center)
    if c is None or not all(0 <= c[a] < N[a] for a in range(3)):
        return None
    return c


def rational(v, max_den=2 ** 60):
    """exact value of a (float/int) parameter as a Fraction (floats are dyadic rationals; k +- one ulp is accepted), else None"""
    try:
        if isinstance(v, np.ndarray) and v.ndim == 0 and v.dtype.kind in "iuf":
            v = v[()]                                          # 0-d array: the scalar it holds
        if isinstance(v, (bool, np.bool_)) or isinstance(v, (list, tuple, np.ndarray)):
            return None
        f = Fraction(float(v)) if not isinstance(v, (int, np.integer)) else Fraction(int(v))
    except Exception:
        return None
    if f.denominator > max_den or abs(f) > 10 ** 6:
        return None
    return f


def sigma_of(g):
    """(sigma as float) if 0 <= sigma <= 3 else None"""
    try:
        if isinstance(g, np.ndarray) and g.ndim == 0 and g.dtype.kind in "iuf":
            g = g[()]
        if isinstance(g, (bool, np.bool_, list, tuple, np.ndarray)):
            return None
        s = float(g)
    except Exception:
        return None
    if not (0.0 <= s <= SIGMA_MAX):
        return None
    return s


def no_rotation(angles):
    if angles is None:
        return True
    try:
        a = np.asarray(angles, dtype=float)
    except Exception:
        return False
    return bool(np.all(a == 0))


# ---- analytic membership ---------------------------------------------------------------------------------
def grids(N):
    return np.indices(N, dtype=np.int64)


def sphere(N, c, r):
    """voxels with (i-cx)^2+(j-cy)^2+(k-cz)^2 <= r^2, r a Fraction >= 0 (exact: d2 integer <= floor(r^2))"""
    I, J, K = grids(N)
    d2 = (I - c[0]) ** 2 + (J - c[1]) ** 2 + (K - c[2]) ** 2
    T = (r.numerator * r.numerator) // (r.denominator * r.denominator)
    return d2 <= T, d2, T


def cylinder(N, c, r, half_height):
    """planar (x,y) distance <= r and |k-cz| <= half_height (already floor(h/2))"""
    I, J, K = grids(N)
    d2 = (I - c[0]) ** 2 + (J - c[1]) ** 2
    T = (r.numerator * r.numerator) // (r.denominator * r.denominator)
    return (d2 <= T) & (np.abs(K - c[2]) <= int(half_height)), d2, T


def ellipsoid(N, c, radii):
    """sum_a ((idx_a - c_a)/r_a)^2 <= 1 with integer radii >= 1, cross-multiplied (no division)"""
    rx, ry, rz = (int(v) for v in radii)
    I, J, K = grids(N)
    lhs = ((I - c[0]) ** 2) * (ry * rz) ** 2 + ((J - c[1]) ** 2) * (rx * rz) ** 2 + ((K - c[2]) ** 2) * (rx * ry) ** 2
    rhs = (rx * ry * rz) ** 2
    return lhs <= rhs, lhs, rhs


def floor_half(h):
    """floor(h/2) for a rational h >= 0"""
    q = h / 2
    return q.numerator // q.denominator


# ---- comparison helpers ----------------------------------------------------------------------------------
def compare_hard(result, N, expected):
    """-> None or witness: `result` must be an array of shape N with values exactly 0/1 whose support is `expected`."""
    a = np.asarray(result)
    if a.shape != tuple(N):
        return {"what": "shape", "got": list(a.shape), "expected": list(N)}
    if a.dtype == bool:
        got = a
    else:
        if not np.all((a == 0) | (a == 1)):
            idx = tuple(int(v) for v in np.argwhere(~((a == 0) | (a == 1)))[0])
            return {"what": "hard-edged mask holds a value other than 0/1", "voxel": idx, "value": float(a[idx])}
        got = a != 0
    bad = got != expected
    if not bad.any():
        return None
    idx = tuple(int(v) for v in np.argwhere(bad)[0])
    return {"what": "membership", "voxel": idx, "mask": bool(got[idx]), "inequality": bool(expected[idx]),
            "n_wrong": int(bad.sum()), "n_extra": int((got & ~expected).sum()), "n_missing": int((~got & expected).sum()),
            "n_expected": int(expected.sum())}


def compare_range(result, N):
    a = np.asarray(result, dtype=float)
    if a.shape != tuple(N):
        return {"what": "shape", "got": list(a.shape), "expected": list(N)}
    if not np.all(np.isfinite(a)):
        return {"what": "non-finite value in mask"}
    lo, hi = float(a.min()), float(a.max())
    if lo < -RANGE_TOL or hi > 1 + RANGE_TOL:
        return {"what": "range", "min": lo, "max": hi}
    return None


def compare_core(result, core):
    a = np.asarray(result, dtype=float)
    if a.shape != core.shape or not core.any():
        return None
    v = np.where(core, a, 2.0)
    idx = np.unravel_index(int(np.argmin(v)), v.shape)
    if a[idx] < 1 - CORE_TOL:
        return {"what": "core voxel below 1-1e-3 after outward blur", "voxel": tuple(int(x) for x in idx), "value": float(a[idx]),
                "n_core": int(core.sum()), "n_below": int((core & (a < 1 - CORE_TOL)).sum())}
    return None


def ellipsoid_depth(N, c, radii, pad):
    """For every voxel of box N: Euclidean distance (voxels) from the voxel to the nearest lattice point that violates the
    ellipsoid inequality (lattice extended `pad` voxels beyond every face; 0 for voxels outside the ellipsoid)."""
    from scipy import ndimage
    Np = tuple(int(n) + 2 * pad for n in N)
    cp = tuple(int(v) + pad for v in c)
    inside = ellipsoid(Np, cp, radii)[0]
    depth = ndimage.distance_transform_edt(inside)
    sl = tuple(slice(pad, pad + int(n)) for n in N)
    return depth[sl]


# ---- shape strings ---------------------------------------------------------------------------------------
_NAME = re.compile(r"\A([a-z_]+?)((?:_[a-z]+[0-9]+)+)\Z")


def parse_name(s):
    """own reading of 'sphere_r5', 'cylinder_r3_h7', 's_shell_r8_s2', 'ellipsoid_rx4_ry5_rz6', 'e_shell_rx..._s2'
    -> (kind, {key: int}) or None"""
    if not isinstance(s, str):
        return None
    m = _NAME.match(s)
    if not m:
        return None
    kind = m.group(1)
    vals = {}
    keys = []
    for tok in m.group(2).strip("_").split("_"):
        mm = re.match(r"\A([a-z]+)([0-9]+)\Z", tok)
        if not mm or mm.group(1) in vals:
            return None
        vals[mm.group(1)] = int(mm.group(2))
        keys.append(mm.group(1))
    want = {"sphere": ["r"], "cylinder": ["r", "h"], "s_shell": ["r", "s"], "ellipsoid": ["rx", "ry", "rz"],
            "e_shell": ["rx", "ry", "rz", "s"]}.get(kind)
    if want is None or keys != want:
        return None
    return kind, vals


# ---- mask lists ------------------------------------------------------------------------------------------
def is_binary(a):
    a = np.asarray(a)
    if a.dtype == bool:
        return True
    return bool(np.all((a == 0) | (a == 1)))


def fold(kind, bools):
    """voxel-wise OR / AND / sequential AND-NOT over a list of boolean arrays"""
    out = bools[0].copy()
    for b in bools[1:]:
        if kind == "union":
            out |= b
        elif kind == "intersection":
            out &= b
        elif kind == "subtraction":
            out &= ~b
        else:
            raise ValueError(kind)
    return out


# ---- near-miss lattice points of ellipsoids ---------------------------------------------------------------------
# (rx, ry, rz, i, j, k) with rx <= ry <= rz <= 68 and offsets 0..47: the integer left-hand side
# i^2 (ry rz)^2 + j^2 (rx rz)^2 + k^2 (rx ry)^2 differs from (rx ry rz)^2 by less than 2.5e-7 of it without being equal
# (found by an exhaustive search in exact integer arithmetic; both signs: just inside and just outside the surface).  A
# membership test with any relative slack / single-precision evaluation misjudges exactly these voxels.
NEAR_MISS = [
    (3, 28, 55, 1, 19, 36), (3, 34, 67, 1, 23, 44), (3, 41, 58, 0, 29, 41), (3, 44, 51, 0, 19, 46), (3, 49, 50, 1, 32, 34),
    (3, 67, 68, 1, 44, 46), (4, 21, 29, 1, 19, 10), (4, 21, 55, 3, 2, 36), (4, 21, 58, 1, 19, 20), (4, 33, 43, 3, 19, 14),
    (4, 33, 67, 3, 14, 34), (4, 66, 67, 3, 28, 34), (5, 16, 41, 4, 5, 21), (5, 24, 31, 4, 13, 8), (5, 24, 62, 4, 13, 16),
    (5, 32, 41, 4, 10, 21), (5, 41, 48, 4, 21, 15), (5, 41, 56, 1, 24, 44), (5, 41, 64, 4, 21, 20), (5, 48, 62, 4, 26, 16),
    (6, 19, 37, 2, 13, 24), (6, 23, 47, 2, 15, 32), (6, 31, 61, 2, 21, 40), (6, 34, 67, 2, 23, 44), (6, 67, 68, 2, 44, 46),
    (8, 14, 43, 5, 2, 33), (8, 18, 35, 5, 11, 17), (8, 21, 29, 2, 19, 10), (8, 21, 58, 2, 19, 20), (8, 22, 43, 1, 19, 21),
    (8, 29, 42, 7, 5, 19), (8, 33, 43, 6, 19, 14), (8, 33, 67, 6, 14, 34), (8, 35, 36, 5, 17, 22), (8, 42, 55, 6, 4, 36),
    (8, 42, 58, 7, 19, 10), (8, 66, 67, 6, 28, 34), (9, 26, 53, 3, 17, 36), (9, 34, 67, 3, 23, 44), (9, 35, 51, 7, 16, 22),
    (9, 42, 55, 7, 19, 24), (9, 67, 68, 3, 44, 46), (10, 16, 41, 8, 5, 21), (10, 24, 31, 8, 13, 8), (10, 24, 62, 8, 13, 16),
    (10, 32, 41, 8, 10, 21), (10, 34, 47, 3, 16, 39), (10, 41, 48, 8, 21, 15), (10, 41, 64, 8, 21, 20),
    (10, 42, 68, 9, 17, 11), (10, 49, 60, 4, 40, 25), (11, 16, 42, 9, 9, 5), (11, 32, 42, 9, 18, 5),
    (11, 35, 38, 1, 32, 15), (11, 42, 48, 9, 5, 27), (11, 43, 56, 10, 3, 23), (11, 49, 67, 9, 27, 11),
    (12, 15, 49, 5, 6, 40), (12, 16, 47, 1, 3, 46), (12, 21, 29, 3, 19, 10), (12, 21, 58, 3, 19, 20),
    (12, 26, 53, 4, 17, 36), (12, 28, 55, 4, 19, 36), (12, 29, 42, 3, 10, 38), (12, 30, 49, 5, 12, 40),
    (12, 33, 43, 9, 19, 14), (12, 33, 67, 9, 14, 34), (12, 34, 67, 4, 23, 44), (12, 41, 65, 5, 28, 39),
    (12, 45, 49, 5, 18, 40), (12, 49, 50, 4, 32, 34), (12, 49, 50, 5, 40, 20), (12, 58, 59, 4, 38, 40),
    (12, 66, 67, 9, 28, 34), (12, 67, 68, 4, 44, 46), (13, 28, 67, 10, 9, 37), (13, 37, 53, 4, 26, 34),
    (13, 56, 67, 10, 18, 37), (14, 16, 41, 13, 1, 15), (14, 32, 41, 13, 2, 15), (14, 40, 43, 2, 25, 33),
    (14, 41, 48, 13, 15, 3), (14, 41, 64, 13, 15, 4), (15, 16, 41, 12, 5, 21), (15, 17, 53, 4, 16, 11),
    (15, 24, 31, 12, 13, 8), (15, 24, 62, 12, 13, 16), (15, 28, 58, 6, 25, 12), (15, 32, 41, 12, 10, 21),
    (15, 34, 67, 5, 23, 44), (15, 37, 57, 5, 24, 39), (15, 41, 42, 3, 24, 33), (15, 41, 48, 12, 21, 15),
    (15, 41, 64, 12, 21, 20), (15, 67, 68, 5, 44, 46), (16, 18, 35, 10, 11, 17), (16, 20, 41, 5, 16, 21),
    (16, 21, 29, 4, 19, 10), (16, 21, 58, 4, 19, 20), (16, 22, 42, 9, 18, 5), (16, 22, 43, 2, 19, 21),
    (16, 25, 41, 5, 20, 21), (16, 28, 41, 7, 23, 15), (16, 28, 58, 11, 19, 15), (16, 29, 42, 14, 5, 19),
    (16, 30, 41, 5, 24, 21), (16, 33, 43, 12, 19, 14), (16, 33, 67, 12, 14, 34), (16, 35, 36, 10, 17, 22),
    (16, 39, 59, 11, 23, 25), (16, 42, 44, 9, 5, 36), (16, 42, 55, 12, 4, 36), (16, 42, 58, 14, 19, 10),
    (16, 56, 58, 11, 38, 15), (16, 66, 67, 12, 28, 34), (17, 25, 40, 13, 16, 3), (17, 30, 53, 16, 8, 11),
    (17, 31, 33, 13, 12, 17), (17, 44, 67, 15, 17, 18), (17, 45, 53, 16, 12, 11), (17, 53, 60, 16, 11, 16),
    (17, 62, 66, 13, 24, 34), (18, 24, 35, 11, 15, 17), (18, 32, 35, 11, 20, 17), (18, 34, 67, 6, 23, 44),
    (18, 35, 51, 14, 16, 22), (18, 40, 41, 3, 37, 14), (18, 41, 58, 0, 29, 41), (18, 42, 55, 14, 19, 24),
    (18, 43, 66, 6, 28, 45), (18, 46, 47, 6, 30, 32), (18, 48, 53, 11, 14, 39), (18, 52, 53, 6, 34, 36),
    (18, 67, 68, 6, 44, 46), (19, 31, 54, 1, 28, 23), (20, 21, 29, 5, 19, 10), (20, 21, 58, 5, 19, 20),
    (20, 24, 31, 16, 13, 8), (20, 24, 62, 16, 13, 16), (20, 31, 64, 19, 3, 19), (20, 32, 41, 16, 10, 21),
    (20, 33, 43, 15, 19, 14), (20, 33, 67, 15, 14, 34), (20, 41, 48, 16, 21, 15), (20, 41, 51, 13, 28, 17),
    (20, 41, 54, 13, 28, 18), (20, 41, 64, 16, 21, 20), (20, 42, 68, 18, 17, 11), (20, 44, 51, 0, 19, 46),
    (20, 62, 64, 19, 6, 19), (20, 66, 67, 15, 28, 34), (21, 23, 54, 20, 7, 1), (21, 24, 29, 19, 6, 10),
    (21, 24, 45, 20, 7, 4), (21, 24, 58, 19, 6, 20), (21, 28, 29, 19, 7, 10), (21, 28, 58, 19, 7, 20),
    (21, 29, 32, 19, 10, 8), (21, 29, 36, 19, 10, 9), (21, 29, 40, 16, 11, 21), (21, 29, 40, 19, 10, 10),
    (21, 29, 44, 19, 10, 11), (21, 29, 48, 19, 10, 12), (21, 29, 52, 19, 10, 13), (21, 29, 56, 19, 10, 14),
    (21, 29, 60, 19, 10, 15), (21, 29, 64, 19, 10, 16), (21, 29, 68, 19, 10, 17), (21, 31, 52, 10, 22, 27),
    (21, 32, 55, 2, 24, 36), (21, 32, 58, 19, 8, 20), (21, 36, 58, 19, 9, 20), (21, 40, 58, 16, 21, 22),
    (21, 40, 58, 19, 10, 20), (21, 44, 58, 19, 11, 20), (21, 45, 48, 20, 4, 14), (21, 46, 54, 20, 14, 1),
    (21, 48, 58, 19, 12, 20), (21, 52, 53, 7, 34, 36), (21, 52, 58, 19, 13, 20), (21, 52, 62, 10, 27, 44),
    (21, 56, 58, 19, 14, 20), (21, 58, 60, 19, 20, 15), (21, 58, 64, 19, 20, 16), (21, 58, 68, 19, 20, 17),
    (22, 24, 43, 19, 3, 21), (22, 32, 42, 18, 18, 5), (22, 32, 43, 19, 4, 21), (22, 32, 54, 7, 25, 29),
    (22, 35, 38, 2, 32, 15), (22, 40, 43, 19, 5, 21), (22, 43, 48, 19, 21, 6), (22, 43, 56, 19, 21, 7),
    (22, 43, 56, 20, 3, 23), (22, 43, 64, 19, 21, 8), (22, 49, 67, 18, 27, 11), (23, 24, 47, 15, 8, 32),
    (23, 27, 29, 14, 17, 14), (23, 27, 58, 14, 17, 28), (23, 29, 53, 9, 26, 11), (23, 29, 54, 14, 14, 34),
    (23, 29, 63, 12, 12, 47), (23, 30, 47, 15, 10, 32), (23, 31, 39, 7, 15, 32), (23, 33, 37, 22, 8, 6),
    (23, 33, 61, 8, 26, 31), (23, 36, 47, 15, 12, 32), (23, 37, 66, 22, 6, 16), (23, 39, 60, 3, 38, 11),
    (23, 39, 62, 7, 32, 30), (23, 42, 54, 7, 40, 1), (23, 43, 67, 14, 29, 28), (23, 47, 51, 15, 32, 17),
    (23, 47, 54, 15, 32, 18), (23, 47, 63, 15, 32, 21), (23, 54, 58, 14, 34, 28), (23, 55, 60, 4, 39, 41),
    (23, 58, 63, 12, 24, 47), (24, 25, 31, 13, 20, 8), (24, 25, 62, 13, 20, 16), (24, 29, 42, 21, 5, 19),
    (24, 31, 45, 13, 8, 36), (24, 31, 55, 13, 8, 44), (24, 32, 46, 23, 5, 11), (24, 32, 50, 17, 21, 13),
    (24, 33, 43, 18, 19, 14), (24, 33, 67, 18, 14, 34), (24, 35, 36, 15, 17, 22), (24, 35, 49, 10, 14, 40),
    (24, 36, 55, 5, 22, 42), (24, 42, 58, 21, 19, 10), (24, 45, 49, 10, 18, 40), (24, 45, 61, 17, 7, 42),
    (24, 46, 64, 23, 11, 10), (24, 54, 55, 23, 7, 14), (24, 66, 67, 18, 28, 34), (25, 30, 49, 21, 13, 16),
    (25, 31, 37, 19, 19, 8), (25, 32, 41, 20, 10, 21), (25, 34, 40, 16, 26, 3), (25, 36, 49, 17, 12, 32),
    (25, 37, 41, 24, 10, 3), (25, 37, 62, 19, 8, 38), (25, 41, 48, 20, 21, 15), (25, 41, 64, 20, 21, 20),
    (25, 44, 51, 0, 19, 46), (25, 49, 60, 21, 16, 26), (25, 53, 58, 17, 37, 13), (26, 28, 67, 20, 9, 37),
    (26, 29, 57, 9, 21, 34), (26, 34, 58, 15, 21, 31), (26, 37, 53, 8, 26, 34), (26, 53, 66, 17, 36, 22),
    (26, 56, 67, 20, 18, 37), (26, 57, 58, 9, 34, 42), (26, 57, 65, 19, 25, 34), (26, 58, 68, 15, 31, 42),
    (27, 29, 46, 17, 14, 28), (27, 35, 50, 25, 4, 18), (27, 35, 51, 21, 16, 22), (27, 42, 55, 21, 19, 24),
    (27, 45, 57, 7, 43, 8), (27, 46, 47, 9, 30, 32), (27, 46, 58, 17, 28, 28), (27, 46, 65, 10, 41, 17),
    (27, 48, 51, 14, 41, 2), (27, 55, 56, 9, 36, 38), (27, 61, 65, 26, 4, 17), (28, 29, 40, 25, 6, 16),
    (28, 32, 41, 23, 14, 15), (28, 32, 58, 19, 22, 15), (28, 33, 43, 21, 19, 14), (28, 33, 67, 21, 14, 34),
    (28, 39, 67, 9, 30, 37), (28, 41, 48, 23, 15, 21), (28, 44, 67, 1, 43, 14), (28, 52, 67, 9, 40, 37),
    (28, 55, 58, 25, 22, 12), (28, 58, 65, 25, 12, 26), (28, 66, 67, 21, 28, 34), (29, 32, 42, 10, 8, 38),
    (29, 34, 38, 11, 3, 35), (29, 35, 61, 26, 9, 22), (29, 37, 64, 17, 21, 37), (29, 38, 68, 11, 35, 6),
    (29, 41, 65, 21, 15, 38), (29, 42, 52, 10, 38, 13), (29, 42, 59, 19, 14, 40), (29, 46, 53, 26, 18, 11),
    (29, 46, 54, 14, 28, 34), (29, 46, 63, 12, 24, 47), (29, 48, 59, 19, 16, 40), (29, 52, 57, 21, 18, 34),
    (29, 59, 66, 19, 40, 22), (30, 32, 49, 5, 27, 25), (30, 36, 49, 12, 15, 40), (30, 37, 38, 10, 24, 26),
    (30, 41, 48, 18, 28, 20), (30, 42, 68, 27, 17, 11), (30, 43, 67, 11, 40, 1), (30, 49, 50, 13, 16, 42),
    (30, 52, 53, 29, 9, 10), (31, 32, 49, 9, 17, 39), (31, 32, 65, 28, 7, 24), (31, 33, 34, 12, 17, 26),
    (31, 33, 61, 21, 11, 40), (31, 34, 66, 12, 26, 34), (31, 37, 50, 19, 8, 38), (31, 38, 54, 28, 2, 23),
    (31, 39, 46, 15, 32, 14), (31, 39, 66, 23, 16, 35), (31, 40, 64, 3, 38, 19), (31, 42, 52, 22, 20, 27),
    (31, 49, 64, 9, 39, 34), (31, 52, 63, 22, 27, 30), (31, 54, 57, 28, 23, 3), (31, 64, 65, 28, 14, 24),
    (32, 33, 67, 24, 14, 34), (32, 34, 49, 9, 1, 47), (32, 35, 36, 20, 17, 22), (32, 35, 63, 13, 23, 40),
    (32, 39, 59, 22, 23, 25), (32, 41, 50, 10, 21, 40), (32, 43, 44, 4, 21, 38), (32, 44, 54, 25, 14, 29),
    (32, 49, 54, 27, 25, 9), (32, 49, 62, 17, 39, 18), (32, 49, 68, 9, 47, 2), (32, 54, 66, 25, 29, 21),
    (32, 66, 67, 24, 28, 34), (33, 35, 38, 3, 32, 15), (33, 36, 67, 14, 27, 34), (33, 37, 46, 8, 6, 44),
    (33, 37, 57, 11, 24, 39), (33, 40, 41, 11, 26, 28), (33, 40, 67, 14, 30, 34), (33, 41, 59, 29, 9, 25),
    (33, 42, 64, 27, 5, 36), (33, 43, 52, 19, 14, 39), (33, 43, 56, 19, 14, 42), (33, 43, 56, 30, 3, 23),
    (33, 44, 67, 14, 33, 34), (33, 45, 51, 28, 23, 7), (33, 46, 61, 26, 16, 31), (33, 47, 58, 6, 45, 13),
    (33, 48, 67, 14, 36, 34), (33, 49, 56, 25, 31, 9), (33, 49, 67, 27, 27, 11), (33, 51, 62, 17, 39, 24),
    (33, 52, 67, 14, 39, 34), (33, 56, 67, 14, 42, 34), (33, 60, 67, 14, 45, 34), (34, 38, 58, 3, 35, 22),
    (34, 44, 67, 30, 17, 18), (34, 49, 64, 1, 47, 18), (34, 52, 58, 21, 30, 31), (34, 53, 60, 32, 11, 16),
    (35, 38, 44, 32, 15, 4), (35, 38, 55, 32, 15, 5), (35, 38, 61, 17, 29, 26), (35, 38, 66, 32, 15, 6),
    (35, 40, 43, 5, 25, 33), (35, 42, 53, 19, 17, 39), (35, 43, 64, 5, 33, 40), (35, 49, 60, 14, 40, 25),
    (35, 53, 63, 29, 26, 17), (35, 63, 64, 23, 40, 26), (36, 38, 59, 19, 29, 22), (36, 39, 53, 7, 38, 6),
    (36, 42, 55, 28, 19, 24), (36, 53, 54, 23, 26, 32), (36, 55, 63, 27, 36, 6), (36, 58, 59, 12, 38, 40),
    (36, 58, 67, 25, 41, 9), (36, 66, 67, 27, 28, 34), (37, 39, 53, 26, 12, 34), (37, 46, 66, 6, 44, 16),
    (37, 50, 62, 8, 38, 38), (37, 52, 53, 26, 16, 34), (37, 53, 65, 26, 34, 20), (37, 55, 56, 12, 24, 47),
    (37, 58, 64, 21, 34, 37), (37, 67, 68, 28, 27, 35), (38, 46, 64, 7, 33, 43), (38, 55, 61, 1, 43, 38),
    (38, 58, 68, 35, 22, 6), (39, 46, 60, 38, 6, 11), (39, 46, 62, 32, 14, 30), (39, 48, 59, 23, 33, 25),
    (39, 52, 53, 20, 41, 18), (39, 55, 56, 13, 36, 38), (39, 56, 67, 30, 18, 37), (39, 59, 64, 23, 25, 44),
    (39, 62, 66, 16, 46, 35), (40, 42, 68, 36, 17, 11), (40, 62, 64, 38, 6, 19), (40, 66, 67, 30, 28, 34),
    (41, 41, 58, 29, 0, 41), (41, 45, 48, 21, 36, 15), (41, 45, 64, 21, 36, 20), (41, 47, 57, 29, 4, 40),
    (41, 48, 50, 6, 37, 31), (41, 48, 56, 25, 5, 44), (41, 48, 60, 28, 16, 39), (41, 49, 63, 14, 29, 46),
    (41, 53, 57, 39, 15, 7), (41, 53, 58, 29, 0, 41), (41, 58, 65, 15, 42, 38), (42, 44, 64, 33, 27, 5),
    (42, 45, 55, 19, 35, 24), (42, 46, 54, 40, 14, 1), (42, 49, 50, 14, 32, 34), (42, 50, 68, 17, 45, 11),
    (42, 52, 62, 20, 27, 44), (42, 54, 55, 19, 42, 24), (42, 55, 60, 4, 36, 45), (43, 44, 56, 3, 40, 23),
    (43, 44, 57, 28, 30, 19), (43, 46, 67, 29, 28, 28), (43, 52, 66, 14, 39, 38), (43, 56, 63, 33, 35, 9),
    (43, 60, 67, 40, 22, 1), (44, 49, 67, 36, 27, 11), (44, 51, 67, 17, 45, 18), (44, 51, 68, 19, 46, 0),
    (44, 56, 67, 43, 2, 14), (44, 59, 67, 7, 45, 42), (44, 66, 67, 33, 28, 34), (45, 47, 57, 34, 26, 20),
    (45, 48, 49, 18, 20, 40), (45, 48, 61, 7, 34, 42), (45, 51, 68, 7, 43, 35), (45, 52, 56, 44, 7, 9),
    (45, 53, 57, 22, 46, 5), (45, 54, 57, 43, 14, 8), (45, 58, 59, 15, 38, 40), (46, 46, 51, 10, 21, 44),
    (46, 51, 67, 40, 25, 4), (46, 54, 58, 28, 34, 28), (46, 54, 65, 41, 20, 17), (46, 58, 63, 24, 24, 47),
    (47, 48, 48, 46, 4, 9), (47, 55, 58, 45, 10, 13), (48, 49, 60, 20, 40, 24), (48, 51, 54, 41, 2, 28),
    (48, 53, 55, 31, 37, 17), (48, 54, 55, 46, 7, 14), (48, 55, 62, 26, 44, 16), (48, 55, 63, 36, 36, 6),
    (48, 66, 67, 36, 28, 34), (49, 50, 51, 32, 34, 17), (49, 50, 60, 16, 42, 26), (49, 50, 66, 32, 34, 22),
    (49, 55, 67, 27, 45, 11), (49, 62, 64, 39, 18, 34), (49, 64, 68, 47, 18, 2), (50, 53, 58, 34, 37, 13),
    (50, 59, 61, 21, 45, 30), (51, 55, 56, 17, 36, 38), (52, 53, 63, 34, 36, 21), (52, 56, 67, 40, 18, 37),
    (52, 57, 58, 18, 34, 42), (52, 57, 65, 38, 25, 34), (52, 58, 68, 30, 31, 42), (52, 62, 63, 27, 44, 30),
    (52, 66, 67, 39, 28, 34), (55, 58, 60, 46, 15, 29), (56, 66, 67, 42, 28, 34), (60, 66, 67, 45, 28, 34),
    (61, 62, 63, 40, 42, 21),
]


def near_miss(entry):
    """-> (radii, offset, sign, relative distance) recomputed exactly; sign +1 = just outside, -1 = just inside"""
    rx, ry, rz, i, j, k = (int(v) for v in entry)
    lhs = i * i * (ry * rz) ** 2 + j * j * (rx * rz) ** 2 + k * k * (rx * ry) ** 2
    rhs = (rx * ry * rz) ** 2
    d = lhs - rhs
    return (rx, ry, rz), (i, j, k), (1 if d > 0 else -1), abs(d) / rhs


NEAR_REL = 2.5e-7


def count_near(lhs, rhs):
    """number of voxels whose integer lhs misses rhs by less than NEAR_REL * rhs without being equal"""
    d = np.abs(lhs - rhs)
    return int(((d > 0) & (d * 4000000 <= rhs)).sum())
