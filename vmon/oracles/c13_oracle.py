"""Independent reference for C13 (masks): analytic membership in exact integer arithmetic, set algebra on booleans.

Nothing here imports cryoCAT.  All geometry is brute force over np.indices with int64 values; radii may be rationals
(half-integers come out of the shell functions) and are handled through an exact integer threshold floor(r^2).
Indexing convention: mask[i, j, k] with i <-> x (axis 0), j <-> y (axis 1), k <-> z (axis 2); centre and radii are given
per axis in that order; default centre = floor(N/2) per axis.
"""
import re
from fractions import Fraction

import numpy as np

BOX_MIN, BOX_MAX = 6, 48            # the property's quantifier
SIGMA_MAX = 3.0
RANGE_TOL = 1e-9
CORE_TOL = 1e-3


# ---- reading of user parameters (size / centre / radii) -------------------------------------------------
def _integral(v):
    try:
        if isinstance(v, (bool, np.bool_)):
            return None
        f = float(v)
    except Exception:
        return None
    if f != f or abs(f) > 1e6 or f != int(f):
        return None
    return int(f)


def triple(v):
    """scalar -> (v,v,v); length-1 -> repeated; length-3 -> as is; integral values only.  None if not such a value."""
    if v is None:
        return None
    if isinstance(v, (list, tuple, np.ndarray)):
        seq = list(np.asarray(v).ravel()) if isinstance(v, np.ndarray) else list(v)
        if len(seq) == 1:
            seq = seq * 3
        if len(seq) != 3:
            return None
        out = [_integral(x) for x in seq]
    else:
        x = _integral(v)
        out = [x, x, x]
    if any(x is None for x in out):
        return None
    return tuple(out)


def box_ok(N, even=False):
    return N is not None and all(BOX_MIN <= n <= BOX_MAX for n in N) and (not even or all(n % 2 == 0 for n in N))


def centre_of(center, N):
    """requested centre (integral, inside the box) or the documented default floor(N/2); None if outside the quantifier"""
    if center is None:
        return tuple(n // 2 for n in N)
    c = triple(center)
    if c is None or not all(0 <= c[a] < N[a] for a in range(3)):
        return None
    return c


def rational(v, max_den=1024):
    """exact value of a (float/int) parameter as a Fraction with a small denominator, else None"""
    try:
        if isinstance(v, (bool, np.bool_)) or isinstance(v, (list, tuple, np.ndarray)):
            return None
        f = Fraction(float(v)) if not isinstance(v, (int, np.integer)) else Fraction(int(v))
    except Exception:
        return None
    if f.denominator > max_den or abs(f) > 10 ** 6:
        return None
    return f


def sigma_of(g):
    """(sigma as float) if 0 <= sigma <= 3 else None"""
    try:
        if isinstance(g, (bool, np.bool_, list, tuple, np.ndarray)):
            return None
        s = float(g)
    except Exception:
        return None
    if not (0.0 <= s <= SIGMA_MAX):
        return None
    return s


def no_rotation(angles):
    if angles is None:
        return True
    try:
        a = np.asarray(angles, dtype=float)
    except Exception:
        return False
    return bool(np.all(a == 0))


# ---- analytic membership ---------------------------------------------------------------------------------
def grids(N):
    return np.indices(N, dtype=np.int64)


def sphere(N, c, r):
    """voxels with (i-cx)^2+(j-cy)^2+(k-cz)^2 <= r^2, r a Fraction >= 0 (exact: d2 integer <= floor(r^2))"""
    I, J, K = grids(N)
    d2 = (I - c[0]) ** 2 + (J - c[1]) ** 2 + (K - c[2]) ** 2
    T = (r.numerator * r.numerator) // (r.denominator * r.denominator)
    return d2 <= T, d2, T


def cylinder(N, c, r, half_height):
    """planar (x,y) distance <= r and |k-cz| <= half_height (already floor(h/2))"""
    I, J, K = grids(N)
    d2 = (I - c[0]) ** 2 + (J - c[1]) ** 2
    T = (r.numerator * r.numerator) // (r.denominator * r.denominator)
    return (d2 <= T) & (np.abs(K - c[2]) <= int(half_height)), d2, T


def ellipsoid(N, c, radii):
    """sum_a ((idx_a - c_a)/r_a)^2 <= 1 with integer radii >= 1, cross-multiplied (no division)"""
    rx, ry, rz = (int(v) for v in radii)
    I, J, K = grids(N)
    lhs = ((I - c[0]) ** 2) * (ry * rz) ** 2 + ((J - c[1]) ** 2) * (rx * rz) ** 2 + ((K - c[2]) ** 2) * (rx * ry) ** 2
    rhs = (rx * ry * rz) ** 2
    return lhs <= rhs, lhs, rhs


def floor_half(h):
    """floor(h/2) for a rational h >= 0"""
    q = h / 2
    return q.numerator // q.denominator


# ---- comparison helpers ----------------------------------------------------------------------------------
def compare_hard(result, N, expected):
    """-> None or witness: `result` must be an array of shape N with values exactly 0/1 whose support is `expected`."""
    a = np.asarray(result)
    if a.shape != tuple(N):
        return {"what": "shape", "got": list(a.shape), "expected": list(N)}
    if a.dtype == bool:
        got = a
    else:
        if not np.all((a == 0) | (a == 1)):
            idx = tuple(int(v) for v in np.argwhere(~((a == 0) | (a == 1)))[0])
            return {"what": "hard-edged mask holds a value other than 0/1", "voxel": idx, "value": float(a[idx])}
        got = a != 0
    bad = got != expected
    if not bad.any():
        return None
    idx = tuple(int(v) for v in np.argwhere(bad)[0])
    return {"what": "membership", "voxel": idx, "mask": bool(got[idx]), "inequality": bool(expected[idx]),
            "n_wrong": int(bad.sum()), "n_extra": int((got & ~expected).sum()), "n_missing": int((~got & expected).sum()),
            "n_expected": int(expected.sum())}


def compare_range(result, N):
    a = np.asarray(result, dtype=float)
    if a.shape != tuple(N):
        return {"what": "shape", "got": list(a.shape), "expected": list(N)}
    if not np.all(np.isfinite(a)):
        return {"what": "non-finite value in mask"}
    lo, hi = float(a.min()), float(a.max())
    if lo < -RANGE_TOL or hi > 1 + RANGE_TOL:
        return {"what": "range", "min": lo, "max": hi}
    return None


def compare_core(result, core):
    a = np.asarray(result, dtype=float)
    if a.shape != core.shape or not core.any():
        return None
    v = np.where(core, a, 2.0)
    idx = np.unravel_index(int(np.argmin(v)), v.shape)
    if a[idx] < 1 - CORE_TOL:
        return {"what": "core voxel below 1-1e-3 after outward blur", "voxel": tuple(int(x) for x in idx), "value": float(a[idx]),
                "n_core": int(core.sum()), "n_below": int((core & (a < 1 - CORE_TOL)).sum())}
    return None


def ellipsoid_depth(N, c, radii, pad):
    """For every voxel of box N: Euclidean distance (voxels) from the voxel to the nearest lattice point that violates the
    ellipsoid inequality (lattice extended `pad` voxels beyond every face; 0 for voxels outside the ellipsoid)."""
    from scipy import ndimage
    Np = tuple(int(n) + 2 * pad for n in N)
    cp = tuple(int(v) + pad for v in c)
    inside = ellipsoid(Np, cp, radii)[0]
    depth = ndimage.distance_transform_edt(inside)
    sl = tuple(slice(pad, pad + int(n)) for n in N)
    return depth[sl]


# ---- shape strings ---------------------------------------------------------------------------------------
_NAME = re.compile(r"\A([a-z_]+?)((?:_[a-z]+[0-9]+)+)\Z")


def parse_name(s):
    """own reading of 'sphere_r5', 'cylinder_r3_h7', 's_shell_r8_s2', 'ellipsoid_rx4_ry5_rz6', 'e_shell_rx..._s2'
    -> (kind, {key: int}) or None"""
    if not isinstance(s, str):
        return None
    m = _NAME.match(s)
    if not m:
        return None
    kind = m.group(1)
    vals = {}
    keys = []
    for tok in m.group(2).strip("_").split("_"):
        mm = re.match(r"\A([a-z]+)([0-9]+)\Z", tok)
        if not mm or mm.group(1) in vals:
            return None
        vals[mm.group(1)] = int(mm.group(2))
        keys.append(mm.group(1))
    want = {"sphere": ["r"], "cylinder": ["r", "h"], "s_shell": ["r", "s"], "ellipsoid": ["rx", "ry", "rz"],
            "e_shell": ["rx", "ry", "rz", "s"]}.get(kind)
    if want is None or keys != want:
        return None
    return kind, vals


# ---- mask lists ------------------------------------------------------------------------------------------
def is_binary(a):
    a = np.asarray(a)
    if a.dtype == bool:
        return True
    return bool(np.all((a == 0) | (a == 1)))


def fold(kind, bools):
    """voxel-wise OR / AND / sequential AND-NOT over a list of boolean arrays"""
    out = bools[0].copy()
    for b in bools[1:]:
        if kind == "union":
            out |= b
        elif kind == "intersection":
            out &= b
        elif kind == "subtraction":
            out &= ~b
        else:
            raise ValueError(kind)
    return out
