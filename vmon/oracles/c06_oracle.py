"""Independent SO(3) reference code for C06 (pure numpy on top of vmon.oracles.so3; no scipy, no cryoCAT).

Conventions (DESIGN.md section 3): orientation of Euler triple (phi, theta, psi) is R = Rz(psi) . Rx(theta) . Rz(phi),
image of the z-axis = third column of R = (sin(theta) sin(psi), -sin(theta) cos(psi), cos(theta)).
"""
import itertools

import numpy as np

from vmon.oracles import so3


# ---- ground truth ------------------------------------------------------------------------------------
def rel_angle(M1, M2):
    """rotation angle (degrees) of M1^T M2, row-wise; atan2 form, well conditioned at 0 and at 180."""
    return so3.angle_deg(np.swapaxes(M1, -1, -2) @ M2)


def z_image(M):
    return np.asarray(M)[..., :, 2]


def cone_angle(M1, M2):
    """angle (degrees) between the images of the z-axis, atan2(|u x v|, u.v)."""
    return so3.angle_between(z_image(M1), z_image(M2))


def tol_angle(theta):
    """Absolute tolerance (degrees) for an angle that cryoCAT obtains through acos.

    acos is ill-conditioned at the ends: an error e in the cosine gives sqrt(2e) at 0/180 and e/sin(theta) elsewhere.
    Measured on the correct code (2e5 pairs per scale): <= 4.2e-6 deg at the ends, <= 1.7e-11/theta deg^2 elsewhere.
    Tolerance = min(1e-4, 1e-9 + 1e-9/dist_to_end): >= 20x the measured error everywhere, 1e-4 deg at the ends
    (the value fixed in DESIGN.md section 3), 1e-9 deg in mid range."""
    t = np.asarray(theta, dtype=float)
    d = np.maximum(np.minimum(t, 180.0 - t), 1e-300)
    return np.minimum(1e-4, 1e-9 + 1e-9 / d)


def unit_rows(v):
    """row-wise normalisation that cannot over/underflow (scale by the largest component first)."""
    v = np.asarray(v, dtype=float)
    m = np.max(np.abs(v), axis=1, keepdims=True)
    w = v / m
    return w / np.sqrt(np.sum(w * w, axis=1, keepdims=True))


def euler_to_mats(E):
    return so3.zxz_rows(E)


def mats_to_euler(M):
    phi, theta, psi = so3.to_zxz(M)
    return np.column_stack([phi, theta, psi])


def is_rotation(M, tol=1e-9):
    M = np.asarray(M)
    I = np.swapaxes(M, -1, -2) @ M
    return bool(np.all(np.abs(I - np.eye(3)) < tol) and np.all(np.linalg.det(M) > 0))


# ---- constructions -----------------------------------------------------------------------------------
def axis_angle_rows(axes, degs):
    """Rodrigues formula, vectorised: axes (n,3) (any length > 0), degs (n,) -> (n,3,3)."""
    a = np.asarray(axes, dtype=float)
    a = a / np.linalg.norm(a, axis=1, keepdims=True)
    t = np.radians(np.asarray(degs, dtype=float))
    n = len(a)
    K = np.zeros((n, 3, 3))
    K[:, 0, 1] = -a[:, 2]; K[:, 0, 2] = a[:, 1]
    K[:, 1, 0] = a[:, 2]; K[:, 1, 2] = -a[:, 0]
    K[:, 2, 0] = -a[:, 1]; K[:, 2, 1] = a[:, 0]
    s = np.sin(t)[:, None, None]
    # 1 - cos(t) = 2 sin^2(t/2): keeps tiny angles exact
    c1 = (2.0 * np.sin(t / 2.0) ** 2)[:, None, None]
    return np.eye(3)[None] + s * K + c1 * (K @ K)


def mats_to_quat(M):
    """(n,3,3) -> unit quaternions (x,y,z,w), Shepperd's method (largest of w,x,y,z as pivot); sign arbitrary."""
    M = np.asarray(M, dtype=float)
    n = len(M)
    q = np.empty((n, 4))
    tr = M[:, 0, 0] + M[:, 1, 1] + M[:, 2, 2]
    cand = np.column_stack([M[:, 0, 0], M[:, 1, 1], M[:, 2, 2], tr])
    k = np.argmax(cand, axis=1)
    for j in range(n):
        m = M[j]
        if k[j] == 3:
            w = 0.5 * np.sqrt(max(1.0 + tr[j], 0.0))
            q[j] = [(m[2, 1] - m[1, 2]) / (4 * w), (m[0, 2] - m[2, 0]) / (4 * w), (m[1, 0] - m[0, 1]) / (4 * w), w]
        elif k[j] == 0:
            x = 0.5 * np.sqrt(max(1.0 + m[0, 0] - m[1, 1] - m[2, 2], 0.0))
            q[j] = [x, (m[0, 1] + m[1, 0]) / (4 * x), (m[0, 2] + m[2, 0]) / (4 * x), (m[2, 1] - m[1, 2]) / (4 * x)]
        elif k[j] == 1:
            y = 0.5 * np.sqrt(max(1.0 - m[0, 0] + m[1, 1] - m[2, 2], 0.0))
            q[j] = [(m[0, 1] + m[1, 0]) / (4 * y), y, (m[1, 2] + m[2, 1]) / (4 * y), (m[0, 2] - m[2, 0]) / (4 * y)]
        else:
            z = 0.5 * np.sqrt(max(1.0 - m[0, 0] - m[1, 1] + m[2, 2], 0.0))
            q[j] = [(m[0, 2] + m[2, 0]) / (4 * z), (m[1, 2] + m[2, 1]) / (4 * z), z, (m[1, 0] - m[0, 1]) / (4 * z)]
    q /= np.linalg.norm(q, axis=1, keepdims=True)
    return q


def quat_to_mats(q):
    q = np.asarray(q, dtype=float)
    q = q / np.linalg.norm(q, axis=1, keepdims=True)
    return so3.quat_to_matrix(q)


_CUBE = None


def cube_mats():
    global _CUBE
    if _CUBE is None:
        _CUBE = np.array(so3.cube_rotations(), dtype=float)
        assert _CUBE.shape == (24, 3, 3)
    return _CUBE


def euler_lattice():
    """the full 45-degree Euler lattice: phi in 0..315 (8), theta in 0..180 (5), psi in 0..315 (8) -> (320,3)"""
    return np.array([[p, t, s] for p, t, s in itertools.product(np.arange(8) * 45.0, np.arange(5) * 45.0, np.arange(8) * 45.0)])


def first_bad(mask):
    idx = np.flatnonzero(mask)
    return int(idx[0]) if idx.size else None
