"""Independent reference code for C16 (dose filtering = Grant-Grigorieff exposure attenuation).

Nothing here calls cryoCAT, numpy.fft or any shift helper: the 2-D DFT is an explicit matrix product, the frequency of a
DFT bin is written out from signed integer indices, and dose sources (text, csv, xml, mdoc) are parsed with plain string
operations.
"""
import csv
import re

import numpy as np

# the statement's constants: attenuation = exp(-dose / (2 * (A * f**B + C)))
A = 0.245
B = -1.665
C = 2.81

_DFT = {}


def dft_index(n):
    """signed integer frequency index of DFT bin k (fftfreq convention: 0..ceil(n/2)-1, then negative)."""
    k = np.arange(n)
    k = np.where(k > (n - 1) // 2, k - n, k)
    return k


def dft_matrix(n):
    m = _DFT.get(n)
    if m is None:
        jk = np.outer(np.arange(n), np.arange(n)) % n          # exact integer reduction of the phase
        m = np.exp(-2j * np.pi * jk / n)
        _DFT[n] = m
    return m


def dft2(x):
    """2-D DFT over the last two axes of a real array (..., H, W) in float64/complex128."""
    x = np.asarray(x, dtype=np.float64)
    H, W = x.shape[-2:]
    return dft_matrix(H) @ x @ dft_matrix(W).T


def idft2(F):
    """inverse of dft2 (complex result), same explicit matrices"""
    H, W = F.shape[-2:]
    return (np.conj(dft_matrix(H)) @ F @ np.conj(dft_matrix(W)).T) / float(H * W)


def freq(H, W, pixel):
    """f [cycles/Angstrom] of every DFT bin (ky, kx) of an H x W image with the given pixel size."""
    ky = dft_index(H).astype(np.float64)[:, None] / (H * float(pixel))
    kx = dft_index(W).astype(np.float64)[None, :] / (W * float(pixel))
    return np.sqrt(kx * kx + ky * ky)


def gain_of_f(f, dose):
    f = np.asarray(f, dtype=np.float64)
    g = np.ones(f.shape)
    nz = f > 0
    crit = A * np.power(f[nz], B) + C
    g[nz] = np.exp(-float(dose) / (2.0 * crit))
    return g


def gain(H, W, pixel, dose):
    return gain_of_f(freq(H, W, pixel), dose)


def gain_scalar(H, W, pixel, dose, ky, kx):
    f = float(np.hypot(kx / (W * float(pixel)), ky / (H * float(pixel))))
    if f == 0:
        return 1.0
    return float(np.exp(-float(dose) / (2.0 * (A * f ** B + C))))


def uncentre(freq_centred):
    """A centred array (zero frequency at index n//2 on both axes) re-indexed to DFT bin layout, by index arithmetic."""
    H, W = freq_centred.shape
    iy = (np.arange(H) + H // 2) % H
    ix = (np.arange(W) + W // 2) % W
    return np.asarray(freq_centred, dtype=np.float64)[np.ix_(iy, ix)]


def to_nyx(a, order):
    """array in the declared order -> (n, y, x); a single 2-D image ([x, y] resp. [y, x]) counts as a one-image stack"""
    a = np.asarray(a)
    if a.ndim == 2:
        return (a.T if order == "xyz" else a)[None]
    return a.transpose(2, 1, 0) if order == "xyz" else a


def from_nyx(a, order):
    return np.ascontiguousarray(a.transpose(2, 1, 0)) if order == "xyz" else np.array(a, copy=True)


def plane_wave(H, W, ky, kx, phase, amp=1.0, offset=0.0):
    y = np.arange(H)[:, None]
    x = np.arange(W)[None, :]
    return offset + amp * np.cos(2.0 * np.pi * (kx * x / W + ky * y / H) + phase)


# ---- dose sources ---------------------------------------------------------------------------------
def doses_from_text(path):
    return np.array([float(t) for t in open(path).read().split()], dtype=np.float64)


def doses_from_csv(path):
    rows = list(csv.reader(open(path, newline="")))
    hdr = rows[0]
    if "CorrectedDose" not in hdr:
        return None
    c = hdr.index("CorrectedDose")
    r = hdr.index("Removed") if "Removed" in hdr else None
    out = []
    for row in rows[1:]:
        if not row:
            continue
        if r is not None:
            flag = row[r].strip()
            if flag not in ("True", "False"):
                return None
            if flag == "True":
                continue
        out.append(float(row[c]))
    return np.array(out, dtype=np.float64)


def doses_from_xml(path):
    m = re.search(r"<Dose>(.*?)</Dose>", open(path).read(), re.S)
    if not m:
        return None
    return np.array([float(t) for t in m.group(1).split()], dtype=np.float64)


def doses_from_mdoc(path):
    """prior + exposure dose per section, sections ordered by ascending tilt angle.  None when the file is outside what
    is judged (a section without PriorRecordDose, tied tilt angles)."""
    secs = []
    cur = None
    for line in open(path).read().splitlines():
        s = line.strip()
        if s.startswith("[ZValue"):
            cur = {}
            secs.append(cur)
        elif cur is not None and "=" in s and not s.startswith("["):
            k, v = s.split("=", 1)
            cur[k.strip()] = v.strip()
    if not secs:
        return None
    try:
        t = [float(s["TiltAngle"]) for s in secs]
        d = [float(s["ExposureDose"]) + float(s["PriorRecordDose"]) for s in secs]
    except (KeyError, ValueError):
        return None
    if len(set(t)) != len(t):
        return None
    order = sorted(range(len(t)), key=lambda i: t[i])
    return np.array([d[i] for i in order], dtype=np.float64)


def resolve_doses(total_dose):
    """-> float64 vector or None (not judged)"""
    try:
        if isinstance(total_dose, np.ndarray):
            if total_dose.ndim == 1 and total_dose.dtype.kind == "O":      # e.g. what the mdoc loader hands back
                if not all(isinstance(v, (int, float, np.integer, np.floating)) and not isinstance(v, bool) for v in total_dose):
                    return None
                return np.array([float(v) for v in total_dose], dtype=np.float64)
            if total_dose.ndim != 1 or total_dose.dtype.kind not in "fiu":
                return None
            return total_dose.astype(np.float64)
        if isinstance(total_dose, list):
            a = np.asarray(total_dose)
            if a.ndim != 1 or a.dtype.kind not in "fiu":
                return None
            return a.astype(np.float64)
        if isinstance(total_dose, str):
            if total_dose.endswith(".csv"):
                return doses_from_csv(total_dose)
            if total_dose.endswith(".mdoc"):
                return doses_from_mdoc(total_dose)
            if total_dose.endswith(".xml"):
                return doses_from_xml(total_dose)
            return doses_from_text(total_dose)
    except Exception:
        return None
    return None
