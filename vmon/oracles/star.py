"""Independent STAR tokenizer / writer (no cryocat.starfileio).

Grammar accepted (the property's "permitted places"): data blocks with one loop each; blank lines and '#' comment lines
may precede a block, sit between the block name and loop_, follow the column labels or separate blocks; labels may carry
a trailing '#n' comment; row tokens are separated by arbitrary spaces or tabs; one row per line; LF or CRLF.
"""
import re

NUM_RE = re.compile(r"^[+-]?(\d+\.?\d*|\.\d+)([eE][+-]?\d+)?$")
INT_RE = re.compile(r"^[+-]?\d+$")
RESERVED_PREFIX = ("data_", "save_", "loop_", "global_", "stop_")
PANDAS_SPECIAL = {"nan", "na", "n/a", "null", "none", "inf", "infinity", "true", "false", "<na>", "#n/a", "#na", "nat"}


def is_numeric_token(t):
    return bool(NUM_RE.match(t))


def bad_text_token(t):
    """tokens that are outside the property's quantifier as text cells"""
    tl = t.lower().lstrip("+-")
    return (t == "" or any(ch.isspace() for ch in t) or "#" in t or t.startswith("_") or tl in PANDAS_SPECIAL
            or t == "loop_" or "_" in t and t.replace("_", "").replace(".", "").lstrip("+-").isdigit())


def tokenize(text):
    """-> list of blocks dict(name, labels, numbers, rows[list of token lists]); raises ValueError on a layout outside the grammar."""
    lines = re.split(r"\r\n|\n", text)
    blocks = []
    state = "seek_block"
    cur = None
    for ln, raw in enumerate(lines, 1):
        hashpos = raw.find("#")
        comment = None
        body = raw
        if hashpos >= 0:
            body, comment = raw[:hashpos], raw[hashpos + 1:]
        toks = body.split()
        if not toks:
            if state == "rows" and cur["rows"]:
                state = "seek_block"
            elif state == "labels" and cur["labels"]:
                state = "rows"
            continue
        first = toks[0]
        in_table = state in ("labels", "rows") and cur is not None and cur["labels"]
        if first.startswith("data_") and in_table and len(cur["labels"]) > 1 and len(toks) == len(cur["labels"]) and comment is None:
            pass        # a table row whose first cell merely looks like a block name (e.g. data_001.mrc)
        elif first.startswith("data_") and state in ("seek_block", "rows", "labels"):
            if in_table and len(cur["labels"]) == 1 and len(toks) == 1 and cur["rows"] and state == "rows":
                raise ValueError("line %d: ambiguous: data_* token in a one-column table" % ln)
            if len(toks) != 1:
                raise ValueError("line %d: junk after block name" % ln)
            cur = {"name": first, "labels": [], "numbers": [], "rows": []}
            blocks.append(cur)
            state = "seek_loop"
            continue
        if state == "seek_loop":
            if toks == ["loop_"] and comment is None:
                state = "labels"
                continue
            raise ValueError("line %d: expected loop_" % ln)
        if state == "labels" and first.startswith("_"):
            if len(toks) != 1:
                raise ValueError("line %d: junk after label" % ln)
            cur["labels"].append(first[1:])
            m = re.match(r"^\s*(\d+)\s*$", comment) if comment is not None else None
            cur["numbers"].append(int(m.group(1)) if m else None)
            continue
        if state in ("labels", "rows") and cur is not None and cur["labels"]:
            if comment is not None:
                raise ValueError("line %d: comment inside a row" % ln)
            if len(toks) != len(cur["labels"]):
                raise ValueError("line %d: %d tokens for %d columns" % (ln, len(toks), len(cur["labels"])))
            cur["rows"].append(toks)
            state = "rows"
            continue
        raise ValueError("line %d: unexpected %r in state %s" % (ln, raw, state))
    return blocks


def column_kind(tokens):
    """'int' / 'float' / 'text' for the tokens of one column (empty column: 'empty')"""
    if not tokens:
        return "empty"
    if all(INT_RE.match(t) for t in tokens):
        return "int"
    if all(NUM_RE.match(t) for t in tokens):
        return "float"
    return "text"
