"""Shared generators for particle tables (pure numpy/pandas; no cryoCAT code)."""
import numpy as np
import pandas as pd

from vmon.oracles import so3

COLS = ["score", "geom1", "geom2", "subtomo_id", "tomo_id", "object_id", "subtomo_mean", "x", "y", "z",
        "shift_x", "shift_y", "shift_z", "geom3", "geom4", "geom5", "phi", "psi", "theta", "class"]
assert len(COLS) == 20


def motl_table(rng, n, tomos=1, ori="mixed", pos_scale=200.0, shifts=True, signed=False, integer_pos=False,
               unique_ids=True, tags=False):
    """A 20-field table in canonical column order, float64."""
    d = {c: np.zeros(n) for c in COLS}
    d["score"] = rng.uniform(0, 1, n).round(6)
    d["geom1"] = rng.uniform(-5, 5, n).round(4)
    d["geom2"] = rng.integers(0, 5, n).astype(float)
    ids = rng.permutation(np.arange(1, n + 1) + int(rng.integers(0, 50))) if unique_ids else rng.integers(1, max(2, n // 2 + 1), n)
    d["subtomo_id"] = ids.astype(float)
    tl = rng.choice(np.arange(1, 60), size=tomos, replace=False)
    d["tomo_id"] = rng.choice(tl, n).astype(float)
    d["object_id"] = rng.integers(1, 5, n).astype(float)
    d["subtomo_mean"] = (np.arange(n) + 1000.0) if tags else rng.integers(0, 3, n).astype(float)
    lo = -pos_scale if signed else 1.0
    p = rng.uniform(lo, pos_scale, (n, 3))
    if integer_pos:
        p = np.round(p)
    d["x"], d["y"], d["z"] = p[:, 0], p[:, 1], p[:, 2]
    if shifts:
        s = rng.uniform(-3, 3, (n, 3))
        d["shift_x"], d["shift_y"], d["shift_z"] = s[:, 0], s[:, 1], s[:, 2]
    d["geom3"] = rng.integers(0, 100, n).astype(float)
    d["geom4"] = rng.uniform(0, 10, n).round(3)
    d["geom5"] = rng.integers(0, 9, n).astype(float)
    a = so3.random_euler(rng, n, ori)
    d["phi"], d["theta"], d["psi"] = a[:, 0], a[:, 1], a[:, 2]
    d["class"] = rng.integers(1, 4, n).astype(float)
    return pd.DataFrame(d, columns=COLS)


def positions(df):
    return df[["x", "y", "z"]].to_numpy(float) + df[["shift_x", "shift_y", "shift_z"]].to_numpy(float)


def rotations(df):
    return so3.zxz(df["phi"].to_numpy(float), df["theta"].to_numpy(float), df["psi"].to_numpy(float))


def table_summary(df, k=2):
    return {"n": int(len(df)), "columns": list(df.columns)[:6], "head": df.head(k).round(4).to_dict("records")}
