"""pytest plugin: run cryoCAT's own test suite (on a scratch copy) with the call monitors of one or more property modules
attached, as an additional workload for the thorough tier.  The tests deliberately pass malformed inputs; the monitors'
`applicable` predicates decide what is judged, so a monitor that fires here is either too strict or a defect the tests do
not assert.   usage:  cd <scratch copy of repo> && VMON_RIDE_PROPS=C01,C05 VMON_RIDE_OUT=<dir> PYTHONPATH=/verif pytest -p vmon.ridealong
"""
import json
import os

from vmon import core


class _NullTracer:
    def add(self, *a, **k):
        pass

    def report(self):
        return {}


_CTXS = []


def pytest_configure(config):
    props = [p for p in os.environ.get("VMON_RIDE_PROPS", "").split(",") if p]
    repo = os.getcwd()
    core.import_cryocat(repo)
    for p in props:
        mod = core.load_prop(p)
        ctx = core.Ctx(p, "thorough", int(os.environ.get("VERIF_SEED", "0") or 0), repo=repo, replaying=True)
        ctx.tracer = _NullTracer()
        ctx.scratch = os.environ.get("VMON_RIDE_OUT", ".")
        ctx.cur = {"index": "ridealong", "cls": "cryocat-own-tests"}
        try:
            mod.setup(ctx)
        except Exception as e:
            ctx.harness_error("ridealong setup", e)
        ctx.active = True
        _CTXS.append(ctx)


def pytest_runtest_setup(item):
    for ctx in _CTXS:
        ctx.cur = {"index": "ridealong", "cls": "cryocat-own-tests", "summary": {"test": item.nodeid}}
        ctx._case_violated = False
        ctx.active = True


def pytest_sessionfinish(session, exitstatus):
    out = os.environ.get("VMON_RIDE_OUT", ".")
    for ctx in _CTXS:
        ctx.active = False
        r = ctx.result()
        with open(os.path.join(out, "ride_%s.json" % ctx.prop), "w") as f:
            json.dump(r, f, default=str)
