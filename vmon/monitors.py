"""vmon.monitors - in-place call monitors (contracts on the real functions) and sys.monitoring anchor tracing.

Layer A of DESIGN.md 2.1.  A call monitor is (applicable, snapshot, post); `post` records verdicts through
ctx.check and never raises into cryoCAT, so a violation cannot change the execution it observes.
"""
import collections
import functools
import inspect
import os
import sys


def _unwrap_descriptor(owner, attr):
    raw = owner.__dict__[attr] if isinstance(owner, type) else getattr(owner, attr)
    kind = None
    fn = raw
    if isinstance(raw, staticmethod):
        kind, fn = "static", raw.__func__
    elif isinstance(raw, classmethod):
        kind, fn = "class", raw.__func__
    return kind, fn


def wrap(ctx, owner, attr, name, post, applicable=None, snapshot=None):
    """Replace owner.attr by a monitored version (class attribute or module attribute), so calls made from
    inside cryoCAT are observed too.  Returns the original function (for tracing)."""
    kind, fn = _unwrap_descriptor(owner, attr)
    sig = inspect.signature(fn)
    ctx.declare(name)

    bypass_internal = bool(os.environ.get("VERIF_BYPASS_INTERNAL"))

    @functools.wraps(fn)
    def monitored(*a, **k):
        if not ctx.active:
            return fn(*a, **k)
        if bypass_internal and str(sys._getframe(1).f_globals.get("__name__", "")).startswith("cryocat"):
            # self-audit mode (tools/audit_call_structure.sh): behave as if cryoCAT's own code reached this function through a
            # private name - the monitor sees only the calls made from outside the package.  A check that turns inconclusive in
            # this mode has a floor that depends on cryoCAT's internal call structure.
            return fn(*a, **k)
        A = OLD = None
        judged = False
        try:
            ctx.active = False
            ba = sig.bind(*a, **k)
            ba.apply_defaults()
            A = dict(ba.arguments)
            if applicable is None or applicable(A):
                judged = True
                OLD = snapshot(A) if snapshot is not None else None
            else:
                ctx.ood(name)
        except Exception as e:           # malformed call (the callee will raise too) or monitor fault
            judged = False
            if not isinstance(e, TypeError):
                ctx.harness_error("monitor-pre:" + name, e)
        finally:
            ctx.active = True
        result = fn(*a, **k)             # exceptions propagate unchanged
        if judged:
            try:
                ctx.active = False
                post(ctx, A, OLD, result)
            except Exception as e:
                ctx.harness_error("monitor-post:" + name, e)
            finally:
                ctx.active = True
        return result

    monitored.__vmon_original__ = fn
    new = monitored
    if kind == "static":
        new = staticmethod(monitored)
    elif kind == "class":
        # classmethod: rebuild so that cls is passed through
        new = classmethod(monitored)
    setattr(owner, attr, new)
    return fn


def original(f):
    f = getattr(f, "__func__", f)
    while (hasattr(f, "__vmon_original__") or hasattr(f, "__wrapped__")) and not hasattr(f, "py_func"):
        f = getattr(f, "__vmon_original__", None) or f.__wrapped__
        f = getattr(f, "__func__", f)
    return f


class Tracer:
    """sys.monitoring (3.12) local PY_START + LINE events on the anchored code objects only.

    Lines are reported once and then DISABLEd, except *named branch* lines which keep counting.  Named
    branches are located by searching the function's source text at run time (never by line number)."""

    TOOL = 4

    def __init__(self, ctx):
        self.ctx = ctx
        self.anchors = collections.OrderedDict()
        self.bycode = {}
        self.mon = getattr(sys, "monitoring", None)
        if self.mon is None:
            ctx.notes.append("sys.monitoring unavailable: anchors not traced")
            return
        try:
            self.mon.use_tool_id(self.TOOL, "vmon")
        except ValueError:
            pass
        ev = self.mon.events
        self.mon.register_callback(self.TOOL, ev.PY_START, self._start)
        self.mon.register_callback(self.TOOL, ev.LINE, self._line)
        ctx.tracer = self

    def add(self, name, func, branches=None):
        if self.mon is None:
            return
        func = original(func)
        if hasattr(func, "py_func"):          # numba dispatcher: the Python body is not what executes
            self.ctx.notes.append("anchor %s is numba-compiled: line events not available" % name)
            return
        code = getattr(func, "__code__", None)
        if code is None:
            self.ctx.notes.append("anchor %s has no code object" % name)
            return
        lines = {l for (_, _, l) in code.co_lines() if l is not None and l != code.co_firstlineno}
        rec = {"calls": 0, "lines": lines, "hit": set(), "branch_lines": {}, "branches": collections.Counter()}
        if branches:
            try:
                src, first = inspect.getsourcelines(func)
            except OSError:
                src, first = [], 0
            for bname, needle in branches.items():
                occ = 0
                if isinstance(needle, tuple):
                    needle, occ = needle
                found = [first + j for j, s in enumerate(src) if needle in s and (first + j) in lines]
                rec["branches"][bname] = 0
                if len(found) > occ:
                    rec["branch_lines"].setdefault(found[occ], []).append(bname)
                    if len(found) > 1 and occ == 0 and not isinstance(branches[bname], tuple):
                        self.ctx.notes.append("named branch %s.%s: needle matches %d lines, first one used" % (name, bname, len(found)))
                else:
                    self.ctx.notes.append("named branch %s.%s not located in the current source" % (name, bname))
        self.anchors[name] = rec
        self.bycode[code] = rec
        ev = self.mon.events
        self.mon.set_local_events(self.TOOL, code, ev.PY_START | ev.LINE)

    def _start(self, code, offset):
        rec = self.bycode.get(code)
        if rec is not None:
            rec["calls"] += 1

    def _line(self, code, lineno):
        rec = self.bycode.get(code)
        if rec is None:
            return self.mon.DISABLE
        rec["hit"].add(lineno)
        b = rec["branch_lines"].get(lineno)
        if b:
            for n in b:
                rec["branches"][n] += 1
            return None
        return self.mon.DISABLE

    def report(self):
        return {n: {"calls": r["calls"], "lines_total": len(r["lines"]), "lines_hit": sorted(r["hit"] & r["lines"]),
                    "branches": dict(r["branches"])} for n, r in self.anchors.items()}


def trace(ctx, specs):
    """specs: list of (name, function, {branch: needle})"""
    tr = ctx.tracer or Tracer(ctx)
    for s in specs:
        name, func = s[0], s[1]
        tr.add(name, func, s[2] if len(s) > 2 else None)
    return tr


# ---- icontract attachment -------------------------------------------------------------------------
def icontract_or_none(ctx):
    try:
        import icontract
        return icontract
    except Exception as e:
        ctx.notes.append("icontract not importable (%s): own wrapper used everywhere" % type(e).__name__)
        return None


class InvariantBroken(Exception):
    pass


class PostBroken(Exception):
    pass
