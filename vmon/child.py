"""Child process of ./check: runs one shard and writes its result JSON."""
import json
import sys

from vmon import core


def main():
    prop, tier, seed, shard, nshards, repo, outp = sys.argv[1:8]
    only = None
    if len(sys.argv) > 8:
        only = sys.argv[8]
        only = int(only) if only.lstrip("-").isdigit() else only
    res = core.run_shard(prop, tier, int(seed), int(shard), int(nshards), repo, only_case=only)
    with open(outp + ".tmp", "w") as f:
        json.dump(res, f, default=str)
    import os
    os.replace(outp + ".tmp", outp)


if __name__ == "__main__":
    main()
