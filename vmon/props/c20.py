"""C20 - Membrane thickness pairs: one-to-one, forward, within range and cone.

Monitors (DESIGN.md 4/C20).  Every real call of memthick.measure_thickness_cpu is judged by a call monitor against a
brute-force (sources x targets) table computed BEFORE the call by vmon.oracles.c20_oracle (angle formulation, no KD-tree):
  pairs_admissible   every returned pair (i, j): i source, j target, 0 < |v| <= max, v.n_i > 0, angle(v, n_i) < max_angle
  one_to_one         valid measurements only on sources, no target used twice
  thickness_value    thickness[i] = |v| * voxel (float32: 1e-5 relative) and <= max_thickness
  greedy_maximal     no admissible pair with both ends unmatched; no matched source with a closer admissible unmatched target
  greedy_reference   the matching equals the unique matching obtained by taking admissible pairs by increasing distance
                     (judged only when conflicting pairs have no distance tie within 1e-9)
Relational (driver):
  rigid_motion       rotate+translate all points, rotate all normals: same valid mask / partners, same thickness
  voxel_scaling      voxel_size*s and max_thickness*s: same pairing, thickness*s
  direction_swap     direction='2to1' == masks swapped with '1to2' (identical arrays)
numba kernel memthick.find_matches_parallel (call monitor + driver):
  kernel_candidates  per source the stored candidate list (as a set, with distances) == admissible set
  kernel_boundscheck 1-thread kernel call under NUMBA_BOUNDSCHECK=1 completes (a bounds error surfaces as SystemError/IndexError);
                     counted only if a toy prange kernel proves at start-up that the bounds sanitizer is alive in this process
  kernel_threads     outputs of a 1-thread and an N-thread run (numba.set_num_threads in one process) are bit-identical
Assignment step memthick.process_matches_cpu2cpu (call monitor; driven directly with explicit candidate lists):
  assignment_greedy  on a list [(dist, source, target), ..]: pairs from the list, no target twice, thickness = dist*voxel, nothing
                     left over, no closer unmatched candidate, and (no conflicting distances within 1e-9 relative) equal to the
                     reference greedy; lists carry planted conflicts whose distances differ by 6e-9 .. 9e-7 in both index orders
Planted input classes (round 5): block_counts (source/target counts 2**k-1, 2**k, 2**k+1, k=4..9, total up to 600; also swept in
extra()), near_ties (geometric conflicts with distance gaps 4e-9*max .. 9e-7 voxel), dense_even (wide cone over an even dense
sheet: 16..24 candidates per source, several rigid motions per case), exact_duplicates (coincident points), far offsets (1e5),
and every case is a history on caller-owned arrays that are modified in place between the calls.
Round 6: on_axis (targets at p_s + h*n_s exactly, alone and next to off-axis candidates; also sprinkled over ten other classes),
array layouts / read-only inputs / scalar kinds varied per case, kernel additionally called on reused output buffers.
"""
import logging
import os

import numpy as np

from vmon import monitors
from vmon.oracles import c20_oracle as orc
from vmon.oracles import so3

PROP = "C20"
RULE = ("cases = generated point sets (20..600 points, quick tier mostly <= 200, class large_n 260..600) on two sheets (plane / paraboloid / wavy, random global "
        "rotation, optional third sheet behind the sources), jittered, unit normals with angular noise up to ~max_angle, surface "
        "labels natural/swapped/arbitrary/partial/overlapping, random index order, voxel size 0.3..15, max_angle 1..30 deg, "
        "max_thickness 0.9..2.2 x sheet separation, both directions; regenerated when a source has >= 25 candidates, when any "
        "source-target pair lies within 1e-9 (relative) of the range or cone boundary, or when two conflicting admissible pairs "
        "tie in distance within 1e-9 (class exact_duplicates keeps its exact ties: relational and reference-greedy clauses are then not "
        "judged); planted classes: block_counts (sheet sizes 2**k-1, 2**k, 2**k+1 for k=4..9 and total 600), near_ties (conflicting "
        "candidates 4e-9*max_range..9e-7 voxel apart, both index orders), dense_even (25..30 deg cone over an even sheet, mean > 16 "
        "candidates per source, all < 25), exact_duplicates, coordinate offsets up to 1.1e5 in 15% of the cases; every case is a "
        "history of calls on caller-owned arrays modified in place (layout C/F/strided/reversed/wider, 25% read-only, scalar kinds "
        "float/np.float64/0-d/int); on_axis: a third of the sources get a target exactly at p_s + h*n_s; plus one explicit candidate list per case for the assignment step; "
        "non-trivial = at least 3 admissible pairs, at least one target contested by two sources and "
        "at least one in-range pair rejected by the cone or the forward test; distinct by digest of "
        "(n, sources, targets, parameters, class, admissible-set statistics, first point)")
ASSUMPTIONS = [
    "admissible pair (i,j): i in source mask, j in target mask, 0 < |p_j-p_i| <= max_thickness/voxel_size, (p_j-p_i).n_i > 0, "
    "atan2(|n_i x v|, n_i.v) < max_angle; normals are unit to 1e-9 (the code's cone test assumes unit normals)",
    "float64 points/normals and boolean masks, as measure_membrane_thickness passes them; results float32 -> 1e-5 relative on thickness",
    "the CUDA kernel find_all_possible_matches_kernel and measure_thickness_gpu are NOT observed: no GPU in this sandbox; "
    "they carry the same one-line cone test but nothing here executes them",
    "find_matches_parallel is numba-compiled machine code: no Python line/branch events exist for it; it is observed through its "
    "outputs, through NUMBA_BOUNDSCHECK=1 and through the 1-thread vs N-thread comparison only",
    "under NUMBA_BOUNDSCHECK=1 a bounds error inside a prange body surfaces as an exception only on the calling thread "
    "(measured: SystemError with 1 thread; swallowed on omp worker threads, the write is skipped) - therefore the "
    "bounds monitor is tied to the 1-thread run and multi-thread bounds errors are seen through kernel_candidates/kernel_threads",
    "kernel capacity (match_distances.shape[1]) is 25 or, in class tight_capacity, exactly the largest candidate count: with "
    "count <= capacity nothing may be dropped",
    "target_indices given to the kernel = indices of the target mask in ascending or permuted order; candidate lists are compared as sets",
    "rigid_motion/voxel_scaling/greedy_reference need the greedy order to be unique: cases with a distance tie (1e-9 relative) "
    "between admissible pairs sharing a source or a target are excluded (the property does not fix tie-breaking)",
    "find_matches_parallel is declared without cache=True (NullCache): every process compiles the source it imported",
    "process_matches_cpu2cpu is the CPU path's assignment step (anchor): it is additionally driven directly with explicit candidate "
    "lists (distances 3..12, sources/targets separate name spaces); conflicting candidates closer than 1e-9 relative are treated as ties",
    "the arrays handed to measure_thickness_cpu / the kernel are owned by the driver and modified IN PLACE between the calls of a case "
    "(rigid motion, restore, label flips, point moves); every call is judged on the values the arrays hold at that moment",
    "array layouts (C, Fortran, every-second-row view, negative stride, columns of a wider table, read-only) and scalar kinds (float, "
    "np.float64, 0-d array, int, np.int64) carry the same float64/bool values: the expected result depends on the values only; "
    "float32 points/normals/scalars are NOT generated (float32 arithmetic inside the code would move pairs across the 1e-9 boundary margin)",
    "kernel output buffers: judged on fresh buffers and on buffers reused from the previous call (roles of the surfaces exchanged); in "
    "both cases only the rows of the current call's sources are compared with the admissible set, other rows must be 0 or untouched",
]

CLASSES = ["parallel", "tilted", "curved", "wavy", "sandwich", "flipped_normals", "arbitrary_labels", "partial_overlap_labels",
           "thin_range", "narrow_cone", "wide_cone", "dense", "small_n", "large_n", "tight_capacity",
           "block_counts", "near_ties", "dense_even", "exact_duplicates", "on_axis"]
BLOCK_VALUES = [v for k in range(4, 10) for v in (2 ** k - 1, 2 ** k, 2 ** k + 1)]
MON_CPU = ["pairs_admissible", "one_to_one", "thickness_value", "greedy_maximal", "greedy_reference"]
MON_REL = ["rigid_motion", "voxel_scaling", "direction_swap"]
MON_KER = ["kernel_candidates", "kernel_boundscheck", "kernel_threads"]
MON_ASG = ["assignment_greedy"]
EPS = 1e-9
CAP = 25


def plan(tier):
    env = {"NUMBA_BOUNDSCHECK": "1", "OMP_WAIT_POLICY": "passive"}
    if tier == "quick":
        return dict(n_cases=280, shards=3, classes=CLASSES, timeout_s=900, env=env,
                    min_evals={"pairs_admissible": 1000, "one_to_one": 1000, "thickness_value": 1000, "greedy_maximal": 1000,
                               "greedy_reference": 900, "rigid_motion": 250, "voxel_scaling": 200, "direction_swap": 200,
                               "kernel_candidates": 600, "kernel_boundscheck": 300, "kernel_threads": 300, "assignment_greedy": 250})
    return dict(n_cases=1840, shards=16, classes=CLASSES, timeout_s=3000, env=env,
                min_evals={"pairs_admissible": 7000, "one_to_one": 7000, "thickness_value": 7000, "greedy_maximal": 7000,
                           "greedy_reference": 6500, "rigid_motion": 1800, "voxel_scaling": 1400, "direction_swap": 1400,
                           "kernel_candidates": 3500, "kernel_boundscheck": 1700, "kernel_threads": 1700, "assignment_greedy": 1800})


# ---- call monitor: measure_thickness_cpu ---------------------------------------------------------
def _unit_ok(N):
    return bool(np.abs(np.linalg.norm(N, axis=1) - 1.0).max() <= 1e-9)


def _app_cpu(A):
    try:
        P = np.asarray(A["points"]); N = np.asarray(A["normals"])
        m1 = np.asarray(A["surface1_mask"]); m2 = np.asarray(A["surface2_mask"])
        n = len(P)
        ok = P.shape == (n, 3) and N.shape == (n, 3) and m1.shape == (n,) and m2.shape == (n,)
        ok = ok and m1.dtype == np.bool_ and m2.dtype == np.bool_ and P.dtype == np.float64 and N.dtype == np.float64
        ok = ok and 20 <= n <= 600 and bool(np.isfinite(P).all()) and bool(np.isfinite(N).all()) and _unit_ok(N)
        v = float(A["voxel_size"]); mx = float(A["max_thickness_nm"]); ang = float(A["max_angle_degrees"])
        ok = ok and np.isfinite([v, mx, ang]).all() and v > 0 and mx > 0 and 1.0 <= ang <= 30.0
        ok = ok and A["direction"] in ("1to2", "2to1") and int(A["max_matches_per_point"]) >= 1
        src, tgt = (m1, m2) if A["direction"] == "1to2" else (m2, m1)
        return bool(ok and src.any() and tgt.any())
    except Exception:
        return False


def _snap_cpu(A):
    m1 = np.asarray(A["surface1_mask"]); m2 = np.asarray(A["surface2_mask"])
    src, tgt = (m1, m2) if A["direction"] == "1to2" else (m2, m1)
    v = float(A["voxel_size"]); mx = float(A["max_thickness_nm"])
    T = orc.Table(np.array(A["points"], dtype=np.float64), np.array(A["normals"], dtype=np.float64), src.copy(), tgt.copy(),
                  mx / v, float(A["max_angle_degrees"]))
    return {"T": T, "src": src.copy(), "tgt": tgt.copy(), "voxel": v, "max_nm": mx}


def _post_cpu(ctx, A, old, result):
    T = old["T"]
    info = {"T": T, "in_domain": False, "unique": False}
    ctx.c20_last = info
    # the driver never passes max_matches_per_point: the quantifier's bound (25) applies whatever the code's default is;
    # a foreign caller that lowers the cap explicitly is outside the quantifier once a source reaches that cap
    cap = CAP if getattr(ctx, "c20_driver_call", False) else min(CAP, int(A["max_matches_per_point"]))
    if T.margin < EPS or T.max_candidates() >= cap:
        for m in MON_CPU:
            ctx.ood(m)
        return
    info["in_domain"] = True
    info["unique"] = T.tie_gap >= EPS
    tag = {"n": T.n, "max_angle": T.max_angle, "max_vox": T.max_vox, "voxel": old["voxel"], "direction": A["direction"],
           "admissible_pairs": int(T.A.sum())}
    try:
        thick, valid, pairs = result
        thick = np.asarray(thick); valid = np.asarray(valid); pairs = np.asarray(pairs)
    except Exception:
        for m in MON_CPU[:4]:
            ctx.check(m, False, dict(tag, what="result is not (thickness_results, valid_mask, point_pairs)"))
        return
    res = orc.judge_matching(T, thick, valid, pairs, old["voxel"], old["max_nm"], old["src"], old["tgt"])
    for name in MON_CPU[:4]:
        w = res[name]
        if isinstance(w, str):
            ctx.ood(name)
        else:
            ctx.check(name, w is None, None if w is None else dict(tag, **w))
    st = T.stats()
    for k_ex, k_st in (("admissible_pairs_seen", "admissible"), ("inrange_pairs_rejected_by_cone_seen", "inrange_rejected_cone"),
                       ("inrange_pairs_behind_source_seen", "inrange_behind"), ("pairs_in_backward_cone_seen", "behind_in_backward_cone"),
                       ("pairs_in_cone_beyond_range_seen", "out_of_range_in_cone")):
        ctx.extra[k_ex] = ctx.extra.get(k_ex, 0) + st[k_st]
    n_ax = int((T.A & (T.ANG < 1e-6)).sum())
    if n_ax:
        ctx.extra["cpu_admissible_pairs_exactly_on_the_source_normal_judged"] = ctx.extra.get("cpu_admissible_pairs_exactly_on_the_source_normal_judged", 0) + n_ax
        ctx.extra["cpu_calls_with_on_axis_pairs"] = ctx.extra.get("cpu_calls_with_on_axis_pairs", 0) + 1
    cc = T.cand_counts()
    mean_c = float(cc.mean()) if cc.size else 0.0
    if mean_c > 16.0:
        ctx.extra["cpu_calls_with_mean_candidates_per_source_gt_16"] = ctx.extra.get("cpu_calls_with_mean_candidates_per_source_gt_16", 0) + 1
        for v_, n_ in zip(*np.unique(cc, return_counts=True)):
            kk = "dense_calls_sources_with_%02d_candidates" % int(v_)
            ctx.extra[kk] = ctx.extra.get(kk, 0) + int(n_)
    for role, cnt in (("sources", len(T.src)), ("targets", len(T.tgt))):
        if cnt in BLOCK_VALUES:
            kk = "cpu_calls_with_%s_=_%d" % (role, cnt)
            ctx.extra[kk] = ctx.extra.get(kk, 0) + 1
    if T.n == 600:
        ctx.extra["cpu_calls_with_600_points"] = ctx.extra.get("cpu_calls_with_600_points", 0) + 1
    if T.A.any():
        M = np.where(T.A, T.D, np.inf)
        ng = 0
        for ax in (0, 1):
            dd = np.diff(np.sort(M, axis=ax), axis=ax)
            ng += int((np.isfinite(dd) & (dd < 1e-6) & (dd >= EPS * T.max_vox)).sum())
        if ng:
            ctx.extra["cpu_conflicting_pairs_with_gap_below_1e-6_voxel_judged"] = ctx.extra.get("cpu_conflicting_pairs_with_gap_below_1e-6_voxel_judged", 0) + ng
    ctx.extra["pairs_returned_judged"] = ctx.extra.get("pairs_returned_judged", 0) + (int(np.count_nonzero(valid)) if valid.shape == (T.n,) else 0)
    if not info["unique"] or valid.shape != (T.n,) or pairs.shape != (T.n,):
        ctx.ood("greedy_reference")
        return
    ref = T.greedy()
    got = {int(s): int(pairs[s]) for s in np.flatnonzero(valid.astype(bool))}
    w = None
    if got != ref:
        ds = sorted(set(got.items()) ^ set(ref.items()))
        w = dict(tag, what="matching differs from greedy-by-increasing-distance", n_returned=len(got), n_reference=len(ref),
                 only_returned=[p for p in ds if got.get(p[0]) == p[1]][:4], only_reference=[p for p in ds if ref.get(p[0]) == p[1]][:4])
    ctx.check("greedy_reference", w is None, w)
    ctx.extra["greedy_conflict_skips_seen"] = ctx.extra.get("greedy_conflict_skips_seen", 0) + int(T.A.sum()) - len(ref)


# ---- call monitor: find_matches_parallel ---------------------------------------------------------
def _app_kernel(A):
    try:
        P = np.asarray(A["points"]); N = np.asarray(A["normals"])
        sm = np.asarray(A["source_mask"]); tm = np.asarray(A["target_mask"]); ti = np.asarray(A["target_indices"])
        md, mi, mc = A["match_distances"], A["match_indices"], A["match_counts"]
        n = len(P)
        ok = P.shape == (n, 3) and N.shape == (n, 3) and sm.shape == (n,) and tm.shape == (n,) and ti.ndim == 1
        ok = ok and sm.dtype == np.bool_ and tm.dtype == np.bool_ and ti.dtype.kind in "iu" and P.dtype == np.float64 and N.dtype == np.float64
        ok = ok and 20 <= n <= 600 and bool(np.isfinite(P).all()) and _unit_ok(N) and sm.any() and len(ti) > 0
        ok = ok and ti.min() >= 0 and ti.max() < n and len(np.unique(ti)) == len(ti) and np.array_equal(np.sort(ti), np.flatnonzero(tm))
        ok = ok and md.ndim == 2 and md.shape[0] == n and mi.shape == md.shape and mc.shape == (n,) and md.shape[1] >= 1
        ok = ok and md.dtype.kind == "f" and mi.dtype.kind in "iu" and mc.dtype.kind in "iu"
        c = float(A["max_angle_cos"]); mv = float(A["max_thickness_voxels"])
        ok = ok and mv > 0 and np.cos(np.radians(30.0)) - 1e-12 <= c <= np.cos(np.radians(1.0)) + 1e-12
        return bool(ok)
    except Exception:
        return False


def _snap_kernel(A):
    ang = float(np.degrees(np.arccos(min(1.0, float(A["max_angle_cos"])))))
    T = orc.Table(np.array(A["points"]), np.array(A["normals"]), np.array(A["source_mask"]), None,
                  float(A["max_thickness_voxels"]), ang, tgt_idx=np.array(A["target_indices"]))
    return {"T": T, "counts_before": np.array(A["match_counts"])}


def _post_kernel(ctx, A, old, result):
    T = old["T"]
    cap = int(A["match_distances"].shape[1])
    mc_max = T.max_candidates()
    if T.margin < EPS or mc_max >= CAP or mc_max > cap:
        ctx.ood("kernel_candidates")
        return
    w = orc.judge_candidates(T, A["match_distances"], A["match_indices"], A["match_counts"], cap, old["counts_before"])
    if w is not None:
        w = dict(w, n=T.n, max_angle=T.max_angle, max_vox=T.max_vox, capacity=cap, threads=ctx.numba.get_num_threads())
    ctx.check("kernel_candidates", w is None, w)
    for role, cnt in (("sources", len(T.src)), ("targets", len(T.tgt))):
        if cnt in BLOCK_VALUES:
            kk = "kernel_calls_with_%s_=_%d" % (role, cnt)
            ctx.extra[kk] = ctx.extra.get(kk, 0) + 1
    n_ax = int((T.A & (T.ANG < 1e-6)).sum())
    if n_ax:
        ctx.extra["kernel_admissible_pairs_exactly_on_the_source_normal_judged"] = ctx.extra.get("kernel_admissible_pairs_exactly_on_the_source_normal_judged", 0) + n_ax
    if T.n == 600:
        ctx.extra["kernel_calls_with_600_points"] = ctx.extra.get("kernel_calls_with_600_points", 0) + 1
    ctx.extra["kernel_candidates_seen"] = ctx.extra.get("kernel_candidates_seen", 0) + int(T.A.sum())


# ---- call monitor: process_matches_cpu2cpu -------------------------------------------------------
def _app_asg(A):
    try:
        fm = A["flat_matches"]
        n = int(A["n_points"]); v = float(A["voxel_size"])
        if not isinstance(fm, list) or not (1 <= len(fm) <= 20000) or n < 1 or not (v > 0 and np.isfinite(v)):
            return False
        arr = np.array([(float(d), int(s_), int(t_)) for d, s_, t_ in fm], dtype=np.float64)
        return bool(np.isfinite(arr).all() and (arr[:, 0] > 0).all() and (arr[:, 1:] >= 0).all() and (arr[:, 1:] < n).all())
    except Exception:
        return False


def _snap_asg(A):
    # the function sorts the caller's list in place: copy the candidates before the call
    return {"cands": [(float(d), int(s_), int(t_)) for d, s_, t_ in A["flat_matches"]], "n": int(A["n_points"]), "voxel": float(A["voxel_size"])}


def _post_asg(ctx, A, old, result):
    w, unique = orc.judge_assignment(old["cands"], old["n"], old["voxel"], result, rel_tie=EPS)
    if w is not None:
        w = dict(w, n_candidates=len(old["cands"]), n_points=old["n"], voxel=old["voxel"], greedy_order_unique=unique)
    ctx.check("assignment_greedy", w is None, w)
    k = "assignment_lists_with_unique_order" if unique else "assignment_lists_with_ties"
    ctx.extra[k] = ctx.extra.get(k, 0) + 1


# ---- setup ---------------------------------------------------------------------------------------
def _boundscheck_probe(numba):
    """Is numba's bounds sanitizer alive for prange bodies in THIS process?  A toy kernel (not cryoCAT code) reads a[n] of a
    length-n VIEW of a longer buffer (memory-safe either way) with 1 thread."""
    from numba import njit, prange

    @njit(parallel=True)
    def toy(a, out, k):
        for i in prange(out.shape[0]):
            out[i] = a[i + k]

    base = np.arange(64.0) + 1.0
    a = base[:32]
    out = np.zeros(32)
    numba.set_num_threads(1)
    try:
        toy(a, out, 1)
        return False, "toy prange kernel read a[n] of a length-n view with 1 thread: no exception, value %r stored" % float(out[-1])
    except Exception as e:
        return True, "toy prange kernel read a[n] of a length-n view with 1 thread: raised %s" % type(e).__name__


def setup(ctx):
    # the kernel is not cache=True, but keep any numba cache of a scratch tree apart from /repo's anyway
    os.environ["NUMBA_CACHE_DIR"] = os.path.join(os.environ.get("NUMBA_CACHE_DIR", os.path.join(ctx.scratch, "nc")),
                                                 "c20_" + "".join(ch if ch.isalnum() else "_" for ch in os.path.abspath(ctx.repo)))
    import numba
    from cryocat import memthick
    ctx.mt = memthick
    ctx.numba = numba
    ctx.c20_last = None
    ctx.c20_driver_call = False
    log = logging.getLogger("vmon.c20.null")
    log.addHandler(logging.NullHandler())
    log.setLevel(logging.CRITICAL + 1)
    log.propagate = False
    ctx.log = log
    ctx.declare(*(MON_CPU + MON_REL + MON_KER + MON_ASG))
    disp = memthick.find_matches_parallel
    ctx.extra["kernel_is_numba_dispatcher"] = bool(hasattr(disp, "py_func"))
    ctx.extra["kernel_cache"] = type(getattr(disp, "_cache", None)).__name__
    ctx.extra["numba_boundscheck_env"] = os.environ.get("NUMBA_BOUNDSCHECK", "")
    ctx.extra["numba_boundscheck_config"] = str(getattr(numba.config, "BOUNDSCHECK", None))
    ctx.nt_max = int(numba.config.NUMBA_NUM_THREADS)
    ctx.nt_default = int(numba.get_num_threads())
    ctx.nt = min(16, ctx.nt_max)
    alive, txt = _boundscheck_probe(numba)
    numba.set_num_threads(ctx.nt_default)
    ctx.bc_alive = alive and str(getattr(numba.config, "BOUNDSCHECK", None)) == "1"
    ctx.extra["boundscheck_probe"] = txt
    try:
        ctx.extra["numba_threading_layer"] = str(numba.threading_layer())
    except Exception as e:
        ctx.extra["numba_threading_layer"] = "unknown (%s)" % type(e).__name__
    ctx.extra["omp_wait_policy_env"] = os.environ.get("OMP_WAIT_POLICY", "")
    ctx.extra["threads_compared"] = "1 vs %d (numba.set_num_threads in one process, NUMBA_NUM_THREADS=%d)" % (ctx.nt, ctx.nt_max)
    ctx.notes.append("find_matches_parallel is a numba dispatcher (parallel=True): the Python body never runs, no line/branch events; "
                     "observed via outputs, NUMBA_BOUNDSCHECK and thread-count comparison")
    ctx.notes.append("CUDA twin find_all_possible_matches_kernel / measure_thickness_gpu: not executed (no GPU)")
    f1 = monitors.wrap(ctx, memthick, "measure_thickness_cpu", "pairs_admissible", _post_cpu, _app_cpu, _snap_cpu)
    monitors.wrap(ctx, memthick, "find_matches_parallel", "kernel_candidates", _post_kernel, _app_kernel, _snap_kernel)
    f3 = monitors.wrap(ctx, memthick, "process_matches_cpu2cpu", "assignment_greedy", _post_asg, _app_asg, _snap_asg)
    monitors.trace(ctx, [
        ("measure_thickness_cpu", f1, {"direction_2to1": "source_mask, target_mask = surface2_mask, surface1_mask",
                                       "direction_1to2": "source_mask, target_mask = surface1_mask, surface2_mask",
                                       "cone_accept": "flat_matches.append(",
                                       "cap_break(expected unreached: >= 25 candidates are outside the quantifier)": "break"}),
        ("process_matches_cpu2cpu", f3, {"assign": "thickness_results[source_idx] = dist",
                                                                      }),
    ])


# ---- generator -----------------------------------------------------------------------------------
def _perturb(rng, N, sigma_deg):
    n = len(N)
    ax = np.cross(N, rng.normal(size=(n, 3)))
    ax /= np.linalg.norm(ax, axis=1, keepdims=True)
    th = np.radians(np.abs(rng.normal(0.0, max(sigma_deg, 1e-12), n)))
    out = N * np.cos(th)[:, None] + np.cross(ax, N) * np.sin(th)[:, None]
    return out / np.linalg.norm(out, axis=1, keepdims=True)


def _surface(shape, prm, u, v):
    if shape == "plane":
        z = np.zeros_like(u); gu = np.zeros_like(u); gv = np.zeros_like(u)
    elif shape == "paraboloid":
        rc = prm["rc"]
        z = (u * u + v * v) / (2 * rc); gu = u / rc; gv = v / rc
    else:
        a, k, p1, p2 = prm["a"], prm["k"], prm["p1"], prm["p2"]
        z = a * np.sin(k * u + p1) * np.cos(k * v + p2)
        gu = a * k * np.cos(k * u + p1) * np.cos(k * v + p2)
        gv = -a * k * np.sin(k * u + p1) * np.sin(k * v + p2)
    S = np.column_stack([u, v, z])
    Nn = np.column_stack([-gu, -gv, np.ones_like(u)])
    return S, Nn / np.linalg.norm(Nn, axis=1, keepdims=True)


def _uv(rng, m, spacing, mode):
    g = int(np.ceil(np.sqrt(m)))
    if mode == "grid":
        cells = rng.permutation(g * g)[:m]
        u = (cells % g - (g - 1) / 2 + rng.uniform(-0.35, 0.35, m)) * spacing
        v = (cells // g - (g - 1) / 2 + rng.uniform(-0.35, 0.35, m)) * spacing
    else:
        L = g * spacing
        u = rng.uniform(-L / 2, L / 2, m); v = rng.uniform(-L / 2, L / 2, m)
    return u, v


def _build(rng, tier, cls, ov=None):
    """ov (block_counts): {"nA": sources-sheet size, "nB": target-sheet size, "direction": ...} - sheet A is the source surface"""
    ov = ov or {}
    quick = tier == "quick"
    if "nA" in ov:
        n = ov["nA"] + ov["nB"]
    elif cls == "small_n":
        n = int(rng.integers(20, 36))
    elif cls == "large_n":
        n = int(rng.integers(300, 601)) if not quick or rng.random() < 0.35 else int(rng.integers(260, 400))
    else:
        n = int(rng.integers(20, 201)) if quick or rng.random() < 0.6 else int(rng.integers(20, 601))
    if cls == "narrow_cone":
        ang = 1.0 if rng.random() < 0.3 else float(rng.uniform(1.0, 2.5))
    elif cls == "wide_cone":
        ang = 30.0 if rng.random() < 0.3 else float(rng.uniform(18.0, 30.0))
    elif cls == "block_counts":
        ang = float(rng.uniform(8.0, 25.0))          # wide enough for the KD-tree ball to prune: cost stays small at 512..600 points
    elif cls == "near_ties":
        ang = float(np.exp(rng.uniform(np.log(3.0), np.log(30.0))))
    else:
        r = rng.random()
        ang = 3.0 if r < 0.15 else 5.0 if r < 0.3 else float(np.exp(rng.uniform(np.log(1.0), np.log(30.0))))
    voxel = float(rng.choice([0.784, 1.0, 1.35, 2.62, 10.0, 13.48])) if rng.random() < 0.6 else float(rng.uniform(0.3, 15.0))
    d = float(rng.uniform(3.0, 12.0))
    fac = float(rng.uniform(0.92, 1.12)) if cls == "thin_range" else float(rng.uniform(1.2, 2.2))
    max_vox = d * fac
    max_nm = max_vox * voxel
    int_scalars = bool(cls not in ("narrow_cone", "wide_cone") and rng.random() < 0.12)
    if int_scalars:                      # integral voxel size / max thickness / max angle, later handed over as Python or numpy integers
        voxel = float(rng.choice([1, 2, 3, 10]))
        ang = float(rng.choice([2, 3, 5, 10, 20, 30]))
        max_nm = float(np.ceil(max_vox * voxel))
        max_vox = max_nm / voxel
    lam = float(rng.uniform(6.0, 10.0)) if cls == "dense" else float(rng.uniform(0.7, 5.0))
    spacing = d * np.tan(np.radians(ang)) * np.sqrt(np.pi / lam)
    nA = int(round(n * rng.uniform(0.35, 0.65)))
    nA = min(max(nA, 2), n - 2)
    nB = n - nA
    if "nA" in ov:
        nA, nB = ov["nA"], ov["nB"]
    shape = {"parallel": "plane", "tilted": "plane", "curved": "paraboloid", "wavy": "wavy"}.get(cls) or str(rng.choice(["plane", "plane", "paraboloid", "wavy"]))
    L = np.sqrt(nB if "nA" in ov else max(nA, nB)) * spacing
    prm = {}
    if shape == "paraboloid":
        prm["rc"] = float(max(L * rng.uniform(0.7, 4.0), 2.5 * d) * rng.choice([-1.0, 1.0]))
    elif shape == "wavy":
        wl = L * rng.uniform(0.5, 2.0)
        prm = {"k": float(2 * np.pi / wl), "a": float(rng.uniform(0.02, 0.12) * wl), "p1": float(rng.uniform(0, 6.28)), "p2": float(rng.uniform(0, 6.28))}
    mode = "grid" if rng.random() < 0.6 else "uniform"
    # block_counts: both sheets cover the same area (the spacing of the source sheet follows from its point count)
    spA = spacing * np.sqrt(nB / nA) if "nA" in ov else spacing
    uA, vA = _uv(rng, nA, spA, mode)
    uB, vB = _uv(rng, nB, spacing, mode)
    SA, NA = _surface(shape, prm, uA, vA)
    SB, NB = _surface(shape, prm, uB, vB)
    side = np.ones(nB)
    if cls == "sandwich" or (cls not in ("parallel", "tilted", "curved", "wavy", "block_counts") and rng.random() < 0.2):
        side = np.where(rng.random(nB) < 0.5, 1.0, -1.0)
    dloc = d * (1.0 + 0.08 * np.sin(uB / max(L, 1e-9) * 3.0 + rng.uniform(0, 6.28)) + rng.normal(0, 0.03, nB))
    dloc = np.where(side > 0, dloc, dloc * rng.uniform(0.8, 1.2))
    XB = SB + (side * dloc)[:, None] * NB
    jit = 0.12 * spacing
    XA = SA + rng.normal(0, jit, (nA, 3))
    XB = XB + rng.normal(0, jit, (nB, 3))
    nrmA = NA.copy()
    nrmB = -side[:, None] * NB
    X = np.vstack([XA, XB]); Nr = np.vstack([nrmA, nrmB])
    isA = np.r_[np.ones(nA, bool), np.zeros(nB, bool)]
    sigma = ang * float(rng.uniform(0.0, 0.8))
    Nr = _perturb(rng, Nr, sigma)
    flipped = 0
    if cls == "flipped_normals" or rng.random() < 0.1:
        fl = rng.random(n) < 0.35
        Nr[fl] *= -1.0
        flipped = int(fl.sum())
    lab = "natural"
    direction = "1to2" if rng.random() < 0.5 else "2to1"
    if "nA" in ov:
        direction = ov.get("direction", direction)
        lab = "sheetA=source"
        m1, m2 = (isA.copy(), ~isA) if direction == "1to2" else (~isA, isA.copy())
    elif cls == "arbitrary_labels" or (cls not in ("partial_overlap_labels",) and rng.random() < 0.2):
        lab = "arbitrary"
        m1 = rng.random(n) < 0.5
        m2 = ~m1
    else:
        m1, m2 = isA.copy(), ~isA
        if rng.random() < 0.5:
            lab = "swapped"
            m1, m2 = m2, m1
    if cls == "partial_overlap_labels":
        lab += "+partial+overlap"
        r = rng.random(n)
        neither = r < 0.15
        both = (r >= 0.15) & (r < 0.27)
        m1 = (m1 & ~neither) | both
        m2 = (m2 & ~neither) | both
    perm = rng.permutation(n)
    X, Nr, m1, m2, isA = X[perm], Nr[perm], m1[perm], m2[perm], isA[perm]
    if cls == "parallel" and rng.random() < 0.5:
        R0 = np.eye(3)
    else:
        R0 = so3.random_rotations(rng, 1)[0]
    far = bool(rng.random() < 0.15)
    t0 = rng.uniform(1.0e5, 1.1e5, 3) if far else rng.uniform(0.0, 800.0, 3)
    P = X @ R0.T + t0
    Nr = Nr @ R0.T
    Nr = Nr / np.linalg.norm(Nr, axis=1, keepdims=True)
    return {"P": np.ascontiguousarray(P), "N": np.ascontiguousarray(Nr), "m1": np.ascontiguousarray(m1), "m2": np.ascontiguousarray(m2),
            "voxel": voxel, "max_nm": float(max_nm), "ang": float(ang), "direction": direction,
            "meta": {"n": n, "shape": shape, "labels": lab, "separation_vox": round(d, 4), "spacing_vox": round(float(spacing), 5),
                     "normal_noise_deg": round(sigma, 4), "flipped_normals": flipped, "third_sheet": bool((side < 0).any()), "layout": mode,
                     "far_offset": far, "integral_scalars": int_scalars}}


def _build_dense_even(rng, tier):
    """Wide cone (25..30 deg) over an evenly sampled target sheet: per-source candidate counts around 16..24 (all < 25)."""
    ang = 30.0 if rng.random() < 0.3 else float(rng.uniform(25.0, 30.0))
    voxel = float(rng.choice([0.784, 1.0, 1.25, 1.35, 2.62, 13.48])) if rng.random() < 0.6 else float(rng.uniform(0.3, 15.0))
    d = float(rng.uniform(3.0, 12.0))
    max_vox = d * float(rng.uniform(1.3, 1.6))
    lam = float(rng.uniform(17.6, 20.2))
    rho = d * np.tan(np.radians(ang))
    sp_t = rho * np.sqrt(np.pi / lam)
    gs = int(rng.integers(2, 6)) if tier == "quick" else int(rng.integers(2, 9))
    sp_s = sp_t * float(rng.uniform(1.15, 2.0))
    ext = (gs - 1) * sp_s
    gt = int(np.ceil((ext + 2.3 * rho) / sp_t)) + 1
    while gs * gs + gt * gt > 600:
        gs -= 1
        ext = (gs - 1) * sp_s
        gt = int(np.ceil((ext + 2.3 * rho) / sp_t)) + 1
    jit = float(rng.uniform(0.02, 0.06)) * sp_t
    gi, gj = np.meshgrid(np.arange(gs), np.arange(gs), indexing="ij")
    XA = np.column_stack([(gi.ravel() - (gs - 1) / 2) * sp_s, (gj.ravel() - (gs - 1) / 2) * sp_s, np.zeros(gs * gs)])
    XA[:, :2] += rng.uniform(-0.5, 0.5, 2) * sp_t
    ti, tj = np.meshgrid(np.arange(gt), np.arange(gt), indexing="ij")
    XB = np.column_stack([(ti.ravel() - (gt - 1) / 2) * sp_t, (tj.ravel() - (gt - 1) / 2) * sp_t, np.full(gt * gt, d)])
    nA, nB = len(XA), len(XB)
    XA = XA + rng.normal(0, jit, (nA, 3))
    XB = XB + rng.normal(0, jit, (nB, 3))
    X = np.vstack([XA, XB])
    Nr = np.vstack([np.tile([0.0, 0.0, 1.0], (nA, 1)), np.tile([0.0, 0.0, -1.0], (nB, 1))])
    sigma = float(rng.uniform(0.0, 0.5))
    Nr = _perturb(rng, Nr, sigma)
    isA = np.r_[np.ones(nA, bool), np.zeros(nB, bool)]
    direction = "1to2" if rng.random() < 0.5 else "2to1"
    m1, m2 = (isA.copy(), ~isA) if direction == "1to2" else (~isA, isA.copy())
    n = nA + nB
    perm = rng.permutation(n)
    X, Nr, m1, m2 = X[perm], Nr[perm], m1[perm], m2[perm]
    R0 = np.eye(3) if rng.random() < 0.25 else so3.random_rotations(rng, 1)[0]
    far = bool(rng.random() < 0.15)
    t0 = rng.uniform(1.0e5, 1.1e5, 3) if far else rng.uniform(0.0, 800.0, 3)
    P = X @ R0.T + t0
    Nr = Nr @ R0.T
    Nr = Nr / np.linalg.norm(Nr, axis=1, keepdims=True)
    return {"P": np.ascontiguousarray(P), "N": np.ascontiguousarray(Nr), "m1": np.ascontiguousarray(m1), "m2": np.ascontiguousarray(m2),
            "voxel": voxel, "max_nm": float(max_vox * voxel), "ang": float(ang), "direction": direction,
            "meta": {"n": n, "shape": "plane", "labels": "sheetA=source", "separation_vox": round(d, 4), "spacing_vox": round(float(sp_t), 5),
                     "source_grid": gs, "target_grid": gt, "normal_noise_deg": round(sigma, 4), "flipped_normals": 0, "third_sheet": False,
                     "layout": "even grid", "far_offset": far}}


def _reorder_best_last(rng, c):
    """block_counts: an index order in which the source (target) with the globally shortest admissible pair - the pair every greedy
    pairing takes first - carries the HIGHEST source (target) index: a rewrite that loses the tail of a block loses a pair that matters."""
    T = _table(c)
    if not T.A.any():
        return
    M = np.where(T.A, T.D, np.inf)
    for axis, slots in ((1, T.src), (0, T.tgt)):
        if rng.random() < 0.7:
            key = M.min(axis=axis)
            order = np.argsort(-key, kind="stable")
            for arr in (c["P"], c["N"]):
                arr[slots] = arr[slots[order]]
            if axis == 1:
                M = M[order]
            c["meta"]["best_pair_last_" + ("source" if axis == 1 else "target")] = True


def _roles(c):
    return (c["m1"], c["m2"]) if c["direction"] == "1to2" else (c["m2"], c["m1"])


def _perp(rng, v):
    e = np.cross(v, rng.normal(size=3))
    return e / np.linalg.norm(e)


def _plant_near_ties(rng, c):
    """Move a few points so that two CONFLICTING admissible pairs (same source / two targets, or two sources / same target) differ
    in distance by gap in [4e-9*max_range, 9e-7] voxel - far above float64 round-off (~1e-13 here) and above the 1e-9 tie
    exclusion - with the FARTHER pair carrying the lower point index in half of the plants and the higher one in the others."""
    P, N = c["P"], c["N"]
    srcm, tgtm = _roles(c)
    only_s = np.flatnonzero(srcm & ~tgtm)
    only_t = np.flatnonzero(tgtm & ~srcm)
    max_vox = c["max_nm"] / c["voxel"]
    used = set()
    plants = []
    k_max = int(min(8, len(only_s) // 3, len(only_t) // 3))
    for k in range(k_max):
        gap = float(np.exp(rng.uniform(np.log(max(4e-9 * max_vox, 6e-9)), np.log(9e-7))))
        r0 = float(rng.uniform(0.5, 0.88)) * max_vox
        a = np.radians(float(rng.uniform(0.25, 0.7)) * c["ang"])
        far_low = bool(k % 2 == 0) if rng.random() < 0.8 else bool(rng.random() < 0.5)
        free_s = [x for x in only_s if x not in used]
        free_t = [x for x in only_t if x not in used]
        if k % 3 != 2:
            if len(free_s) < 1 or len(free_t) < 2:
                break
            s0 = int(free_s[int(rng.integers(0, len(free_s)))])
            dd = np.linalg.norm(P[free_t] - P[s0], axis=1)
            t_a, t_b = sorted(int(free_t[j]) for j in np.argsort(dd)[:2])
            t_far, t_near = (t_a, t_b) if far_low else (t_b, t_a)
            e = _perp(rng, N[s0])
            P[t_far] = P[s0] + (r0 + gap) * (np.cos(a) * N[s0] + np.sin(a) * e)
            P[t_near] = P[s0] + r0 * (np.cos(a) * N[s0] - np.sin(a) * e)
            used.update([s0, t_a, t_b])
            plants.append({"kind": "one source, two targets", "gap": gap, "farther_has_lower_index": far_low})
        else:
            if len(free_s) < 2 or len(free_t) < 1:
                break
            t0 = int(free_t[int(rng.integers(0, len(free_t)))])
            dd = np.linalg.norm(P[free_s] - P[t0], axis=1)
            s_a, s_b = sorted(int(free_s[j]) for j in np.argsort(dd)[:2])
            s_far, s_near = (s_a, s_b) if far_low else (s_b, s_a)
            m = N[s_a].copy()
            e = _perp(rng, m)
            N[s_b] = m
            P[s_far] = P[t0] - (r0 + gap) * (np.cos(a) * m + np.sin(a) * e)
            P[s_near] = P[t0] - r0 * (np.cos(a) * m - np.sin(a) * e)
            used.update([t0, s_a, s_b])
            plants.append({"kind": "two sources, one target", "gap": gap, "farther_has_lower_index": far_low})
    c["near_tie_plants"] = plants
    c["meta"]["near_tie_plants"] = len(plants)
    c["meta"]["near_tie_gaps"] = [float("%.3g" % p["gap"]) for p in plants]


def _plant_on_axis(rng, c, frac):
    """Targets EXACTLY on a source's normal ray: p_t = p_s + h * n_s evaluated in float64 in the final (generically rotated) frame, as
    a ray cast or a normal-offset surface produces them - 0 degrees off the cone axis, the most admissible candidate there is.  Some
    stand alone, the others compete with the off-axis candidates already present or with a second planted off-axis target."""
    P, N = c["P"], c["N"]
    srcm, tgtm = _roles(c)
    only_s = np.flatnonzero(srcm & ~tgtm)
    free_t = list(np.flatnonzero(tgtm & ~srcm))
    max_vox = c["max_nm"] / c["voxel"]
    k = int(min(max(2, round(frac * len(only_s))), len(only_s), max(0, len(free_t) // 2), 40))
    planted = 0
    for s0 in rng.permutation(only_s)[:k].tolist():
        if len(free_t) < 2:
            break
        dd = np.linalg.norm(P[free_t] - P[s0], axis=1)
        j = int(np.argmin(dd))
        t0 = int(free_t.pop(j))
        h = float(rng.uniform(0.35, 0.92)) * max_vox
        P[t0] = P[s0] + h * N[s0]
        planted += 1
        if rng.random() < 0.4:
            dd = np.linalg.norm(P[free_t] - P[s0], axis=1)
            t1 = int(free_t.pop(int(np.argmin(dd))))
            a = np.radians(float(rng.uniform(0.2, 0.8)) * c["ang"])
            h1 = h * float(rng.uniform(0.8, 1.25))
            P[t1] = P[s0] + min(h1, 0.95 * max_vox) * (np.cos(a) * N[s0] + np.sin(a) * _perp(rng, N[s0]))
    c["meta"]["on_axis_targets_planted"] = planted


def _plant_duplicates(rng, c):
    """Exact duplicates: coincident targets, coincident sources (same normal), a source sitting exactly on a target."""
    P, N = c["P"], c["N"]
    srcm, tgtm = _roles(c)
    S = np.flatnonzero(srcm); Tt = np.flatnonzero(tgtm)
    k = 0
    for _ in range(int(rng.integers(2, 6))):
        if len(Tt) >= 2:
            a, b = rng.choice(Tt, 2, replace=False)
            P[b] = P[a]
            k += 1
    for _ in range(int(rng.integers(1, 4))):
        if len(S) >= 2:
            a, b = rng.choice(S, 2, replace=False)
            P[b] = P[a]; N[b] = N[a]
            k += 1
    if len(S) and len(Tt):
        a = int(rng.choice(S)); b = int(rng.choice(Tt))
        if a != b:
            P[b] = P[a]
            k += 1
    c["meta"]["exact_duplicate_copies"] = k


def _table(c):
    src, tgt = (c["m1"], c["m2"]) if c["direction"] == "1to2" else (c["m2"], c["m1"])
    return orc.Table(c["P"], c["N"], src, tgt, c["max_nm"] / c["voxel"], c["ang"])


def _block_plan(k):
    """k-th block_counts case -> (sources-sheet size, target-sheet size): one (or both) planted at 2**j-1, 2**j, 2**j+1 or total 600.
    512 targets / 512 sources (the only multiples of 512 within 600 points) come round every 3rd case."""
    r = np.random.default_rng([20, 5, int(k)])
    if k % 3 == 0:
        v = 512
    elif k % 3 == 2:
        v = int(r.choice([256, 128, 64, 511, 513]))
    else:
        v = int(r.choice(BLOCK_VALUES))
    lo = max(2, 20 - v)
    hi = 600 - v
    mode = int(r.integers(0, 4))
    if mode == 0:
        other = hi                                   # the maximum the quantifier allows: 600 points in total
    elif mode == 1:
        cands = [w for w in BLOCK_VALUES if lo <= w <= hi]
        other = int(r.choice(cands)) if cands else hi
    else:
        other = int(r.integers(lo, min(hi, 160) + 1))
    return (other, v) if (k // 3 + k) % 2 == 0 else (v, other)


def _make(ctx, i, cls, ov=None):
    case = None
    regen = {"ge25_candidates": 0, "boundary_1e-9": 0, "distance_tie": 0, "no_source_or_target": 0, "poor": 0}
    if cls == "block_counts" and ov is None:
        nA, nB = _block_plan(i // len(CLASSES))
        ov = {"nA": nA, "nB": nB}
    for attempt in range(80):
        rng_b = ctx.rng(i, 100 + attempt)
        c = _build_dense_even(rng_b, ctx.tier) if cls == "dense_even" else _build(rng_b, ctx.tier, cls, ov)
        if cls == "near_ties" or (cls in ("parallel", "tilted", "curved", "wavy", "dense", "wide_cone", "large_n") and rng_b.random() < 0.25):
            _plant_near_ties(rng_b, c)
        if cls == "exact_duplicates":
            _plant_duplicates(rng_b, c)
        if cls == "on_axis" or (cls in ("tilted", "curved", "wavy", "arbitrary_labels", "narrow_cone", "wide_cone", "small_n", "thin_range",
                                         "tight_capacity", "sandwich") and rng_b.random() < 0.35):
            _plant_on_axis(rng_b, c, 0.33 if cls == "on_axis" else 0.15)
        if cls == "block_counts":
            _reorder_best_last(rng_b, c)
        src, tgt = _roles(c)
        if not src.any() or not tgt.any():
            regen["no_source_or_target"] += 1
            continue
        T = _table(c)
        if T.max_candidates() >= CAP:
            regen["ge25_candidates"] += 1
            continue
        if T.margin < EPS:
            regen["boundary_1e-9"] += 1
            continue
        if T.tie_gap < EPS and cls != "exact_duplicates":
            regen["distance_tie"] += 1
            continue
        st = T.stats()
        cc = T.cand_counts()
        st["mean_cand"] = round(float(cc.mean()), 3)
        st["min_cand"] = int(cc.min())
        c["stats"] = st
        c["cand_counts"] = cc
        rich = st["admissible"] >= 3 and st["tgt_contested"] >= 1 and st["inrange_rejected_cone"] + st["inrange_behind"] >= 1
        if cls in ("sandwich", "flipped_normals"):
            rich = rich and st["behind_in_backward_cone"] >= 1
        if cls == "thin_range":
            rich = rich and st["out_of_range_in_cone"] >= 1
        if cls == "dense_even":
            rich = st["mean_cand"] > 16.0
        if cls == "block_counts":
            rich = st["admissible"] >= 3
        if cls == "near_ties":
            rich = rich and len(c.get("near_tie_plants", [])) >= 2
        if cls == "exact_duplicates":
            rich = rich and T.tie_gap == 0.0
        st["on_axis_admissible"] = int((T.A & (T.ANG < 1e-6)).sum())
        if cls == "on_axis":
            rich = rich and st["on_axis_admissible"] >= 4
        if not rich and attempt < 30:
            regen["poor"] += 1
            continue
        case = c
        break
    if case is None:
        return {"i": i, "cls": cls, "ood": True, "stats": {}, "summary": {"unusable": True, "class": cls, "regenerated": regen}}
    case.update(i=i, cls=cls, ood=False, regen=regen)
    r2 = ctx.rng(i, 7)
    case["capacity"] = "tight" if cls == "tight_capacity" or r2.random() < 0.15 else "25"
    case["perm_targets"] = bool(r2.random() < 0.35)
    case["f32_out"] = bool(r2.random() < 0.25)
    case["layout"] = str(r2.choice(["C", "C", "F", "strided", "reversed", "wider"]))
    case["readonly"] = bool(r2.random() < 0.25)
    case["scalar_kind"] = str(r2.choice(["py", "py", "np64", "0d"])) if not case["meta"].get("integral_scalars") else str(r2.choice(["int", "npint"]))
    if case["f32_out"] and case["layout"] != "C":
        case["f32_out"] = False          # keeps the number of numba specialisations of the kernel small (layout x output dtype)
    case["extra_motions"] = (8 if ctx.tier == "quick" else 5) if cls == "dense_even" else 0
    case["summary"] = dict(case["meta"], cls=cls, voxel=case["voxel"], max_thickness=round(case["max_nm"], 6), max_angle=round(case["ang"], 6),
                           direction=case["direction"], stats=case["stats"], regenerated=regen, p0=[round(float(x), 6) for x in case["P"][0]],
                           kernel=[case["capacity"], case["perm_targets"], case["f32_out"]],
                           arrays=[case["layout"], "readonly" if case["readonly"] else "writable", case["scalar_kind"]])
    return case


def gen(ctx, i, cls):
    return _make(ctx, i, cls)


def nontrivial(case):
    st = case.get("stats") or {}
    if case.get("cls") == "block_counts":
        return bool(st) and st["admissible"] >= 3
    return bool(st) and st["admissible"] >= 3 and st["tgt_contested"] >= 1 and st["inrange_rejected_cone"] + st["inrange_behind"] >= 1


# ---- driver --------------------------------------------------------------------------------------
def _as_layout(a, kind):
    """An array with the same values and dtype in another memory layout (all writable views of a private buffer)."""
    if kind == "F" and a.ndim == 2:
        return np.asfortranarray(a)
    if kind == "strided":                                  # every second row of a longer buffer
        big = np.zeros((2 * len(a),) + a.shape[1:], dtype=a.dtype)
        v = big[::2]
        v[...] = a
        return v
    if kind == "reversed":                                 # negative stride along the first axis
        base = a[::-1].copy()
        return base[::-1]
    if kind == "wider" and a.ndim == 2:                    # three columns of a wider table (e.g. x,y,z out of a point table)
        big = np.full((len(a), a.shape[1] + 3), 7.5, dtype=a.dtype)
        v = big[:, 2:2 + a.shape[1]]
        v[...] = a
        return v
    if kind == "wider":
        return _as_layout(a, "strided")
    return a.copy()


def _scalar(x, kind):
    if kind == "np64":
        return np.float64(x)
    if kind == "0d":
        return np.array(x, dtype=np.float64)
    if kind == "int" and float(x) == int(x):
        return int(x)
    if kind == "npint" and float(x) == int(x):
        return np.int64(int(x))
    return float(x)


def _mt_call(ctx, label, c, P, N, m1, m2, voxel, max_nm, direction, num_threads=None):
    """The arrays are handed over as they are (caller-owned; the driver modifies them in place between calls)."""
    ctx.c20_last = None
    ctx.c20_driver_call = True
    kind = c.get("scalar_kind", "py")
    ro = bool(c.get("readonly")) and "in place" not in label
    arrs = (P, N, m1, m2)
    try:
        if ro:
            for a in arrs:
                a.flags.writeable = False
        ok, r = ctx.call(label, ctx.mt.measure_thickness_cpu, P, N, m1, m2, _scalar(voxel, kind),
                         max_thickness_nm=_scalar(max_nm, kind), max_angle_degrees=_scalar(c["ang"], kind), direction=direction,
                         num_threads=num_threads, logger=ctx.log)
    finally:
        ctx.c20_driver_call = False
        if ro:
            for a in arrs:
                a.flags.writeable = True
    for nm_, v_ in (("layout=" + c.get("layout", "C"), 1), ("readonly" if ro else "writable", 1), ("scalars=" + kind, 1)):
        kk = "cpu_calls_with_" + nm_
        ctx.extra[kk] = ctx.extra.get(kk, 0) + v_
    info = ctx.c20_last
    if ok:
        try:
            r = tuple(np.array(x) for x in r)
            ok = len(r) == 3
        except Exception:
            ok = False
    return ok, r, info


def _same_pairing(r0, r1, scale, what):
    (t0, v0, p0), (t1, v1, p1) = r0, r1
    if v0.shape != v1.shape or not np.array_equal(v0.astype(bool), v1.astype(bool)):
        k = int(np.flatnonzero(v0.astype(bool) != v1.astype(bool))[0]) if v0.shape == v1.shape else -1
        return {"what": what + ": set of measured sources changed", "first_point": k, "n_before": int(v0.sum()), "n_after": int(v1.sum())}
    vm = v0.astype(bool)
    if not np.array_equal(p0[vm], p1[vm]):
        k = int(np.flatnonzero(vm)[np.flatnonzero(p0[vm] != p1[vm])[0]])
        return {"what": what + ": partner changed", "source": k, "before": int(p0[k]), "after": int(p1[k]), "n_changed": int((p0[vm] != p1[vm]).sum())}
    a = t0[vm].astype(np.float64) * scale
    b = t1[vm].astype(np.float64)
    bad = np.abs(a - b) > 1e-5 * np.abs(a)
    if bad.any():
        k = int(np.flatnonzero(vm)[np.flatnonzero(bad)[0]])
        return {"what": what + ": thickness", "source": k, "before": float(t0[k]), "scale": scale, "after": float(t1[k])}
    return None


def run_case(ctx, c):
    if c.get("ood"):
        for m in MON_CPU + MON_REL + MON_KER + MON_ASG:
            ctx.ood(m)
        return
    rng = ctx.rng(c["i"], 1)
    # caller-owned arrays of this history: modified IN PLACE between the calls, never re-allocated
    lay = c.get("layout", "C")
    P, N, m1, m2 = _as_layout(c["P"], lay), _as_layout(c["N"], lay), _as_layout(c["m1"], lay), _as_layout(c["m2"], lay)
    d = c["direction"]
    ok0, r0, i0 = _mt_call(ctx, "measure_thickness_cpu", c, P, N, m1, m2, c["voxel"], c["max_nm"], d,
                           num_threads=ctx.nt_default if c["i"] % 4 == 0 else None)
    base_ok = ok0 and i0 is not None and i0["in_domain"]
    # -- rigid motion(s) of all points and normals, written into the same arrays
    for k in range(1 + int(c.get("extra_motions", 0))):
        R = so3.random_rotations(rng, 1)[0]
        t = rng.uniform(-300.0, 300.0, 3)
        np.copyto(P, c["P"] @ R.T + t)
        N2 = c["N"] @ R.T
        np.copyto(N, N2 / np.linalg.norm(N2, axis=1, keepdims=True))
        ok1, r1, i1 = _mt_call(ctx, "measure_thickness_cpu(moved in place)", c, P, N, m1, m2, c["voxel"], c["max_nm"], d)
        if base_ok and ok1 and i1 is not None and i1["in_domain"] and i0["unique"] and i1["unique"]:
            w = _same_pairing(r0, r1, 1.0, "rigid motion")
            ctx.check("rigid_motion", w is None, w)
        else:
            ctx.ood("rigid_motion")
    np.copyto(P, c["P"])
    np.copyto(N, c["N"])
    # -- voxel-size scaling with max_thickness scaled (arrays restored in place)
    s = float(rng.choice([2.0, 0.5, 10.0, 0.1])) if rng.random() < 0.4 else float(rng.uniform(0.1, 20.0))
    ok2, r2, i2 = _mt_call(ctx, "measure_thickness_cpu(voxel*s)", c, P, N, m1, m2, c["voxel"] * s, c["max_nm"] * s, d)
    if base_ok and ok2 and i2 is not None and i2["in_domain"] and i0["unique"]:
        w = _same_pairing(r0, r2, s, "voxel scaling s=%r" % s)
        ctx.check("voxel_scaling", w is None, w)
    else:
        ctx.ood("voxel_scaling")
    # -- '2to1' == masks swapped
    od = "2to1" if d == "1to2" else "1to2"
    ok3, r3, i3 = _mt_call(ctx, "measure_thickness_cpu(swapped)", c, P, N, m2, m1, c["voxel"], c["max_nm"], od)
    if base_ok and ok3 and i3 is not None and i3["in_domain"]:
        w = None
        for k, nm in enumerate(("thickness_results", "valid_mask", "point_pairs")):
            if r0[k].shape != r3[k].shape or not np.array_equal(r0[k], r3[k]):
                j = int(np.flatnonzero(r0[k] != r3[k])[0]) if r0[k].shape == r3[k].shape else -1
                w = {"what": "direction=%s with (m1,m2) differs from direction=%s with (m2,m1)" % (d, od), "array": nm, "first_index": j}
                break
        ctx.check("direction_swap", w is None, w)
    else:
        ctx.ood("direction_swap")
    _kernel_part(ctx, c, rng, P, N, m1, m2)
    _assignment_direct(ctx, c, rng, i0)
    if c["i"] % 3 == 0:
        _mutate_in_place_step(ctx, c, rng, P, N, m1, m2)


def _mutate_in_place_step(ctx, c, rng, P, N, m1, m2):
    """Third kind of step of the history: a few points moved, a few normals turned, a few labels exchanged - all in place - then the
    CPU path and the kernel are called again on the very same arrays (judged by the call monitors on the current values)."""
    n = len(P)
    k = max(1, n // 20)
    max_vox = c["max_nm"] / c["voxel"]
    idx = rng.choice(n, k, replace=False)
    P[idx] += rng.normal(0.0, 0.05 * max_vox, (k, 3))
    idx = rng.choice(n, k, replace=False)
    N[idx] = _perturb(rng, N[idx], 0.5 * c["ang"])
    idx = rng.choice(n, k, replace=False)
    a, b = m1[idx].copy(), m2[idx].copy()
    m1[idx] = b
    m2[idx] = a
    d = c["direction"]
    _mt_call(ctx, "measure_thickness_cpu(points/normals/labels edited in place)", c, P, N, m1, m2, c["voxel"], c["max_nm"], d)
    src, tgt = (m1, m2) if d == "1to2" else (m2, m1)
    if not (src.any() and tgt.any()):
        return
    Te = orc.Table(P, N, src, tgt, max_vox, c["ang"])
    if Te.margin < EPS or Te.max_candidates() >= CAP:        # the edit left the quantifier: no kernel call to judge
        return
    md = np.full((n, CAP), -1.0); mi = np.full((n, CAP), -1, dtype=np.int64); mc = np.zeros(n, dtype=np.int64)
    ctx.numba.set_num_threads(ctx.nt)
    try:
        ctx.call("find_matches_parallel(edited in place)", ctx.mt.find_matches_parallel, P, N, src, tgt, np.flatnonzero(tgt), max_vox,
                 float(np.cos(np.radians(c["ang"]))), md, mi, mc)
    finally:
        ctx.numba.set_num_threads(ctx.nt_default)


def _synthetic_candidates(rng):
    """Explicit candidate list for the assignment step with planted conflicts: two candidates sharing a source (or a target) whose
    distances differ by 6e-9 .. 9e-7 (>= 2.5e-9 relative), the farther one carrying the lower index in half of the plants."""
    ns = int(rng.integers(3, 41)); nt = int(rng.integers(3, 41))
    n_points = ns + nt + int(rng.integers(0, 20))
    ids = rng.permutation(n_points)
    S = np.sort(ids[:ns])
    Tt = np.sort(ids[ns:ns + nt]) if rng.random() < 0.8 else np.sort(rng.choice(n_points, nt, replace=False))
    cand = {}
    for a, s_ in enumerate(S.tolist()):
        k = int(rng.integers(1, 7))
        js = np.clip(np.round(a * nt / ns + rng.integers(-3, 4, k)).astype(int), 0, nt - 1)
        for j in set(js.tolist()):
            cand[(s_, int(Tt[j]))] = float(rng.uniform(3.0, 12.0))
    planted = 0
    by_s, by_t = {}, {}
    for (s_, t_) in cand:
        by_s.setdefault(s_, []).append(t_)
        by_t.setdefault(t_, []).append(s_)
    groups = [("s", k, v) for k, v in by_s.items() if len(v) >= 2] + [("t", k, v) for k, v in by_t.items() if len(v) >= 2]
    order = rng.permutation(len(groups))[:8]
    for q, gi in enumerate(order.tolist()):
        kind, key, members = groups[gi]
        lo, hi = sorted(int(x) for x in rng.choice(members, 2, replace=False))
        far_low = bool(q % 2 == 0)
        base = float(rng.uniform(3.0, 6.0))
        gap = float(np.exp(rng.uniform(np.log(6e-9), np.log(9e-7))))
        gap = max(gap, 2.5e-9 * base)
        far, near = (lo, hi) if far_low else (hi, lo)
        if kind == "s":
            cand[(key, far)] = base + gap
            cand[(key, near)] = base
        else:
            cand[(far, key)] = base + gap
            cand[(near, key)] = base
        planted += 1
    items = list(cand.items())
    lst = [items[j] for j in rng.permutation(len(items)).tolist()]
    if rng.random() < 0.5:
        fm = [(np.float64(d), np.int64(s_), np.int64(t_)) for (s_, t_), d in lst]
    else:
        fm = [(float(d), int(s_), int(t_)) for (s_, t_), d in lst]
    return fm, n_points, planted


def _assignment_direct(ctx, c, rng, info):
    """Drive the assignment step directly: (a) a synthetic candidate list with planted near-tie conflicts, (b) the admissible pairs of
    this case's own geometry with the oracle's distances, in shuffled order."""
    pm = ctx.mt.process_matches_cpu2cpu
    fm, n_points, planted = _synthetic_candidates(rng)
    voxel = float(rng.choice([1.0, 0.784, 13.48])) if rng.random() < 0.5 else float(rng.uniform(0.3, 15.0))
    ctx.call("process_matches_cpu2cpu(synthetic list)", pm, fm, n_points, voxel)
    ctx.extra["assignment_conflicts_planted(gap 6e-9..9e-7)"] = ctx.extra.get("assignment_conflicts_planted(gap 6e-9..9e-7)", 0) + planted
    if info is not None and info["T"].A.any():
        T = info["T"]
        si, tj = np.nonzero(T.A)
        o = rng.permutation(len(si))
        fm2 = [(np.float64(T.D[si[k], tj[k]]), np.int64(T.src[si[k]]), np.int64(T.tgt[tj[k]])) for k in o.tolist()]
        ctx.call("process_matches_cpu2cpu(admissible pairs of the case)", pm, fm2, T.n, c["voxel"])


def _kernel_part(ctx, c, rng, P, N, m1, m2):
    nb = ctx.numba
    src, tgt = (m1, m2) if c["direction"] == "1to2" else (m2, m1)
    n = len(P)
    ti = np.flatnonzero(tgt)
    if c["perm_targets"]:
        ti = rng.permutation(ti)
    cap = CAP if c["capacity"] == "25" else max(1, int(c["stats"]["max_cand"]))
    dt = np.float32 if c["f32_out"] else np.float64
    max_vox = c["max_nm"] / c["voxel"]
    cosv = np.cos(np.radians(c["ang"]))

    def fresh():
        return np.full((n, cap), -1.0, dtype=dt), np.full((n, cap), -1, dtype=np.int32), np.full(n, -7, dtype=np.int32)

    def run(nt, out):
        nb.set_num_threads(nt)
        try:
            return ctx.call("find_matches_parallel[%s thread%s]" % ("1" if nt == 1 else "N", "" if nt == 1 else "s"), ctx.mt.find_matches_parallel,
                            P, N, src, tgt, ti, max_vox, cosv, out[0], out[1], out[2])[0]
        finally:
            nb.set_num_threads(ctx.nt_default)

    o1 = fresh()
    ro = bool(c.get("readonly")) and c.get("layout", "C") == "C"      # read-only inputs: one more numba specialisation only
    ins = (P, N, src, tgt, ti)
    try:
        if ro:
            for a in ins:
                a.flags.writeable = False
            ctx.extra["kernel_calls_with_readonly_inputs"] = ctx.extra.get("kernel_calls_with_readonly_inputs", 0) + 1
        ok1 = run(1, o1)
    finally:
        if ro:
            for a in ins:
                a.flags.writeable = True
    kk = "kernel_calls_with_layout=" + c.get("layout", "C")
    ctx.extra[kk] = ctx.extra.get(kk, 0) + 1
    if ctx.bc_alive:
        ctx.check("kernel_boundscheck", ok1, {"what": "kernel raised under NUMBA_BOUNDSCHECK=1 with 1 thread", "n": n, "capacity": cap})
    if ctx.nt < 2:
        ctx.ood("kernel_threads")
        return
    oN = fresh()
    okN = run(ctx.nt, oN)
    if not (ok1 and okN):
        ctx.ood("kernel_threads")
        return
    w = None
    for k, nm in enumerate(("match_distances", "match_indices", "match_counts")):
        if o1[k].tobytes() != oN[k].tobytes():
            neq = np.argwhere(~((o1[k] == oN[k]) | ((o1[k] != o1[k]) & (oN[k] != oN[k]))))
            w = {"what": "1-thread and %d-thread outputs differ" % ctx.nt, "array": nm, "first": neq[0].tolist() if len(neq) else "bytes only",
                 "n_different": int(len(neq))}
            break
    ctx.check("kernel_threads", w is None, w)
    # -- buffers REUSED without re-initialising, roles of the two surfaces exchanged: the rows of the new sources hold the counts and
    #    candidates of the previous call; only the candidates of the current call count (judged by the call monitor)
    ti2 = np.flatnonzero(src)
    T2 = orc.Table(P, N, tgt, src, max_vox, c["ang"])
    if T2.margin >= EPS and T2.max_candidates() < CAP and T2.max_candidates() <= cap:      # inside the quantifier with exchanged roles too
        nb.set_num_threads(ctx.nt if c["i"] % 2 else 1)
        try:
            ctx.call("find_matches_parallel(reused buffers, roles exchanged)", ctx.mt.find_matches_parallel, P, N, tgt, src, ti2, max_vox, cosv,
                     oN[0], oN[1], oN[2])
        finally:
            nb.set_num_threads(ctx.nt_default)
        ctx.extra["kernel_calls_on_reused_buffers"] = ctx.extra.get("kernel_calls_on_reused_buffers", 0) + 1
    ctx.extra["kernel_thread_pairs_compared"] = ctx.extra.get("kernel_thread_pairs_compared", 0) + 1
    ctx.extra["kernel_bytes_compared"] = ctx.extra.get("kernel_bytes_compared", 0) + sum(int(a.nbytes) for a in o1)


# ---- exhaustive sub-space: cone lattice ----------------------------------------------------------
def _block_sweep(ctx):
    """Every block-boundary count 2**k-1, 2**k, 2**k+1 (k = 4..9) as the number of TARGETS and as the number of SOURCES, both
    directions (powers of two twice, 511/513 four times, 512 six times; 511/512/513 also with 600 points in total): CPU path + kernel (1 and N threads)."""
    items = []
    for v in BLOCK_VALUES:
        for role in ("targets", "sources"):
            for direction in ("1to2", "2to1"):
                reps = 6 if v == 512 else 4 if v in (511, 513) else 2 if (v & (v - 1)) == 0 else 1
                for rep_ in range(reps):
                    items.append((v, role, direction, rep_))
    done = 0
    for j, (v, role, direction, rep_) in enumerate(items):
        r = ctx.rng(3 * 10 ** 6 + j, 5)
        hi = 600 - v
        lo = max(2, 20 - v)
        other = hi if (v >= 511 and rep_ == 0 and direction == "1to2") else int(r.integers(lo, min(hi, 110) + 1))
        ov = {"nA": other, "nB": v, "direction": direction} if role == "targets" else {"nA": v, "nB": other, "direction": direction}
        c = _make(ctx, 3 * 10 ** 6 + j, "block_counts", ov)
        ctx.cur = {"index": "extra", "cls": "block_sweep", "summary": {"planted": "%s=%d" % (role, v), "other_sheet": other, "direction": direction,
                                                                      "case": core_jsonable(c.get("summary"))}}
        if c.get("ood"):
            continue
        P, N, m1, m2 = c["P"].copy(), c["N"].copy(), c["m1"].copy(), c["m2"].copy()
        _mt_call(ctx, "measure_thickness_cpu(block sweep)", c, P, N, m1, m2, c["voxel"], c["max_nm"], c["direction"])
        _kernel_part(ctx, c, r, P, N, m1, m2)
        done += 1
    ctx.cur = {"index": "extra", "cls": "exhaustive"}
    ctx.extra["block_sweep: sources / targets = 2**k-1, 2**k, 2**k+1 (k=4..9) x 2 directions (powers of two twice, 512 six times)"] = done


def core_jsonable(x):
    from vmon import core
    return core.jsonable(x)


def extra(ctx):
    _cone_lattice(ctx)
    _block_sweep(ctx)


def _cone_lattice(ctx):
    """For every integer max_angle 1..30 and both directions: one source whose targets sit on a lattice of polar angles just
    inside / just outside the cone (forward and backward) x ranges inside / outside x 4 azimuths, embedded with a random rigid
    motion; judged by the call monitors (CPU path and kernel)."""
    rng = ctx.rng(10 ** 6, 3)
    calls = 0
    for ang in range(1, 31):
        for direction in ("1to2", "2to1"):
            a = float(ang)
            thetas = [0.4 * a, a - 0.2, a + 0.2, 1.7 * a + 3.0, 180.0 - 0.4 * a, 180.0 - a + 0.2, 90.0]
            radii = [0.55, 0.93, 1.06]
            max_vox = 7.0
            pts = [[0.0, 0.0, 0.0]]
            for th in thetas:
                for r in radii:
                    for az in (0.3, 1.9, 3.5, 5.1):
                        rr = r * max_vox * (1 + 0.01 * len(pts) / 100.0)
                        pts.append([rr * np.sin(np.radians(th)) * np.cos(az), rr * np.sin(np.radians(th)) * np.sin(az), rr * np.cos(np.radians(th))])
            X = np.array(pts)
            n = len(X)
            Nn = np.tile([0.0, 0.0, 1.0], (n, 1))
            R = so3.random_rotations(rng, 1)[0]
            P = np.ascontiguousarray(X @ R.T + rng.uniform(0, 500, 3))
            Nn = Nn @ R.T
            Nn = np.ascontiguousarray(Nn / np.linalg.norm(Nn, axis=1, keepdims=True))
            msrc = np.zeros(n, bool); msrc[0] = True
            mt = ~msrc
            m1, m2 = (msrc, mt) if direction == "1to2" else (mt, msrc)
            voxel = 1.35
            c = {"ang": a}
            _mt_call(ctx, "measure_thickness_cpu(cone lattice)", c, P, Nn, m1, m2, voxel, max_vox * voxel, direction)
            md = np.full((n, CAP), -1.0); mi = np.full((n, CAP), -1, dtype=np.int32); mc = np.full(n, -7, dtype=np.int32)
            ctx.call("find_matches_parallel(cone lattice)", ctx.mt.find_matches_parallel, P, Nn, msrc, mt, np.flatnonzero(mt), max_vox,
                     np.cos(np.radians(a)), md, mi, mc)
            calls += 1
    ctx.extra["cone_lattice: max_angle 1..30 x 2 directions, 84 targets each (7 polar angles x 3 ranges x 4 azimuths)"] = calls
