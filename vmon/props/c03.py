"""C03 - RELION <-> cryoCAT conversion preserves each particle's pose and identity.

Call monitors (attached in place, so calls made from inside cryoCAT - converters, write_out, constructors - are judged):
  export_df          post(RelionMotl.create_relion_df), use_original_entries=False, binning 1.0:
                     rlnCoordinate = x+shift, origin = 0, Rz(rot)Ry(tilt)Rz(psi) = R^T, class, half-set = parity of the
                     subtomogram number, tomogram / subtomogram number readable from the generated names.
  star_export        post(RelionMotl.write_out): the same clauses on the WRITTEN file, tokenised by oracles/c03_oracle
                     (6-decimal tolerance), particle block named data_ (3.0) / data_particles (>= 3.1).
  import_df          post(RelionMotl.convert_to_motl): xyz = rlnCoordinate, shift = -origin (/pixel size for >= 3.1),
                     zxz rotation = M^T, tomo_id / class / geom3 from names, subtomo_id unique, parity = half-set.
  angles_to_relion / angles_from_relion / shifts     post of the three single-purpose converters.
Driver (relational):
  roundtrip_mem      export -> RelionMotl(relion_df) returns every particle (position, orientation, tomo, class, geom3, parity)
  roundtrip_file     write_out -> RelionMotl(path)   the same within STAR precision
  converters         emmotl2relion / stopgap2relion output files against the ORIGINAL table; relion2emmotl /
                     relion2stopgap read them back
  import_indep       files / frames produced by the independent RELION writer (origins in px for 3.0, Angstrom >= 3.1,
                     optional data_optics) against the generator's own truth (version, pixel size)
  history            three-step histories: export / write / read back after in-place edits of the object's table or of a
                     caller-owned table handed over again; import of a caller-owned RELION table edited in place (new object
                     and the same holder object again) - every step against the values held at that moment
  import_halfset_single   counts the import_df evaluations whose rlnRandomSubset column holds ONE distinct value (N = 1,
                     one-half files) and repeats their parity verdict; the clause itself is part of import_df / import_indep
"""
import os

import numpy as np
import pandas as pd

from vmon import gens, monitors
from vmon.oracles import files, so3
from vmon.oracles import c03_oracle as O

PROP = "C03"
RULE = ("cases = (particle table, RELION version, pixel size, name formats, optics on/off, converter path) + an independent "
        "RELION data set (version, pixel-size source, name style, half-sets, loader); stratified over orientation classes "
        "(random, exact/near gimbal lock, +-720 deg, 45-deg lattice), signed positions, N=1, N large, duplicate subtomogram "
        "numbers, absent/single half-set, numeric/padded names, pixel-size extremes, optics-only pixel size, EM / STOPGAP "
        "file inputs, exact duplicate particles, |position| >= 1e5 with a fraction and identifiers at 1e5 / 2**24 / 2**31 / 2**53 "
        "boundaries, particle counts 2**k-1 / 2**k / 2**k+1 (k = 6..8) and 299 / 300, numbers with unusual text forms or just "
        "below a 6-decimal rounding tie; non-trivial = N >= 2 and a non-zero shift and a non-zero RELION origin and an orientation with "
        "theta not a multiple of 360; distinct by digest of (class, version, pixel size, formats, N, first rows, loader)")
ASSUMPTIONS = [
    "particle rotation R = Rz(psi)Rx(theta)Rz(phi) (zxz extrinsic, hand-written matrices); RELION M = Rz(rot)Ry(tilt)Rz(psi); property: M = R^T",
    "name layouts are the documented ones: <=3.1 .../<tomo>_<px>.mrc and .../<tomo>_<sub>_<px>.mrc, 4.0 TS_<tomo> and TS_<tomo>/<sub>; numeric names are the numbers",
    "binning = 1.0 (as the converters pass it); one optics group; use_original_entries=False",
    "rotation matrices entry-wise: 1e-9 in memory, 1e-6 through a STAR file (6 decimals), 5e-7 when |sin(tilt)| < 5e-7 "
    "(scipy's as_euler gimbal threshold 1e-7 rad; DESIGN section 3 allows 1e-4 deg there)",
    "positions: 1e-9 in memory, 0.5e-6 through a STAR file; particles are matched by row order",
    "pixel size is known to the importer by constructor argument, an rlnPixelSize column or a one-row data_optics rlnImagePixelSize",
    "a particle list may hold the same particle twice (exact duplicate rows): every row is a particle and must survive",
    "identifiers are whole numbers below 2**53 (tomogram / subtomogram numbers; class numbers below 2**31 + 2 because they "
    "travel as floats through pandas' text parser, which is not correctly rounded at 2**53)",
]
CLASSES = ["random", "gimbal", "near_gimbal", "wide_angles", "lattice", "signed_pos", "n1", "n_large", "dup_subtomo",
           "no_halfset", "halfset_single", "numeric_names", "padded_names", "pixel_extremes", "optics_only_pixel",
           "em_file_input", "sg_star_input", "dup_particles", "large_coords", "block_sizes", "odd_number_text"]
VERSIONS = [3.0, 3.1, 4.0]
BLOCK_SIZES = [63, 64, 65, 127, 128, 129, 255, 256, 257, 299, 300]       # 2**k-1, 2**k, 2**k+1 inside the quantifier's 1..300, and its end
BIG_IDS = [[100000, 100001], [2 ** 24, 2 ** 24 + 1], [2 ** 31 - 1, 2 ** 31, 2 ** 31 + 1], [2 ** 53 - 2, 2 ** 53 - 1]]
BIG_COORDS = [99999.5, 100000.25, 123456.789012, 262144.5, 1048576.123456, 10000000.5, 100000.0000005, 999999.999999]
ODD_VALUES = [3e-06, 5e-05, 1e-06, 1e-05, 0.0000005, 0.4999995, 0.5 - 2.0 ** -30, float(np.nextafter(0.5, 0)), 2.5e-06 - 1e-9, 7.5e-06 - 1e-7, -3e-06, -0.0]
ODD_TOKENS = ["+3", ".5", "5.", "1E2", "3e-06", "1e+05", "-.25", "+.5", "9.E1", "1E-3", "-0.0", "1e-05", "7", "+45"]
NUMERIC = set(O.COORD + O.ANGLES + O.ORIGIN_PX + O.ORIGIN_A + ["rlnClassNumber", "rlnRandomSubset", "rlnPixelSize"])


def plan(tier):
    # floors = about 85 % of the evaluations the DRIVER's own calls produce (measured with tools/audit_call_structure.sh, i.e.
    # with the call monitors blind to calls made from inside cryoCAT); core requires half of the stated figure
    if tier == "quick":
        return dict(n_cases=378, shards=4, classes=CLASSES, timeout_s=600,
                    min_evals={"export_df": 1050, "star_export": 630, "import_df": 1270, "angles_to_relion": 320,
                               "angles_from_relion": 320, "shifts": 320, "roundtrip_mem": 340, "roundtrip_file": 340,
                               "converters": 640, "import_indep": 640, "import_halfset_single": 120, "history": 1500,
                               "completes:RelionMotl(frame)": 50, "completes:relion2emmotl(frame)": 50})
    return dict(n_cases=5040, shards=16, classes=CLASSES, timeout_s=3000,
                min_evals={"export_df": 12500, "star_export": 7500, "import_df": 15000, "angles_to_relion": 3800,
                           "angles_from_relion": 3800, "shifts": 3800, "roundtrip_mem": 4500, "roundtrip_file": 4500,
                           "converters": 8000, "import_indep": 8000, "import_halfset_single": 1200, "history": 12000,
                           "completes:RelionMotl(frame)": 600, "completes:relion2emmotl(frame)": 600})


# ---- helpers shared by the call monitors ----------------------------------------------------------------
def _table_ok(df):
    if not isinstance(df, pd.DataFrame) or len(df) < 1 or sorted(map(str, df.columns)) != sorted(gens.COLS):
        return False
    try:
        v = df[gens.COLS].to_numpy(dtype=float)
    except Exception:
        return False
    if not np.all(np.isfinite(v)):
        return False
    ids = df[["subtomo_id", "tomo_id"]].to_numpy(dtype=float)
    return bool(np.all(ids == np.round(ids)) and np.all(ids >= 0))


def _frame_to_rel(df):
    """label -> float array (numeric labels; None when not numeric) / list of python objects (names)"""
    rel = {}
    for c in df.columns:
        c = str(c)
        if c in NUMERIC:
            try:
                rel[c] = np.asarray(df[c].to_numpy(), dtype=float).copy()
            except Exception:
                rel[c] = None
        else:
            rel[c] = list(df[c].tolist())
    return rel


def _tokens_to_rel(cols):
    return {lab: (O.to_float(t) if lab in NUMERIC else list(t)) for lab, t in cols.items()}


def _export_version(A):
    v = A.get("version")
    if v is None:
        v = getattr(A["self"], "version", None)
    return 3.1 if v is None else v


def _export_applicable(A):
    if A.get("use_original_entries"):
        return False
    v = _export_version(A)
    if v not in VERSIONS or not _table_ok(getattr(A["self"], "df", None)):
        return False
    b = A.get("binning")
    if b is None:
        b = getattr(A["self"], "binning", None)
    return b == 1.0 or (b is None and v < 4.0)


def _export_snapshot(A):
    v = float(_export_version(A))
    return {"snap": O.snap_motl(A["self"].df), "version": v,
            "names": O.formats_follow_layout(A["tomo_format"], A["subtomo_format"], v)}


def _export_post(ctx, A, old, result):
    if not isinstance(result, pd.DataFrame):
        ctx.check("export_df", False, {"clause": "returns a table", "got": type(result).__name__})
        return
    w = O.check_export(old["snap"], _frame_to_rel(result), old["version"], O.TOL_POS_MEM, O.TOL_ROT_MEM, old["names"])
    ctx.check("export_df", w is None, dict(w or {}, version=old["version"]))


def file_export_witness(path, snap, version, names=(True, True)):
    """tokenise a written RELION file independently and evaluate the export clauses at STAR precision"""
    try:
        text = open(path).read()
    except OSError as e:
        return {"clause": "file written", "error": str(e)}
    blocks = O.tokenize_star(text)
    bname = O.version_names(version)[3]
    cols = O.block_columns(O.block_by_name(blocks, bname))
    if cols is None:
        return {"clause": "one well-formed %s block" % bname, "blocks": [(b["name"], len(b["rows"]), b["errors"][:2]) for b in blocks]}
    return O.check_export(snap, _tokens_to_rel(cols), version, O.TOL_POS_FILE, O.TOL_ROT_FILE, names)


def _write_post(ctx, A, old, result):
    w = file_export_witness(str(A["output_path"]), old["snap"], old["version"], old["names"])
    ctx.check("star_export", w is None, dict(w or {}, version=old["version"], file=os.path.basename(str(A["output_path"]))))


def _infer_version(self_version, arg_version, columns):
    for v in (self_version, arg_version):
        if v is not None:
            return v
    cols = set(columns)
    if "rlnTomoName" in cols or "rlnTomoParticleName" in cols:
        return 4.0
    if "rlnMicrographName" in cols and "rlnOriginXAngst" in cols:
        return 3.1
    if "rlnMicrographName" in cols and "rlnOriginX" in cols:
        return 3.0
    return None


def _infer_pixel(pre_ps, rel, optics, n):
    ps = None
    if pre_ps is not None:
        ps = pre_ps
    elif rel.get("rlnPixelSize") is not None:
        ps = rel["rlnPixelSize"]
    elif isinstance(optics, pd.DataFrame) and len(optics) == 1 and "rlnImagePixelSize" in optics.columns:
        ps = optics["rlnImagePixelSize"].to_numpy()
    if ps is None:
        return None
    try:
        ps = np.asarray(ps, dtype=float).ravel()
    except Exception:
        return None
    if ps.size not in (1, n) or not np.all(np.isfinite(ps)) or not np.all(ps > 0):
        return None
    return ps


def _import_applicable(A):
    df = A["relion_df"]
    if not isinstance(df, pd.DataFrame) or len(df) < 1:
        return False
    cols = set(map(str, df.columns))
    if not set(O.COORD + O.ANGLES) <= cols:
        return False
    rel = _frame_to_rel(df[[c for c in df.columns if str(c) in NUMERIC]])
    return all(v is not None and np.all(np.isfinite(v)) for v in rel.values())


def _import_snapshot(A):
    s, df = A["self"], A["relion_df"]
    rel = _frame_to_rel(df)
    v = _infer_version(getattr(s, "version", None), A.get("version"), rel.keys())
    optics = getattr(s, "optics_data", None)
    if optics is None:
        optics = A.get("optics_df")
    return {"rel": rel, "version": v, "ps": _infer_pixel(getattr(s, "pixel_size", None), rel, optics, len(df))}


def judge_import(ctx, monitor, df, rel, version, ps, tol_pos=O.TOL_POS_MEM, tol_rot=O.TOL_ROT_MEM, extra=None, single=False):
    w, info = O.check_import(df, rel, version, ps, tol_pos, tol_rot)
    ctx.check(monitor, w is None, dict(w or {}, version=version, **(extra or {})))
    if single and info is not None and (w is None or not info["ok"]):      # single-valued half-set column reached the parity clause
        ctx.check("import_halfset_single", info["ok"], dict(info["witness"] or {}, version=version, all_rows_rlnRandomSubset=info["single"],
                                                           particles=len(df), at=monitor, **(extra or {})))


def _import_post(ctx, A, old, result):
    if old["version"] not in VERSIONS:
        ctx.ood("import_df")
        return
    judge_import(ctx, "import_df", A["self"].df, old["rel"], float(old["version"]), old["ps"], single=True)


def _a2r_applicable(A):
    return _table_ok(getattr(A["self"], "df", None))


def _a2r_snapshot(A):
    return O.snap_motl(A["self"].df)


def _a2r_post(ctx, A, old, result):
    try:
        rel = {a: np.asarray(result[a].to_numpy(), dtype=float) for a in O.ANGLES}
    except Exception as e:
        ctx.check("angles_to_relion", False, {"clause": "returns the three RELION angle columns", "error": str(e)[:200]})
        return
    if any(len(v) != old["n"] for v in rel.values()):
        ctx.check("angles_to_relion", False, {"clause": "one row per particle", "rows": len(rel["rlnAngleRot"]), "particles": old["n"]})
        return
    M = O.relion_rot(rel["rlnAngleRot"], rel["rlnAngleTilt"], rel["rlnAnglePsi"])
    Rt = np.transpose(O.motl_rot(old["phi"], old["theta"], old["psi"]), (0, 2, 1))
    w = O.rot_mismatch(M, Rt, O.at_pole(old["theta"]), O.TOL_ROT_MEM, O.TOL_ROT_POLE)
    if w:
        r = w["row"]
        w.update({"zxz_phi_theta_psi": [old["phi"][r], old["theta"][r], old["psi"][r]], "relion_rot_tilt_psi": [float(rel[a][r]) for a in O.ANGLES]})
    ctx.check("angles_to_relion", w is None, w)


def _afr_applicable(A):
    df = A["relion_df"]
    if not isinstance(df, pd.DataFrame) or len(df) < 1 or not set(O.ANGLES) <= set(map(str, df.columns)):
        return False
    try:
        return bool(np.all(np.isfinite(df[O.ANGLES].to_numpy(dtype=float))))
    except Exception:
        return False


def _afr_snapshot(A):
    return A["relion_df"][O.ANGLES].to_numpy(dtype=float).copy()


def _afr_post(ctx, A, old, result):
    df = A["self"].df
    if len(df) != len(old):
        ctx.check("angles_from_relion", False, {"clause": "one particle per row", "particles": len(df), "rows": len(old)})
        return
    R = O.motl_rot(df["phi"].to_numpy(float), df["theta"].to_numpy(float), df["psi"].to_numpy(float))
    Mt = np.transpose(O.relion_rot(old[:, 0], old[:, 1], old[:, 2]), (0, 2, 1))
    w = O.rot_mismatch(R, Mt, O.at_pole(old[:, 1]), O.TOL_ROT_MEM, O.TOL_ROT_POLE)
    if w:
        r = w["row"]
        w.update({"relion_rot_tilt_psi": old[r].tolist(), "zxz_phi_theta_psi": [float(df[c].iloc[r]) for c in ("phi", "theta", "psi")]})
    ctx.check("angles_from_relion", w is None, w)


def _shift_state(A):
    s, df = A["self"], A["relion_df"]
    v = getattr(s, "version", None)
    if v not in VERSIONS or not isinstance(df, pd.DataFrame) or len(df) < 1:
        return None
    origin, angst = O.version_names(v)[2], O.version_names(v)[4]
    if not set(origin) <= set(map(str, df.columns)):
        return None
    try:
        o = df[origin].to_numpy(dtype=float).copy()
    except Exception:
        return None
    ps = _infer_pixel(getattr(s, "pixel_size", None), {}, None, len(df)) if angst else None
    if not np.all(np.isfinite(o)) or (angst and ps is None):
        return None
    return {"o": o, "ps": ps, "angst": angst, "version": v}


def _shift_post(ctx, A, old, result):
    df = A["self"].df
    exp = -old["o"] / old["ps"].reshape(-1, 1) if old["angst"] else -old["o"]
    try:
        got = df[["shift_x", "shift_y", "shift_z"]].to_numpy(dtype=float)
    except Exception as e:
        ctx.check("shifts", False, {"clause": "numeric shifts", "error": str(e)[:200]})
        return
    w = O._vec_mismatch("shift = -origin" + (" / pixel size" if old["angst"] else ""), got, exp, O.TOL_POS_MEM, 1e-9,
                        labels=["shift_x", "shift_y", "shift_z"])
    if w:
        w.update({"version": old["version"], "pixel_size": old["ps"].ravel()[:1].tolist() if old["ps"] is not None else None,
                  "origin_row": old["o"][w["row"]].tolist()})
    ctx.check("shifts", w is None, w)


def setup(ctx):
    from cryocat import cryomotl
    ctx.cm = cryomotl
    RM = cryomotl.RelionMotl
    f_create = monitors.wrap(ctx, RM, "create_relion_df", "export_df", _export_post, _export_applicable, _export_snapshot)
    f_write = monitors.wrap(ctx, RM, "write_out", "star_export", _write_post, _export_applicable, _export_snapshot)
    f_conv = monitors.wrap(ctx, RM, "convert_to_motl", "import_df", _import_post, _import_applicable, _import_snapshot)
    f_a2r = monitors.wrap(ctx, RM, "convert_angles_to_relion", "angles_to_relion", _a2r_post, _a2r_applicable, _a2r_snapshot)
    f_afr = monitors.wrap(ctx, RM, "convert_angles_from_relion", "angles_from_relion", _afr_post, _afr_applicable, _afr_snapshot)
    f_shift = monitors.wrap(ctx, RM, "convert_shifts", "shifts", _shift_post, lambda A: _shift_state(A) is not None, _shift_state)
    ctx.declare("roundtrip_mem", "roundtrip_file", "converters", "import_indep", "import_halfset_single", "history")
    monitors.trace(ctx, [
        ("RelionMotl.convert_angles_from_relion", f_afr, {"convert": "rot_ZYZ = rot.from_euler"}),
        ("RelionMotl.convert_angles_to_relion", f_a2r),
        ("RelionMotl.convert_shifts", f_shift, {"divide_by_pixel_size": "self.df[motl_column].values / self.pixel_size"}),
        ("RelionMotl.parse_tomo_id", RM.parse_tomo_id, {"numeric_names": ("tomo_idx = micrograph_names", 0),
                                                        "string_names": ("tomo_idx.append(float(re.search", 0),
                                                        "fallback_numeric": ("tomo_idx = micrograph_names", 1),
                                                        "fallback_from_subtomo_name": ("tomo_idx.append(float(re.findall", 0),
                                                        "fallback_v3": "tomo_position = -1", "fallback_v4": "tomo_position = 0"}),
        ("RelionMotl.parse_subtomo_id", RM.parse_subtomo_id, {"numeric_names": "subtomo_idx = image_names",
                                                              "v4_plain_number": "subtomo_idx.append(float(j))",
                                                              "v3_second_number": "subtomo_idx.append(float(re.findall",
                                                              "renumber_duplicates": "np.arange(1, relion_df.shape[0] + 1, 1)",
                                                              "halfset_renumber": "halfset_num = relion_df",
                                                              "same_half_step2": "c += 2", "other_half_step1": "c += 1"}),
        ("RelionMotl.convert_to_motl", f_conv),
        ("RelionMotl.set_pixel_size", RM.set_pixel_size, {"given": "return", "from_rlnPixelSize": 'self.pixel_size = self.relion_df["rlnPixelSize"].values',
                                                          "from_optics_one_group": "self.pixel_size = pixel_size_optics[0]",
                                                          "multi_group": "self.pixel_size = np.zeros", "default_1": "self.pixel_size = 1.0"}),
        ("RelionMotl.set_version", RM.set_version, {"already_set": "return", "argument": "self.version = version",
                                                    "infer_4": "self.version = 4.0", "infer_3_1": ("self.version = 3.1", 0),
                                                    "infer_3_0": "self.version = 3.0", "default_3_1": ("self.version = 3.1", 1)}),
        ("RelionMotl.get_version_from_file", RM.get_version_from_file, {"v3_0": "version = 3.0", "v4_0": "version = 4.0", "v3_1": "version = 3.1"}),
        ("RelionMotl.read_in", RM.read_in, {"optics_block": "optics_df = frames[optics_id]"}),
        ("RelionMotl.prepare_particles_data", RM.prepare_particles_data,
         {"tomo_numeric": 'relion_df[tomo_name] = self.df["tomo_id"].astype(int)', "tomo_format": "tomo_sequence, tomo_digits = find_longest_sequence",
          "subtomo_numeric": 'relion_df[subtomo_name] = self.df["subtomo_id"].values.astype(int)',
          "subtomo_format": "subtomo_sequence, subtomo_digits = find_longest_sequence", "tomo_in_subtomo_name": ("relion_df[subtomo_name] = relion_df.apply(", 1),
          "pixel_column": 'relion_df["rlnPixelSize"] = pixel_size'}),
        ("RelionMotl.create_relion_df", f_create, {"original_entries": "relion_df = self.adapt_original_entries()",
                                                   "halfsets": '.eq(0).to_numpy(), "rlnRandomSubset"] = 2',
                                                   "binning_scaling": 'relion_df["rlnCoordinate" + coord] * binning'}),
        ("RelionMotl.prepare_optics_data", RM.prepare_optics_data, {"optics_v3_1": "optics_df = self.create_optics_group_v3_1()",
                                                                    "optics_v4": "optics_df = self.create_optics_group_v4()"}),
        ("RelionMotl.create_final_output", RM.create_final_output, {"no_optics": "frames = [relion_df]", "optics_first": "frames = [optics_df, relion_df]"}),
        ("RelionMotl.write_out", f_write, {"with_optics": "optics_df = self.prepare_optics_data", "without_optics": "optics_df = None"}),
        ("emmotl2relion", cryomotl.emmotl2relion, {"written": "rln_motl.write_out("}),
        ("relion2emmotl", cryomotl.relion2emmotl, {"update_coordinates": "em_motl.update_coordinates()", "written": "em_motl.write_out(output_motl_path)"}),
        ("relion2stopgap", cryomotl.relion2stopgap, {"update_coordinates": "sg_motl.update_coordinates()", "written": "sg_motl.write_out("}),
        ("stopgap2relion", cryomotl.stopgap2relion, {"written": "rln_motl.write_out("}),
    ])


# ---- generator ------------------------------------------------------------------------------------------
def _near_gimbal_theta(rng, n):
    dev = np.where(rng.random(n) < 0.5, 1e-7, 10.0 ** rng.uniform(-9, -3, n))
    return rng.choice([0.0, 180.0], n) + rng.choice([-1.0, 1.0], n) * dev


def _euler(rng, n, cls):
    kind = {"gimbal": "gimbal", "wide_angles": "wide", "lattice": "lattice", "random": "random"}.get(cls, "mixed")
    a = so3.random_euler(rng, n, kind)
    if cls == "near_gimbal":
        a[:, 1] = _near_gimbal_theta(rng, n)
    elif kind == "mixed" and n >= 4:
        a[0, 1] = _near_gimbal_theta(rng, 1)[0]
    return a


def _formats(rng, version, cls, ps):
    """(tomo_format, subtomo_format) following the documented layouts"""
    px = "%.2fA" % ps
    k = int(rng.integers(0, 3)) if cls == "numeric_names" or (cls != "padded_names" and rng.random() < 0.2) else 3
    padded = cls == "padded_names"
    nx, ny = int(rng.integers(2 if padded else 1, 6)), int(rng.integers(2 if padded else 1, 8))
    X, Y = "$" + "x" * nx, "$" + "y" * ny
    dx, dy = "$" + "x" * int(rng.integers(1, max(2, nx))), "$" + "y" * int(rng.integers(1, max(2, ny)))   # shorter runs: kept verbatim
    if version < 4.0:
        tfs = ["/data/tomos/%s_%s.rec" % (X, px), "tomo_%s.mrc" % X, "/d/run7/2023/TS_%s_%s.mrc" % (X, px), "%s.rec" % X]
        sfs = ["/data/sub/%s/%s_%s_%s.mrc" % (X, X, Y, px), "subtomo/TS_%s_%s.mrc" % (X, Y), "/s/bin4/%s_%s_bin4.mrc" % (X, Y),
               "%s_%s.mrc" % (X, Y)]
        if padded:        # decoys: shorter runs and digits in directory parts only
            tfs = ["/d/%s/set1/%s_%s.rec" % (dx, X, px), "/a1/b22/%s_%s/tomo%s.mrc" % (dx, dy, X)]
            sfs = ["/s/%s/%s/%s_%s_%s.mrc" % (dy, dx, X, Y, px), "/q7/%s/%s_%s/t%s_p%s.mrc" % (X, dx, dy, X, Y)]
    else:
        tfs = ["TS_%s" % X, "/abs/path/TS_%s" % X, "tomo%s" % X, "%s" % X]
        sfs = ["TS_%s/%s" % (X, Y), "/abs/TS_%s/%s" % (X, Y), "tomo%s/sub/%s" % (X, Y), "%s" % Y]
        if padded:
            tfs = ["/d/%s/r2/TS_%s" % (dx, X), "/a1/%s_%s/TS_%s.tomostar" % (dx, dy, X)]
            sfs = ["TS_%s/%s/%s" % (X, dy, Y), "/q7/%s_%s/%s" % (dx, dy, Y)]
    tf, sf = tfs[int(rng.integers(0, len(tfs)))], sfs[int(rng.integers(0, len(sfs)))]
    if k == 0:
        tf = sf = ""
    elif k == 1:
        tf = ""
    elif k == 2:
        sf = ""
    return tf, sf


def _pixel(rng, cls):
    if cls == "pixel_extremes":
        return float(rng.choice([0.5, 15.0, 0.7312, 13.33, 0.5001, 14.9999]))
    if rng.random() < 0.5:
        return float(rng.choice([1.0, 1.35, 2.5, 2.671, 3.42, 7.0, 10.88]))
    return float(np.round(rng.uniform(0.5, 15.0), 4))


def _f(v, nd=6):
    return "%.*f" % (nd, v)


def _typed(ps, pstype):
    """the pixel size as the Python / numpy type under which the caller hands it over"""
    return {"int": int, "np.int64": np.int64, "np.float32": np.float32}.get(pstype, float)(ps)


def _index_plan(rng, n):
    """how an in-memory RELION table is selected / reordered / relabelled before it is handed to cryoCAT:
    (mode, positions kept in their new order, index labels or None = whatever .iloc leaves)"""
    mode = ["none", "sorted", "filtered", "relabel", "gapped"][int(rng.choice([0, 1, 1, 2, 2, 3, 3, 4]))]
    order, labels = np.arange(n), None
    if mode == "sorted":
        order = rng.permutation(n)
    elif mode == "filtered":
        keep = rng.random(n) < 0.6
        keep[int(rng.integers(0, n))] = True
        if n > 1 and keep.all():
            keep[int(rng.integers(0, n))] = False
        order = np.nonzero(keep)[0]
    elif mode == "relabel":
        labels = rng.permutation(n) * 2 + 5
    elif mode == "gapped":
        labels = np.arange(n) * 3 + 7
    return {"mode": mode, "order": [int(j) for j in order], "labels": None if labels is None else [int(j) for j in labels]}


def _apply_index(frame, plan):
    f = frame.iloc[plan["order"]]
    if plan["labels"] is not None:
        f = f.copy()
        f.index = plan["labels"]
    return f


def _gen_relion(rng, cls, version, big, n_override=None, path_only=False):
    """An independent RELION data set: ordered [(label, tokens)], truth arrays derived from the TOKENS."""
    n = int(rng.choice([2, 3, 4, 6, 9, 15, 30]))
    if cls == "n1":
        n = 1
    elif cls == "n_large":
        n = int(rng.choice([120, 300])) if not big else 300
    elif cls == "halfset_single" and rng.random() < 0.3:
        n = 1
    if n_override is not None:
        n = n_override
    ps = _pixel(rng, cls)
    pstype = "float"
    if cls != "pixel_extremes" and rng.random() < 0.45:
        pstype = ["int", "np.int64", "np.float32"][int(rng.choice([0, 1, 1, 2]))]
        if pstype == "np.float32":
            ps = float(np.float32(ps))
        else:
            ps = float(rng.choice([1, 2, 4, 8, 3, 13]))
    tomo_col, sub_col, origin, bname, angst = O.version_names(version)
    # identity
    k = int(rng.integers(1, 5))
    tomos = np.sort(rng.choice(np.arange(1, 400), size=k, replace=False))
    tomo = np.sort(rng.choice(tomos, n)) if rng.random() < 0.7 else rng.choice(tomos, n)
    if cls == "dup_subtomo":
        sub = np.zeros(n, dtype=int)
        for t in np.unique(tomo):
            m = tomo == t
            sub[m] = np.arange(1, m.sum() + 1)
        if len(np.unique(sub)) == n and n > 1:       # force a repetition
            sub[-1] = sub[0]
    else:
        sub = rng.permutation(np.arange(1, n + 1) * int(rng.integers(1, 4)) + int(rng.integers(0, 5000)))
    half = rng.integers(1, 3, n)
    if n >= 2 and len(set(half.tolist())) == 1:
        half[int(rng.integers(0, n))] = 3 - half[0]
    halfmode = "both"
    if cls == "no_halfset" or (cls in ("random", "numeric_names") and rng.random() < 0.25) or (cls == "dup_subtomo" and rng.random() < 0.5):
        halfmode = "absent"
    elif cls == "halfset_single" or n == 1:
        half[:] = int(rng.integers(1, 3))
        halfmode = "single"
    klass = rng.integers(1, 7, n)
    # pose
    signed = cls == "signed_pos" or rng.random() < 0.2
    coords = rng.uniform(-900 if signed else 1, 900, (n, 3))
    if rng.random() < 0.3:
        coords = np.round(coords)
    sub, tomo = np.asarray(sub, dtype=np.int64), np.asarray(tomo, dtype=np.int64)
    planted = _plant_relion(rng, cls, n, coords, sub, tomo)
    org = rng.uniform(-12, 12, (n, 3)) * (4.0 if cls == "signed_pos" else 1.0)
    org[rng.random((n, 3)) < 0.1] = 0.0
    ang = np.column_stack([rng.uniform(-180, 180, n), rng.uniform(0, 180, n), rng.uniform(-180, 180, n)])
    acls = cls if cls in ("gimbal", "near_gimbal", "wide_angles", "lattice", "random") else ["random", "gimbal", "near_gimbal", "wide_angles", "lattice"][int(rng.integers(0, 5))]
    if acls == "gimbal":
        ang[:, 1] = rng.choice([0.0, 180.0], n)
    elif acls == "near_gimbal":
        ang[:, 1] = _near_gimbal_theta(rng, n)
    elif acls == "wide_angles":
        ang = rng.uniform(-720, 720, (n, 3))
    elif acls == "lattice":
        ang = rng.integers(-8, 9, (n, 3)) * 45.0
    atok = (lambda v: repr(float(v))) if acls == "near_gimbal" else (lambda v: _f(v))
    # names (plain Python formatting, documented layouts)
    wt, ws = int(rng.integers(1, 6)), int(rng.integers(1, 8))
    style = int(rng.integers(0, 3))
    numeric = cls == "numeric_names"
    pxs = "%.2fA" % ps
    if numeric:
        tname = ["%d" % t for t in tomo]
        sname = ["%d" % s for s in sub]
    elif version < 4.0:
        tname = [["/data/tomos/%0*d_%s.rec" % (wt, t, pxs), "TS_%0*d.mrc" % (wt, t), "/r3/x9/tomo_%0*d_bin4.rec" % (wt, t)][style] for t in tomo]
        sname = [["/data/sub/%0*d/%0*d_%0*d_%s.mrc" % (wt, t, wt, t, ws, s, pxs), "Extract/TS_%0*d_%0*d.mrc" % (wt, t, ws, s),
                  "/r3/x9/%0*d_%0*d_bin4.mrc" % (wt, t, ws, s)][style] for t, s in zip(tomo, sub)]
    else:
        tname = [["TS_%0*d" % (wt, t), "/abs/TS_%0*d" % (wt, t), "tomo%0*d" % (wt, t)][style] for t in tomo]
        sname = [["TS_%0*d/%0*d" % (wt, t, ws, s), "TS_%0*d/%d" % (wt, t, s), "tomo%0*d/%0*d" % (wt, t, ws, s)][style] for t, s in zip(tomo, sub)]
    no_tomo_col = (not numeric) and rng.random() < 0.2
    # pixel-size source
    if version < 3.1:
        src = ["column", "arg", "none"][int(rng.integers(0, 3))]
    elif version < 4.0:
        src = ["optics", "column", "arg"][int(rng.integers(0, 3))]
    else:
        src = ["optics", "arg"][int(rng.integers(0, 2))]
    if cls == "optics_only_pixel":
        src = "optics" if version >= 3.1 else "column"
    pstok = _f(ps) if rng.random() < 0.5 else repr(ps)
    if pstype == "np.float32":
        pstok = repr(ps)
    elif pstype != "float":
        pstok = "%d" % ps              # an integer-typed rlnPixelSize column / optics value once read
    cols = [(l, [_f(v) for v in coords[:, j]]) for j, l in enumerate(O.COORD)]
    cols += [(l, [atok(v) for v in ang[:, j]]) for j, l in enumerate(O.ANGLES)]
    drop_origin = cls == "random" and rng.random() < 0.15
    if not drop_origin:
        cols += [(l, [_f(v) for v in org[:, j]]) for j, l in enumerate(origin)]
    if not no_tomo_col:
        cols.append((tomo_col, tname))
    cols.append((sub_col, sname))
    if not (cls == "random" and rng.random() < 0.15):
        cols.append(("rlnClassNumber", ["%d" % c for c in klass]))
    if halfmode != "absent":
        cols.append(("rlnRandomSubset", ["%d" % h for h in half]))
    if src == "column":
        cols.append(("rlnPixelSize", [pstok] * n))
    if version >= 3.1:
        cols.append(("rlnOpticsGroup", ["1"] * n))
    extras = [("rlnCtfImage", ["/ctf/%s_ctf.mrc" % (s.rsplit("/", 1)[-1]) for s in sname]), ("rlnMagnification", ["10000.000000"] * n),
              ("rlnDetectorPixelSize", [_f(ps)] * n), ("rlnGroupNumber", ["%d" % t for t in tomo]),
              ("rlnLogLikeliContribution", [_f(v) for v in rng.uniform(1e4, 1e6, n)]), ("rlnNrOfSignificantSamples", ["%d" % v for v in rng.integers(1, 99, n)])]
    for e in extras:
        if rng.random() < 0.35:
            cols.append(e)
    if cls == "odd_number_text" or rng.random() < 0.15:      # number tokens in unusual but legal forms (+3 .5 5. 1E2 3e-06 ...)
        for lab, toks in cols:
            if lab in O.COORD + O.ANGLES + list(origin):
                for r in range(n):
                    if rng.random() < 0.35:
                        toks[r] = str(rng.choice(ODD_TOKENS))
        planted.append("odd-tokens")
    if n >= 2 and (cls == "dup_particles" or rng.random() < 0.2):       # the same RELION row twice
        for _ in range(int(rng.integers(1, 4)) if cls == "dup_particles" else 1):
            r_from, r_to = (int(v) for v in rng.choice(n, size=2, replace=False))
            for lab, toks in cols:
                toks[r_to] = toks[r_from]
        planted.append("duplicates")
    order = rng.permutation(len(cols))
    cols = [cols[j] for j in order]
    optics = None
    if src == "optics":
        optics = [("rlnOpticsGroup", ["1"]), ("rlnOpticsGroupName", ["opticsGroup1"]), ("rlnSphericalAberration", ["2.700000"]),
                  ("rlnVoltage", ["300.000000"]), ("rlnImagePixelSize", [pstok]), ("rlnImageSize", ["%d" % int(rng.choice([32, 64, 128]))]),
                  ("rlnImageDimensionality", ["3"])]
        if version >= 4.0:
            optics[4:4] = [("rlnTomoTiltSeriesPixelSize", [_f(ps / 4.0)]), ("rlnTomoSubtomogramBinning", ["4.000000"])]
    rel = {lab: (O.to_float(t) if lab in NUMERIC else list(t)) for lab, t in cols}
    # loader
    discoverable = src in ("column", "optics") or version < 3.1
    loaders = ["RelionMotl(path)", "RelionMotl(path,version,pixel_size)", "relion2emmotl", "relion2stopgap", "RelionMotl(frame)", "relion2emmotl(frame)"]
    loader = loaders[int(rng.choice([0, 1, 2, 3] if path_only else [0, 1, 2, 3, 4, 4, 4, 5, 5, 5]))]
    if not discoverable and loader in ("RelionMotl(path)", "relion2stopgap"):
        loader = ["RelionMotl(path,version,pixel_size)", "relion2emmotl"][int(rng.integers(0, 2))]
    if no_tomo_col and "(frame)" in loader and version < 4.0:
        loader = "RelionMotl(path)" if discoverable else "RelionMotl(path,version,pixel_size)"
    return {"n": n, "version": version, "ps": float(pstok), "pstype": pstype, "findex": _index_plan(rng, n), "src": src, "cols": cols, "optics": optics, "rel": rel, "loader": loader,
            "halfmode": halfmode, "block": bname, "angle_class": acls, "no_tomo_col": bool(no_tomo_col), "numbered": bool(rng.random() < 0.8),
            "sep": [" ", "\t", "  "][int(rng.integers(0, 3))], "width": int(rng.choice([0, 12, 13])), "opt": int(rng.integers(0, 4)),
            "has_origin": not drop_origin, "name0": [tname[0], sname[0]], "planted": planted}


def _plant(rng, T, cls, big):
    """rare-but-legal content a random generator does not produce: exact duplicate rows, |position| >= 1e5 with a
    fractional part, adjacent identifiers at representability boundaries, values whose text form is unusual or that
    sit just below a 6-decimal rounding tie.  -> list of what was planted"""
    n, planted = len(T), []
    free_ids = cls not in ("no_halfset", "padded_names", "em_file_input", "n1")
    if cls == "large_coords" or rng.random() < 0.3:
        rows = rng.choice(n, size=max(1, n // 2) if cls == "large_coords" else min(n, int(rng.integers(1, 4))), replace=False)
        for r in rows:
            for c in rng.choice(["x", "y", "z"], size=int(rng.integers(1, 4)), replace=False):
                v = float(rng.choice(BIG_COORDS)) if rng.random() < 0.6 else float(np.round(10.0 ** rng.uniform(5, 7) + rng.random(), 7))
                if cls == "large_coords" and rng.random() < 0.05:
                    v = 1e16
                T.loc[r, c] = v * float(rng.choice([-1.0, 1.0]))
        planted.append("coords>=1e5")
    if free_ids and n >= 2 and (cls == "large_coords" or rng.random() < 0.2):
        grp = BIG_IDS[int(rng.integers(0, len(BIG_IDS)))]
        rows = rng.choice(n, size=min(n, len(grp)), replace=False)
        T.loc[rows, "subtomo_id"] = np.array(grp[:len(rows)], dtype=float)
        if rng.random() < 0.5:
            g2 = BIG_IDS[int(rng.integers(0, len(BIG_IDS)))]
            k2 = min(len(rows), len(g2))
            T.loc[rows[:k2], "tomo_id"] = np.array(g2[:k2], dtype=float)
        if rng.random() < 0.5:
            g3 = BIG_IDS[int(rng.integers(0, 3))]
            k3 = min(len(rows), len(g3))
            T.loc[rows[:k3], "class"] = np.array(g3[:k3], dtype=float)
        planted.append("ids:%d" % grp[0])
    if cls == "odd_number_text" or rng.random() < 0.2:
        for _ in range(max(2, n // 2) if cls == "odd_number_text" else 2):
            r = int(rng.integers(0, n))
            c = str(rng.choice(["shift_x", "shift_y", "shift_z", "x", "phi", "theta", "psi"]))
            v = float(rng.choice(ODD_VALUES))
            if c.startswith("shift") and rng.random() < 0.5:
                T.loc[r, c[-1]] = float(rng.integers(-3, 4))          # whole-number x: the complete position keeps the odd fraction
            T.loc[r, c] = v + (float(rng.integers(0, 50)) * 1e-6 if rng.random() < 0.3 else 0.0)
        planted.append("odd-text")
    if n >= 2 and cls != "n1" and (cls == "dup_particles" or rng.random() < 0.3):
        m = int(rng.integers(1, 4)) if cls == "dup_particles" else 1
        for _ in range(m):
            src, dst = (int(v) for v in rng.choice(n, size=2, replace=False))
            if rng.random() < 0.3 and src + 1 < n:
                dst = src + 1                                        # adjacent copies
            T.iloc[dst] = T.iloc[src].to_numpy()
            if rng.random() < 0.4:                                   # same particle, different score (scores are not exported)
                T.loc[T.index[dst], "score"] = float(np.round(rng.random(), 6))
        planted.append("duplicates")
    return planted


def _plant_relion(rng, cls, n, coords, sub, tomo):
    """the same for the independent RELION data (before the tokens are formatted)"""
    planted = []
    if cls == "large_coords" or rng.random() < 0.25:
        for r in rng.choice(n, size=max(1, n // 2) if cls == "large_coords" else 1, replace=False):
            j = int(rng.integers(0, 3))
            coords[r, j] = float(rng.choice(BIG_COORDS)) * float(rng.choice([-1.0, 1.0]))
        planted.append("coords>=1e5")
    if n >= 2 and cls in ("large_coords", "random", "signed_pos") and rng.random() < 0.6:
        grp = BIG_IDS[int(rng.integers(0, len(BIG_IDS)))]
        rows = rng.choice(n, size=min(n, len(grp)), replace=False)
        sub[rows] = grp[:len(rows)]
        if rng.random() < 0.5:
            g2 = BIG_IDS[int(rng.integers(0, 3))]
            k2 = min(len(rows), len(g2))
            tomo[rows[:k2]] = g2[:k2]
        planted.append("ids:%d" % grp[0])
    return planted


def gen(ctx, i, cls):
    rng = ctx.rng(i)
    big = ctx.tier == "thorough"
    version = VERSIONS[(i // len(CLASSES)) % 3]
    n = int(rng.choice([2, 3, 4, 6, 10, 17, 33])) if not big else int(rng.choice([2, 3, 5, 9, 20, 60, 150]))
    if cls == "n1":
        n = 1
    elif cls == "n_large":
        n = int(rng.choice([100, 300])) if not big else 300
    k_cycle = i // len(CLASSES)
    if cls == "block_sizes":
        n = BLOCK_SIZES[k_cycle % len(BLOCK_SIZES)]
    signed = cls == "signed_pos"
    T = gens.motl_table(rng, n, tomos=int(rng.integers(1, 5)), ori="random", pos_scale=600.0 if signed else 300.0, signed=signed)
    a = _euler(rng, n, cls)
    T["phi"], T["theta"], T["psi"] = a[:, 0], a[:, 1], a[:, 2]
    if signed:
        s = rng.uniform(-60, 60, (n, 3))
        T["shift_x"], T["shift_y"], T["shift_z"] = s[:, 0], s[:, 1], s[:, 2]
    elif rng.random() < 0.2:
        T.loc[rng.random(n) < 0.5, ["shift_x", "shift_y", "shift_z"]] = 0.0
    if rng.random() < 0.25:
        T[["x", "y", "z"]] = np.round(T[["x", "y", "z"]]) + rng.choice([0.0, 0.5], 1)[0]      # half-integer complete positions after shifts = 0
    if cls == "padded_names":
        T["tomo_id"] = T["tomo_id"] + float(rng.choice([0, 100, 1000, 12000]))
        T["subtomo_id"] = T["subtomo_id"] + float(rng.choice([0, 900, 99990, 1234567]))
    if cls == "no_halfset":              # one half only on the export side
        T["subtomo_id"] = T["subtomo_id"] * 2 - int(rng.integers(0, 2))
    T["class"] = rng.choice([0.0, 1.0, 2.0, 3.0, 12.0], n)
    planted = _plant(ctx.rng(i, 3), T, cls, big)
    ps = _pixel(rng, cls)
    tf, sf = _formats(rng, version, cls, ps)
    optics = bool(version >= 3.1 and (cls == "optics_only_pixel" or rng.random() < 0.5))
    conv = ["emmotl2relion", "stopgap2relion"][int(rng.integers(0, 2))]
    inp = "frame" if rng.random() < 0.6 else {"emmotl2relion": "em_file", "stopgap2relion": "sg_star"}[conv]
    if cls == "em_file_input":
        conv, inp = "emmotl2relion", "em_file"
    elif cls == "sg_star_input":
        conv, inp = "stopgap2relion", "sg_star"
    D = _gen_relion(rng, cls, version, big, n_override=BLOCK_SIZES[(k_cycle + 5) % len(BLOCK_SIZES)] if cls == "block_sizes" else None)
    # a second, different file for the SAME path (same or different particle count, same or another version)
    rng2 = ctx.rng(i, 2)
    v2 = version if rng2.random() < 0.5 else VERSIONS[int(rng2.integers(0, 3))]
    D2 = _gen_relion(rng2, cls, v2, big, n_override=D["n"] if rng2.random() < 0.5 else int(rng2.choice([1, 2, 3, 5, 8, 13])), path_only=True)
    case = {"i": i, "cls": cls, "T": T, "version": version, "ps": ps, "tf": tf, "sf": sf, "optics": optics, "conv": conv, "inp": inp,
            "D": D, "D2": D2, "rt_index": _index_plan(rng2, n), "export_style": ["ctor", "call"][int(rng.integers(0, 2))], "reimport": int(rng.integers(0, 3)),
            "conv_opts": [int(v) for v in rng.integers(0, 2, 4)], "planted": planted,
            "hist": {"delta": [float(v) for v in np.round(ctx.rng(i, 4).uniform(-40, 40, 3), 3)], "dphi": float(np.round(ctx.rng(i, 4).uniform(-170, 170), 2)),
                     "style": int(ctx.rng(i, 4).integers(0, 2))}}
    r0 = {k: float(T[k].iloc[0]) for k in ("x", "shift_x", "phi", "theta", "psi", "subtomo_id", "tomo_id")}
    case["summary"] = {"class": cls, "version": version, "n": n, "pixel_size": ps, "tomo_format": tf, "subtomo_format": sf, "optics": optics,
                       "converter": conv, "converter_input": inp, "row0": r0, "planted": planted, "independent_planted": D["planted"],
                       "reimport_table": case["rt_index"]["mode"],
                       "second_file": {"n": D2["n"], "version": D2["version"], "loader": D2["loader"], "pixel_size": D2["ps"], "pixel_type": D2["pstype"],
                                       "pixel_source": D2["src"]},
                       "independent": {"n": D["n"], "pixel_size": D["ps"], "pixel_type": D["pstype"], "frame_index": D["findex"]["mode"],
                                       "pixel_source": D["src"], "loader": D["loader"], "halfsets": D["halfmode"],
                                       "angles": D["angle_class"], "names": D["name0"], "columns": [c[0] for c in D["cols"]][:6],
                                       "row0": [D["cols"][0][1][0], D["cols"][1][1][0]]}}
    return case


def nontrivial(case):
    T, D = case["T"], case["D"]
    if len(T) < 2:
        return False
    sh = np.abs(T[["shift_x", "shift_y", "shift_z"]].to_numpy()).max() > 0
    th = np.any(np.abs(np.sin(np.radians(T["theta"].to_numpy() / 2.0))) > 1e-3)
    org = D["has_origin"] and any(np.any(D["rel"][l] != 0) for l in O.version_names(D["version"])[2])
    return bool(sh and th and org)


# ---- driver ---------------------------------------------------------------------------------------------
def _write_em(path, T):
    arr = np.zeros((20, len(T), 1))
    for k, c in enumerate(gens.COLS):
        arr[k, :, 0] = T[c].to_numpy(float)
    files.write_em_raw(path, arr, code=5)


def _write_sg(path, T):
    r = lambda c: [repr(float(v)) for v in T[c]]
    ints = lambda c: ["%d" % int(v) for v in T[c]]
    cols = [("motl_idx", ints("subtomo_id")), ("tomo_num", ints("tomo_id")), ("object", ints("object_id")), ("subtomo_num", ints("subtomo_id")),
            ("halfset", ["A" if int(v) % 2 == 0 else "B" for v in T["subtomo_id"]]), ("orig_x", r("x")), ("orig_y", r("y")), ("orig_z", r("z")),
            ("score", r("score")), ("x_shift", r("shift_x")), ("y_shift", r("shift_y")), ("z_shift", r("shift_z")), ("phi", r("phi")),
            ("psi", r("psi")), ("the", r("theta")), ("class", ints("class"))]
    O.write_stopgap_star(path, cols)


def _column_like_a_reader(toks):
    """what reading the column from a STAR file gives: int / float when every token is one, else text"""
    for conv in (int, float):
        try:
            return [conv(t) for t in toks]
        except ValueError:
            pass
    return list(toks)


def _maybe_num(tok):
    try:
        return float(tok)
    except ValueError:
        return tok


def _relation(ctx, monitor, w, **extra):
    ctx.check(monitor, w is None, dict(w or {}, **extra))


def _run_converter(ctx, case, snap, names_ok):
    cm, T, v, ps = ctx.cm, case["T"], case["version"], case["ps"]
    i = case["i"]
    out = os.path.join(ctx.scratch, "converted.star")
    kw = dict(output_motl_path=out, tomo_format=case["tf"], subtomo_format=case["sf"], relion_version=v, pixel_size=ps, binning=1.0,
              write_optics=case["optics"])
    ref = snap
    if case["conv"] == "emmotl2relion":
        src = T.copy()
        if case["inp"] == "em_file":
            src = os.path.join(ctx.scratch, "in_%d.em" % i)
            _write_em(src, T)
            ref = O.snap_motl(T.astype(np.float32).astype(np.float64))
        ok, rm = ctx.call("emmotl2relion", cm.emmotl2relion, src, **kw)
    else:
        src = T.copy()
        if case["inp"] == "sg_star":
            src = os.path.join(ctx.scratch, "in_%d.star" % i)
            _write_sg(src, T)
        ok, rm = ctx.call("stopgap2relion", cm.stopgap2relion, src, **kw)
    if not ok:
        return
    _relation(ctx, "converters", file_export_witness(out, ref, v, names_ok), path=case["conv"], input=case["inp"], version=v)
    # read the written file back through the opposite converter
    o1, o2, o3, _ = case["conv_opts"]
    if case["conv"] == "emmotl2relion":
        emout = os.path.join(ctx.scratch, "back_%d.em" % i) if o1 else None
        ok, back = ctx.call("relion2emmotl", cm.relion2emmotl, out, output_motl_path=emout, pixel_size=ps if o2 else None,
                            update_coordinates=bool(o3))
        label = "relion2emmotl"
    else:
        sgout = os.path.join(ctx.scratch, "back_%d.star" % i) if o1 else None
        ok, back = ctx.call("relion2stopgap", cm.relion2stopgap, out, output_motl_path=sgout, update_coordinates=bool(o3))
        label = "relion2stopgap"
    if ok:
        usable = names_ok[0] and names_ok[1]
        w = O.check_roundtrip(ref, back.df, O.TOL_POS_FILE, O.TOL_ROT_FILE) if usable else None
        if usable:
            _relation(ctx, "converters", w, path=case["conv"] + "->" + label, version=v)
        else:
            ctx.ood("converters")
    for p in (out, src if isinstance(src, str) else None, os.path.join(ctx.scratch, "back_%d.em" % i), os.path.join(ctx.scratch, "back_%d.star" % i)):
        if p and os.path.exists(p):
            os.remove(p)


def _rel_take(rel, order):
    return {lab: (v[order] if isinstance(v, np.ndarray) else [v[j] for j in order]) for lab, v in rel.items()}


def _import_independent(ctx, D, path, tag):
    """write D with the independent writer to `path` (whatever was there before is replaced) and import it"""
    cm = ctx.cm
    v, ps = D["version"], D["ps"]
    blocks = ([("data_optics", D["optics"])] if D["optics"] else []) + [(D["block"], D["cols"])]
    O.write_relion_star(path, blocks, numbered=D["numbered"], sep=D["sep"], width=D["width"], comment="written by the independent writer")
    tps = _typed(ps, D["pstype"])
    psarg = tps if D["src"] == "arg" or (D["opt"] & 1 and D["src"] != "none") else None
    L = D["loader"]
    df, rel = None, D["rel"]
    if L == "RelionMotl(path)":
        ok, m = ctx.call(L, cm.RelionMotl, path)
    elif L == "RelionMotl(path,version,pixel_size)":
        ok, m = ctx.call(L, cm.RelionMotl, path, version=v if D["opt"] & 2 else None, pixel_size=psarg)
    elif L == "relion2emmotl":
        ok, m = ctx.call(L, cm.relion2emmotl, path, relion_version=v if D["opt"] & 2 else None, pixel_size=psarg)
    elif L == "relion2stopgap":
        ok, m = ctx.call(L, cm.relion2stopgap, path)
    else:
        frame = pd.DataFrame({lab: ([float(t) for t in toks] if lab in NUMERIC and not (lab == "rlnPixelSize" and D["pstype"] in ("int", "np.int64"))
                                    else _column_like_a_reader(toks)) for lab, toks in D["cols"]})
        frame = _apply_index(frame, D["findex"])
        rel = _rel_take(rel, D["findex"]["order"])
        need_v = D["no_tomo_col"] or bool(D["opt"] & 2) or not D["has_origin"]
        if L == "RelionMotl(frame)":
            oframe = pd.DataFrame({lab: _column_like_a_reader(t) for lab, t in D["optics"]}) if D["optics"] else None
            ok, m = ctx.call(L, cm.RelionMotl, frame, version=v if need_v else None, pixel_size=psarg, optics_data=oframe)
        else:       # relion2emmotl has no optics argument: the pixel size of an optics block is handed over directly
            ok, m = ctx.call(L, cm.relion2emmotl, frame, relion_version=v if need_v else None,
                             pixel_size=tps if D["src"] == "optics" else psarg)
    # the table converter called directly on a fresh, empty holder with version and pixel size stated (import_df and
    # import_halfset_single judge it whatever route the loaders above take to the converter inside cryoCAT)
    plain = pd.DataFrame({lab: ([float(t) for t in toks] if lab in NUMERIC and not (lab == "rlnPixelSize" and D["pstype"] in ("int", "np.int64"))
                                else _column_like_a_reader(toks)) for lab, toks in D["cols"]})
    okd, m0 = ctx.call("RelionMotl(None,version,pixel_size)", cm.RelionMotl, None, version=v, pixel_size=tps if D["src"] != "none" else None)
    if okd:
        ctx.call("convert_to_motl(frame,version)", m0.convert_to_motl, plain, version=v)
    df = m.df if ok else None
    if df is not None:
        truth_ps = ps if D["src"] != "none" else None       # 3.0 without any pixel size: shifts are in px, nothing to divide
        judge_import(ctx, "import_indep", df, rel, v, truth_ps if v >= 3.1 else 1.0,
                     extra={"loader": L, "pixel_source": D["src"], "pixel_type": D["pstype"], "file": tag,
                            "frame_index": D["findex"]["mode"] if "(frame)" in L else None})


def _run_independent(ctx, case):
    # ONE path for every independent file of the shard: A is written and imported, then B replaces it (other
    # particles, same or other count / version) and is imported through a path loader; the file of the previous
    # case is still there when A is written.
    path = os.path.join(ctx.scratch, "independent.star")
    _import_independent(ctx, case["D"], path, "A")
    _import_independent(ctx, case["D2"], path, "B (replaced A at the same path)")


def _mutate(df, h, step):
    """in-place edit of a particle table; the same edit is applied to the driver's own copy"""
    d = np.array(h["delta"]) * (1 if step == 1 else -0.5)
    df["x"] = df["x"].to_numpy() + d[0]
    df["y"] = df["y"].to_numpy() + d[1]
    df["shift_z"] = df["shift_z"].to_numpy() + d[2]
    df["phi"] = df["phi"].to_numpy() + h["dphi"] * step
    df["theta"] = 180.0 - df["theta"].to_numpy() if step == 1 else df["theta"].to_numpy() * 0.5
    df["class"] = df["class"].to_numpy()[::-1].copy()


def _run_history(ctx, case, names_ok):
    cm, T, v, ps, h = ctx.cm, case["T"], case["version"], case["ps"], case["hist"]
    tf, sf = case["tf"], case["sf"]
    path = os.path.join(ctx.scratch, "history.star")
    mine = T.copy()                               # the driver's record of what the table holds at each moment
    if h["style"] == 0:
        # the object's own table is edited in place between exports
        ok, m = ctx.call("RelionMotl(df,version,pixel_size,binning)", cm.RelionMotl, T.copy(), version=v, pixel_size=ps, binning=1.0)
        if not ok:
            return
        holder = lambda: m
        target = m.df
    else:
        # a caller-owned table is handed over again after being edited in place
        owned = T.copy()
        holder = lambda: ctx.call("RelionMotl(df,version,pixel_size,binning)", cm.RelionMotl, owned, version=v, pixel_size=ps, binning=1.0)[1]
        target = owned
    for step in (0, 1, 2):
        if step:
            _mutate(target, h, step)
            _mutate(mine, h, step)
        m_now = holder()
        if m_now is None:
            return
        now = O.snap_motl(mine)
        ok, rdf = ctx.call("create_relion_df(history)", m_now.create_relion_df, tomo_format=tf, subtomo_format=sf)
        if ok:
            _relation(ctx, "history", O.check_export(now, _frame_to_rel(rdf), v, O.TOL_POS_MEM, O.TOL_ROT_MEM, names_ok) if isinstance(rdf, pd.DataFrame)
                      else {"clause": "returns a table"}, step=step, what="export in memory", style=h["style"], version=v)
        ok, _ = ctx.call("write_out(history)", m_now.write_out, path, write_optics=case["optics"], tomo_format=tf, subtomo_format=sf)
        if ok:
            _relation(ctx, "history", file_export_witness(path, now, v, names_ok), step=step, what="written file", style=h["style"], version=v)
            ok2, back = ctx.call("RelionMotl(path)", cm.RelionMotl, path, pixel_size=ps)
            if ok2:
                _relation(ctx, "history", O.check_roundtrip(now, back.df, O.TOL_POS_FILE, O.TOL_ROT_FILE), step=step, what="file read back",
                          style=h["style"], version=v)
    # import side: a caller-owned RELION table is edited in place and converted again, also by the same holder object
    ok, m0 = ctx.call("RelionMotl(df,version,pixel_size,binning)", cm.RelionMotl, T.copy(), version=v, pixel_size=ps, binning=1.0)
    ok, F = ctx.call("create_relion_df(history)", m0.create_relion_df, tomo_format=tf, subtomo_format=sf) if ok else (False, None)
    if not ok or not isinstance(F, pd.DataFrame):
        return
    origin = O.version_names(v)[2]
    okh, same = ctx.call("RelionMotl(None,version,pixel_size)", cm.RelionMotl, None, version=v, pixel_size=ps)
    for step in (0, 1, 2):
        if step:
            for j, c in enumerate(O.COORD):
                F[c] = F[c].to_numpy() + h["delta"][j] * step
            F["rlnAngleRot"] = F["rlnAngleRot"].to_numpy() + h["dphi"]
            F["rlnAngleTilt"] = 180.0 - F["rlnAngleTilt"].to_numpy()
            F[origin[0]] = F[origin[0]].to_numpy() + 1.25 * step
            F["rlnClassNumber"] = F["rlnClassNumber"].to_numpy()[::-1].copy()
        rel = _frame_to_rel(F)
        ok, b = ctx.call("RelionMotl(relion_df)", cm.RelionMotl, F, version=v, pixel_size=ps)
        if ok:
            w, _ = O.check_import(b.df, rel, v, ps)
            _relation(ctx, "history", w, step=step, what="import of the edited table (new object)", version=v)
        if okh:
            ok, _ = ctx.call("convert_to_motl(history)", same.convert_to_motl, F, version=v)
            if ok:
                w, _ = O.check_import(same.df, rel, v, ps)
                _relation(ctx, "history", w, step=step, what="import of the edited table (same object again)", version=v)
    if os.path.exists(path):
        os.remove(path)


def run_case(ctx, case):
    cm, T, v, ps, i = ctx.cm, case["T"], case["version"], case["ps"], case["i"]
    tf, sf = case["tf"], case["sf"]
    snap = O.snap_motl(T)
    names_ok = O.formats_follow_layout(tf, sf, v)
    if not all(names_ok):
        raise AssertionError("generator produced a format outside the documented layout: %r %r" % (tf, sf))
    # A. export in memory (+ B. import it back)
    if case["export_style"] == "ctor":
        ok, m = ctx.call("RelionMotl(df,version,pixel_size,binning)", cm.RelionMotl, T.copy(), version=v, pixel_size=ps, binning=1.0)
        if ok and tf and i % 4 == 1:
            # the list's table carries row labels other than 0..n-1 (as after filtering / sorting without reset_index): same particles,
            # same order, so the export must be the same row for row
            r7 = ctx.rng(i, 7)
            m.df.index = (r7.permutation(len(m.df)) * 2 + 5) if i % 8 == 1 else (np.arange(len(m.df)) * 3 + 7)
            ctx.extra["export from a table with non 0..n-1 row labels"] = ctx.extra.get("export from a table with non 0..n-1 row labels", 0) + 1
        ok, rdf = ctx.call("create_relion_df", m.create_relion_df, tomo_format=tf, subtomo_format=sf) if ok else (False, None)
    else:
        ok, m = ctx.call("RelionMotl(df)", cm.RelionMotl, T.copy())
        ok, rdf = ctx.call("create_relion_df(version,pixel_size,binning)", m.create_relion_df, tomo_format=tf, subtomo_format=sf,
                           version=v, pixel_size=ps, binning=1.0) if ok else (False, None)
    if ok:
        kw = [dict(), dict(version=v, pixel_size=ps), dict(pixel_size=ps)][case["reimport"]]
        plan = case["rt_index"]
        ok2, back = ctx.call("RelionMotl(relion_df)", cm.RelionMotl, _apply_index(rdf, plan).copy(), **kw)
        if ok2:
            _relation(ctx, "roundtrip_mem", O.check_roundtrip(O.snap_take(snap, plan["order"]), back.df, O.TOL_POS_MEM, O.TOL_ROT_MEM), version=v,
                      reimport_args=sorted(kw), table=plan["mode"])
    # C. through a STAR file
    path = os.path.join(ctx.scratch, "roundtrip.star")
    ok, m = ctx.call("RelionMotl(df,version,pixel_size,binning)", cm.RelionMotl, T.copy(), version=v, pixel_size=ps, binning=1.0)
    if ok:
        ok, _ = ctx.call("write_out", m.write_out, path, write_optics=case["optics"], tomo_format=tf, subtomo_format=sf)
    if ok:
        kw = [dict(), dict(version=v, pixel_size=ps), dict(pixel_size=ps)][(case["reimport"] + 1) % 3]
        ok2, back = ctx.call("RelionMotl(path)", cm.RelionMotl, path, **kw)
        if ok2:
            _relation(ctx, "roundtrip_file", O.check_roundtrip(snap, back.df, O.TOL_POS_FILE, O.TOL_ROT_FILE), version=v, optics=case["optics"],
                      reimport_args=sorted(kw))
    if os.path.exists(path):
        os.remove(path)
    # F. the three single-purpose converters, called directly: whether create_relion_df / convert_to_motl reach them through
    # these public names is an internal matter of cryoCAT (the tables they produce are judged by export_df / import_df either
    # way), so the driver applies them itself and the monitors angles_to_relion / angles_from_relion / shifts are reached in
    # either case
    okf, mf = ctx.call("RelionMotl(df,version,pixel_size,binning)", cm.RelionMotl, T.copy(), version=v, pixel_size=ps, binning=1.0)
    if okf:
        blank = pd.DataFrame({a: np.zeros(len(T)) for a in O.ANGLES})
        ctx.call("convert_angles_to_relion", mf.convert_angles_to_relion, blank)
        if ok and isinstance(rdf, pd.DataFrame) and len(rdf) == len(T):
            src = rdf.reset_index(drop=True)
            ctx.call("convert_angles_from_relion", mf.convert_angles_from_relion, src.copy())
            ctx.call("convert_shifts", mf.convert_shifts, src.copy())
            okg, mg = ctx.call("RelionMotl(None,version,pixel_size)", cm.RelionMotl, None, version=v, pixel_size=ps, binning=1.0)
            if okg:
                ctx.call("convert_to_motl(relion_df)", mg.convert_to_motl, src.copy())
            okh, mh = ctx.call("RelionMotl(df,version,pixel_size,binning)", cm.RelionMotl, T.copy(), version=v, pixel_size=ps, binning=1.0)
            if okh:
                ctx.call("create_relion_df(direct)", mh.create_relion_df, tomo_format=tf, subtomo_format=sf)
    # G. three-step histories with in-place mutation between the calls (every call judged against the values held then)
    if len(T) <= 130 and (i // len(CLASSES) + i % len(CLASSES)) % 3 == 0:       # every class x version, one case in three
        _run_history(ctx, case, names_ok)
    # D. converters
    _run_converter(ctx, case, snap, names_ok)
    # E. independent RELION data
    _run_independent(ctx, case)
