"""C02 - STAR files read back to the same blocks, columns, rows and values.

Monitors (DESIGN.md 4/C02):
  star_written   post(Starfile.write): the text on disk, tokenised by vmon.oracles.star (independent), has the given block
                 names in order, labels in order with the '#n' numbering rule (numbered 1..k unless number_columns=False or
                 a stopgap block), rows in order, numbers equal after 6-decimal rounding, text verbatim.
  star_read      post(Starfile.read): frames/specifiers equal the independent tokenisation of the same file: block names,
                 labels, row count and order, numeric columns as numbers (value of the token), other columns as text.
  roundtrip      driver: write -> read returns the input tables (names, columns, rows, values).
"""
import os

import numpy as np
import pandas as pd

from vmon import monitors
from vmon.oracles import star

PROP = "C02"
RULE = ("cases = generated lists of 1..4 tables (int/float/text columns, 1..200 rows, optional empty last table, block names "
        "data_/data_particles/data_optics/data_stopgap_*, number_columns on/off) written and re-read, plus grammar-generated "
        "STAR texts (comments/blank lines in permitted places, '#n' label comments, tabs/space runs, CRLF/LF, final newline "
        "on/off) read and compared with an independent tokenizer; non-trivial = at least 2 rows and 2 columns in some block "
        "and (a text column, a float needing rounding, more than one block or a layout decoration present); distinct by digest "
        "of block names, shapes, column kinds, layout flags and first row")
ASSUMPTIONS = ["numeric token value = Python float(token) within 1e-12 relative (pandas.to_numeric uses a fast decimal parser that is not correctly rounded for 17-digit mantissas; the property does not ask for ulp-exact parsing)",
               "numeric tolerance after write: 0.5e-6 + 1e-12*|x| (decimal rounding vs numpy round)",
               "one table row per line; blank/comment lines only before a block, between block name and loop_, after the "
               "labels, between blocks (never inside rows, never on the loop_ line)",
               "cells excluded as outside the quantifier: the exact keyword loop_, data_* cells in ONE-column tables (ambiguous text), tokens pandas "
               "reads as NaN/inf/bool, digit groups with underscores, text columns whose tokens are all numeric; other reserved-looking "
               "words (data_001.mrc, save_x, global_, stop_) are ordinary text cells"]

CLASSES = ["tables_relion", "tables_stopgap", "tables_multi", "tables_empty_last", "tables_rounding", "tables_text_heavy",
           "tables_unnumbered", "text_plain", "text_comments", "text_crlf", "text_tabs", "text_label_styles", "text_nofinalnl",
           "text_numeric_forms"]


def plan(tier):
    if tier == "quick":
        return dict(n_cases=420, shards=1, classes=CLASSES, timeout_s=600,
                    min_evals={"star_written": 350, "star_read": 550, "roundtrip": 350})
    return dict(n_cases=9800, shards=14, classes=CLASSES, timeout_s=3000,
                min_evals={"star_written": 4000, "star_read": 9000, "roundtrip": 4000})


TOL_ABS, TOL_REL = 0.5e-6 * (1 + 1e-9), 1e-12


# ---- domain predicates --------------------------------------------------------------------------
def frame_kinds(df):
    """per column 'int'/'float'/'text' or None when the frame is outside the quantifier"""
    kinds = []
    for c in df.columns:
        if not isinstance(c, str) or c == "" or any(ch.isspace() for ch in c) or "#" in c:
            return None
        s = df[c]
        k = s.dtype.kind
        if k in "iu":
            kinds.append("int")
        elif k == "f":
            v = s.to_numpy()
            if not np.all(np.isfinite(v)):
                return None
            kinds.append("float")
        elif k == "b":
            return None
        else:
            vals = list(s)
            if not all(isinstance(v, str) for v in vals):
                return None
            if any(star.bad_text_token(v) for v in vals):
                return None
            if len(df.columns) == 1 and any(v.startswith("data_") for v in vals):
                return None          # a one-column table whose cell looks like a block name is ambiguous STAR text
            if len(vals) and all(star.is_numeric_token(v) for v in vals):
                return None
            kinds.append("text")
    if len(set(df.columns)) != len(df.columns) or len(df.columns) == 0:
        return None
    return kinds


def write_in_domain(frames, specifiers):
    if specifiers is None or not isinstance(frames, list) or not (1 <= len(frames)) or len(frames) != len(specifiers):
        return None
    allk = []
    for j, (f, s) in enumerate(zip(frames, specifiers)):
        if not isinstance(f, pd.DataFrame) or not isinstance(s, str) or not s.startswith("data_") or any(ch.isspace() for ch in s) or "#" in s:
            return None
        if len(f) == 0 and j != len(frames) - 1:
            return None
        k = frame_kinds(f)
        if k is None:
            return None
        allk.append(k)
    return allk


def num_close(a, b, abs_tol, rel_tol):
    a = np.asarray(a, dtype=float)
    b = np.asarray(b, dtype=float)
    return np.abs(a - b) <= abs_tol + rel_tol * np.abs(b)


def compare_blocks_to_tables(blocks, tables, names, kinds, numbered_expected=None):
    """tokenised file vs. in-memory tables.  -> None or witness dict"""
    if [b["name"] for b in blocks] != list(names):
        return {"what": "block names", "file": [b["name"] for b in blocks], "expected": list(names)}
    for bi, (b, t, kk) in enumerate(zip(blocks, tables, kinds)):
        if b["labels"] != list(t.columns):
            return {"what": "labels", "block": bi, "file": b["labels"][:8], "expected": list(t.columns)[:8]}
        if numbered_expected is not None:
            want = list(range(1, len(t.columns) + 1)) if numbered_expected[bi] else [None] * len(t.columns)
            if b["numbers"] != want:
                return {"what": "label numbering", "block": bi, "file": b["numbers"][:8], "expected": want[:8]}
        if len(b["rows"]) != len(t):
            return {"what": "row count", "block": bi, "file": len(b["rows"]), "expected": len(t)}
        for ci, (c, k) in enumerate(zip(t.columns, kk)):
            toks = [r[ci] for r in b["rows"]]
            if k == "text":
                exp = list(t[c])
                bad = [i for i, (x, y) in enumerate(zip(toks, exp)) if x != y]
                if bad:
                    return {"what": "text cell", "block": bi, "column": c, "row": bad[0], "file": toks[bad[0]], "expected": exp[bad[0]]}
            else:
                if not all(star.is_numeric_token(x) for x in toks):
                    i = [star.is_numeric_token(x) for x in toks].index(False)
                    return {"what": "non-numeric token in numeric column", "block": bi, "column": c, "row": i, "file": toks[i]}
                if k == "int":
                    gi = [int(float(x)) if not star.INT_RE.match(x) else int(x) for x in toks]
                    ei = [int(v) for v in t[c].tolist()]
                    if gi != ei:
                        i = [a == b for a, b in zip(gi, ei)].index(False)
                        return {"what": "integer cell", "block": bi, "column": c, "row": i, "file": toks[i], "expected": ei[i]}
                    continue
                got = np.array([float(x) for x in toks]) if toks else np.zeros(0)
                exp = t[c].to_numpy(dtype=float)
                ok = num_close(got, exp, TOL_ABS if k == "float" else 0.0, TOL_REL if k == "float" else 0.0)
                if not ok.all():
                    i = int(np.argmin(ok))
                    return {"what": "numeric cell", "block": bi, "column": c, "row": i, "file": toks[i], "expected": float(exp[i]), "kind": k}
    return None


def compare_frames_to_blocks(frames, specs, blocks):
    """Starfile.read result vs. independent tokenisation of the same text. -> None or witness"""
    if list(specs) != [b["name"] for b in blocks]:
        return {"what": "block names", "read": list(specs), "tokenizer": [b["name"] for b in blocks]}
    if len(frames) != len(blocks):
        return {"what": "number of blocks", "read": len(frames), "tokenizer": len(blocks)}
    for bi, (f, b) in enumerate(zip(frames, blocks)):
        if list(f.columns) != b["labels"]:
            return {"what": "labels", "block": bi, "read": list(f.columns)[:8], "tokenizer": b["labels"][:8]}
        if len(f) != len(b["rows"]):
            return {"what": "row count", "block": bi, "read": len(f), "tokenizer": len(b["rows"])}
        for ci, c in enumerate(b["labels"]):
            toks = [r[ci] for r in b["rows"]]
            kind = star.column_kind(toks)
            col = f.iloc[:, ci]
            if kind == "empty":
                continue
            if kind == "text":
                if pd.api.types.is_numeric_dtype(col.dtype) and col.dtype.kind != "O":
                    return {"what": "text column read as numbers", "block": bi, "column": c, "tokens": toks[:4], "dtype": str(col.dtype)}
                vals = list(col)
                bad = [i for i, (x, y) in enumerate(zip(vals, toks)) if not isinstance(x, str) or x != y]
                if bad:
                    return {"what": "text cell", "block": bi, "column": c, "row": bad[0], "read": repr(vals[bad[0]]), "token": toks[bad[0]]}
            else:
                if not pd.api.types.is_numeric_dtype(col.dtype) or col.dtype.kind in "Ob":
                    return {"what": "numeric column not read as numbers", "block": bi, "column": c, "dtype": str(col.dtype), "tokens": toks[:4]}
                if kind == "int" and all(abs(int(x)) < 2 ** 63 for x in toks):
                    if col.dtype.kind not in "iu" or [int(v) for v in col.tolist()] != [int(x) for x in toks]:
                        vals = col.tolist()
                        i = ([int(a) == int(b) for a, b in zip(vals, toks)] + [False]).index(False) if col.dtype.kind in "iuf" else 0
                        return {"what": "integer cell", "block": bi, "column": c, "row": i, "read": repr(vals[i]) if i < len(vals) else None, "token": toks[min(i, len(toks) - 1)], "dtype": str(col.dtype)}
                    continue
                exp = np.array([float(x) for x in toks])
                got = col.to_numpy(dtype=float)
                ok = np.abs(got - exp) <= 1e-12 * np.abs(exp) + 1e-300
                if not ok.all():
                    i = int(np.argmin(ok))
                    return {"what": "numeric cell", "block": bi, "column": c, "row": i, "read": float(got[i]), "token": toks[i]}
    return None


def blocks_in_domain(blocks):
    if not blocks:
        return False
    for j, b in enumerate(blocks):
        if not b["labels"] or len(set(b["labels"])) != len(b["labels"]):
            return False
        if not b["rows"] and j != len(blocks) - 1:
            return False
        for ci in range(len(b["labels"])):
            toks = [r[ci] for r in b["rows"]]
            if star.column_kind(toks) == "text" and any(star.bad_text_token(t) for t in toks if not star.is_numeric_token(t)):
                return False
    return True


# ---- call monitors ------------------------------------------------------------------------------
def _w_applicable(A):
    return write_in_domain(A["frames"], A["specifiers"]) is not None and A.get("float_precision", 6) == 6


def _w_snapshot(A):
    return {"tables": [f.copy() for f in A["frames"]], "kinds": write_in_domain(A["frames"], A["specifiers"]),
            "names": list(A["specifiers"])}


def _w_post(ctx, A, old, result):
    text = open(A["path"], "rb").read().decode("utf-8")
    try:
        blocks = star.tokenize(text)
    except ValueError as e:
        ctx.check("star_written", False, {"what": "written text is outside the STAR grammar", "error": str(e)})
        return
    numbered = [bool(A["number_columns"]) and "stopgap" not in s for s in old["names"]]
    w = compare_blocks_to_tables(blocks, old["tables"], old["names"], old["kinds"], numbered)
    ctx.check("star_written", w is None, w)


def _r_post(ctx, A, old, result):
    try:
        text = open(A["file_path"], "rb").read().decode("utf-8")
        blocks = star.tokenize(text)
    except (ValueError, UnicodeDecodeError, OSError):
        ctx.ood("star_read")
        return
    if not blocks_in_domain(blocks):
        ctx.ood("star_read")
        return
    if A.get("data_id") is not None:
        try:
            blocks = [blocks[A["data_id"]]]
        except Exception:
            ctx.ood("star_read")
            return
        frames, specs = [result[0]], [result[1]]
    else:
        frames, specs = result[0], result[1]
    w = compare_frames_to_blocks(frames, specs, blocks)
    ctx.check("star_read", w is None, w)


def setup(ctx):
    from cryocat import starfileio
    ctx.sf = starfileio
    fw = monitors.wrap(ctx, starfileio.Starfile, "write", "star_written", _w_post, _w_applicable, _w_snapshot)
    fr = monitors.wrap(ctx, starfileio.Starfile, "read", "star_read", _r_post)
    ctx.declare("roundtrip")
    T = starfileio.Token
    monitors.trace(ctx, [("Starfile.write", fw, {"stopgap_blankline": ('file.write("\\n")', 1), "comment_written": 'file.write(f"\\n# {c}")'}),
                         ("Starfile.read", fr, {"block_parsed": "specifiers.append(specifier)"}),
                         ("Token.tokenize", T.tokenize, {"comment_token": "TokenType.COMMENT, line[index + 1 :]",
                                                         "property_token_eol": "TokenType.PROPERTY, line[first:], ",
                                                         "loop_token_eol": "TokenType.LOOP, line[first:], "}),
                         ("Token.parse_columns", T.parse_columns), ("Token.parse_column", T.parse_column),
                         ("Token.parse_rows", T.parse_rows, {"row_complete": "rows.append(data)"}),
                         ("Token.parse_specifier", T.parse_specifier)])


# ---- generators ---------------------------------------------------------------------------------
TEXT_POOL = ["data_001.mrc", "data_", "data_particles", "save_x", "global_", "stop_", "loop_1", "LOOP_", 'opticsGroup"A"', "tomo_2'bin4'.mrc", 'a"b', "it's", "x,y", "a;b", "k=v", "[1]", "(2)", "{3}", "50%", "a|b", "q?", "a&b", "~x", "a\\b", "<t>", "$1", "!x", "*", "a:b", "000012@/a/b.mrcs", "opticsGroup1", "TS_01/7", "Extract/job012/Tomograms/TS_3/1.mrc", "A", "B", "abc", "x1y2",
             "tomo-7", "1.5x", "e5", "1e", "--3", "3.4.5", "file.name.ext", "12@stack", "K3", "+", "-", "..", "1,5", "0x1F"]
REL_NAMES = ["rlnCoordinateX", "rlnCoordinateY", "rlnCoordinateZ", "rlnAngleRot", "rlnAngleTilt", "rlnAnglePsi", "rlnMicrographName",
             "rlnImageName", "rlnOriginX", "rlnOriginY", "rlnOriginZ", "rlnClassNumber", "rlnRandomSubset", "rlnCtfImage",
             "rlnPixelSize", "rlnOpticsGroup", "rlnOpticsGroupName", "rlnVoltage", "rlnMagnification", "rlnDetectorPixelSize",
             "rlnGroupNumber", "rlnNormCorrection", "rlnLogLikeliContribution", "rlnMaxValueProbDistribution",
             "rlnNrOfSignificantSamples", "rlnTomoName", "rlnTomoParticleId", "rlnObjectNumber", "rlnHelicalTubeID", "rlnCtfMaxResolution",
             "rlnOriginXAngst", "rlnOriginYAngst", "rlnOriginZAngst", "rlnImagePixelSize", "rlnSphericalAberration"]
SG_NAMES = ["motl_idx", "tomo_num", "object", "subtomo_num", "halfset", "orig_x", "orig_y", "orig_z", "score", "x_shift", "y_shift",
            "z_shift", "phi", "psi", "the", "class", "tilt_angle", "defocus", "pixelsize", "exposure", "voltage", "amp_contrast", "cs"]


def gen_text_tokens(rng, n):
    toks = [str(rng.choice(TEXT_POOL)) for _ in range(n)]
    for j in range(n):
        r = rng.random()
        if r < 0.3:
            toks[j] = "%06d@/p/%d.mrcs" % (rng.integers(0, 10 ** 6), rng.integers(0, 99))
        elif r < 0.4:
            toks[j] = "".join(rng.choice(list("abcXYZ_/.-@0123456789\"',;=[](){}%|?&~<>$!*:+"), size=int(rng.integers(1, 14))))
            if toks[j].startswith("_") or star.bad_text_token(toks[j]):
                toks[j] = "t" + toks[j].replace("#", "")
        elif r < 0.5:
            toks[j] = str(int(rng.integers(-50, 50)))        # numeric-looking cell inside a text column
        elif r < 0.58:
            # non-ASCII text (file and operator names): accented, Greek, CJK, and letters whose UTF-8 bytes look like Latin-1
            # blanks (U+00A0 is whitespace and stays out; the second byte of 'Å', 'à', 'Ѕ' is 0x85 / 0xA0)
            toks[j] = str(rng.choice(["grid_\u00e9_001.mrc", "\u00c5ngstr\u00f6m", "caf\u00e0", "\u03b1\u03b2\u03b3", "\u4e2d\u6587.mrc", "na\u00efve/\u00f6l",
                                      "\u0405x", "Ji\u0159\u00ed", "\u00b5m", "10\u00b0", "x\u2009y".replace("\u2009", "_"), "\u00df", "\U0001d54f"]))
    if n and all(star.is_numeric_token(t) for t in toks):
        toks[int(rng.integers(0, n))] = "TS_01/7"
    toks = [t if not star.bad_text_token(t) else "v" + str(k) for k, t in enumerate(toks)]
    return toks


def gen_float_col(rng, n, rounding):
    mag = 10.0 ** rng.uniform(-9, 12, n)
    v = mag * rng.choice([-1.0, 1.0], n)
    m = rng.random(n)
    v = np.where(m < 0.15, np.round(v), v)
    v = np.where((m >= 0.15) & (m < 0.3), rng.uniform(-360, 360, n), v)
    if n and rng.random() < 0.25:       # magnitudes whose str() uses exponent notation (>= 1e16), exact decimal mantissas
        big = np.array([1e16, 4e19, 1.5e20, -2.5e17, 1e22, 3e16, -1e18, 7.25e21, 1.2345678901234567e20, 9.007199254740993e15 * 4])
        k = rng.random(n) < 0.4
        v = np.where(k, rng.choice(big, n), v)
    if rounding:
        pool = np.array([4e-7, -4e-7, 5.1e-7, 9.6e-7, 1e-6, 1.4999e-6, 0.1234565, 0.1234564999, 2.0000005, -0.0000004, 123456.7890125,
                         1e-9, 0.9999996, 359.9999999, 1e12 + 0.25, -1e12 - 0.75, 0.30000000000000004])
        k = rng.random(n) < 0.5
        v = np.where(k, rng.choice(pool, n), v)
    return v


def gen_tables(rng, cls, big):
    nb = 1
    if cls == "tables_multi":
        nb = int(rng.integers(2, 5))
    elif cls in ("tables_empty_last",):
        nb = int(rng.integers(1, 4))
    elif rng.random() < 0.25:
        nb = int(rng.integers(1, 5))
    stop = cls == "tables_stopgap"
    tables, names = [], []
    spec_pool = ["data_", "data_particles", "data_optics", "data_general", "data_model_classes"]
    for b in range(nb):
        nrows = int(rng.choice([1, 2, 3, 10, 50, 200])) if rng.random() < 0.6 else int(rng.integers(1, 201))
        if big and rng.random() < 0.2:
            nrows = int(rng.integers(200, 3000))
        ncols = int(rng.integers(1, 31))
        pool = SG_NAMES if stop else REL_NAMES
        ncols = min(ncols, len(pool))
        cols = [str(x) for x in rng.choice(pool, ncols, replace=False)]
        if cls == "tables_empty_last" and b == nb - 1:
            nrows = 0
        d = {}
        for c in cols:
            r = rng.random()
            ptext = 0.6 if cls == "tables_text_heavy" else 0.2
            if r < ptext:
                d[c] = gen_text_tokens(rng, nrows)
            elif r < ptext + 0.25:
                hi = 10 ** int(rng.integers(1, 19))
                d[c] = rng.integers(-hi, hi, nrows).astype(np.int64)
                if nrows and rng.random() < 0.3:
                    bigvals = np.array([2 ** 53 + 1, -(2 ** 53) - 3, 2 ** 63 - 1, -(2 ** 63) + 1, 1727481600123456789, 9007199254740993], dtype=np.int64)
                    m = rng.random(nrows) < 0.4
                    d[c][m] = rng.choice(bigvals, int(m.sum()))
            else:
                d[c] = gen_float_col(rng, nrows, cls == "tables_rounding" or rng.random() < 0.3)
        if ncols == 1:
            for c in cols:
                if isinstance(d[c], list):
                    d[c] = [("x" + v) if v.startswith("data_") else v for v in d[c]]
        t = pd.DataFrame(d, columns=cols)
        if nrows == 0:
            t = pd.DataFrame({c: np.zeros(0) for c in cols}, columns=cols)
        tables.append(t)
        if stop:
            names.append("data_stopgap_" + str(rng.choice(["motivelist", "wedgelist", "tomolist", "TomoList", "MOTL_7"])))
        else:
            names.append(str(rng.choice(spec_pool)) if nb > 1 else str(rng.choice(["data_", "data_particles", "data_optics"])))
    number_columns = not (cls == "tables_unnumbered" or rng.random() < 0.2)
    comments = None
    if rng.random() < 0.3:
        comments = [[str(rng.choice(["version 30001", "created by cryoCAT", "data_fake", "_rlnFake #1", "loop_"]))
                     for _ in range(int(rng.integers(0, 3)))] for _ in tables]
    return tables, names, number_columns, comments


NUM_FORMS = ["{:d}", "{:+d}", "{:.0f}.", "{:.3f}", "{:.6f}", "{:e}", "{:E}", "{:.2e}", "{:010.4f}", "{:g}", "{!r}", "LEADDOT", "LEADDOT_E",
             "{:+.3f}", "{:+e}", "{:.0f}.e0", "{:.1f}E+00"]


def gen_text(rng, cls):
    """-> (text, expected blocks) for hand-built STAR text"""
    nb = int(rng.integers(1, 4))
    crlf = cls == "text_crlf" or (cls != "text_plain" and rng.random() < 0.2)
    nl = "\r\n" if crlf else "\n"
    deco = cls != "text_plain"
    tabs = cls == "text_tabs" or (deco and rng.random() < 0.3)
    lines = []
    blocks = []

    def sep():
        if not tabs:
            return " " * int(rng.integers(1, 6))
        return "".join(rng.choice([" ", "\t"], size=int(rng.integers(1, 5))))

    def filler(allow_none=True):
        out = []
        k = int(rng.integers(0 if allow_none else 1, 4))
        for _ in range(k):
            r = rng.random()
            if r < 0.5 or not deco or cls not in ("text_comments", "text_crlf", "text_tabs", "text_label_styles", "text_nofinalnl", "text_numeric_forms"):
                out.append("" if rng.random() < 0.7 else "   ")
            else:
                out.append(str(rng.choice(["# comment", "#", "   # indented comment", "# data_fake", "# _rlnFake #3", "# loop_",
                                           "# 1 2 3", "#\tversion 30001", "# created by relion"])))
        return out

    for b in range(nb):
        lines += filler(allow_none=(b == 0))
        if b > 0 and not lines[-1:] and True:
            lines.append("")
        name = str(rng.choice(["data_", "data_particles", "data_optics", "data_stopgap_motivelist", "data_x", "data_stopgap_WedgeList"]))
        lines.append(name + (" " * int(rng.integers(0, 3)) if deco else ""))
        lines += [""] * int(rng.integers(0, 3))
        lines.append("loop_" + (" " if deco and rng.random() < 0.3 else ""))
        ncols = int(rng.integers(1, 13))
        labels = [str(x) for x in rng.choice(REL_NAMES, ncols, replace=False)]
        style = int(rng.integers(0, 4)) if cls == "text_label_styles" or deco else 0
        nums = []
        # the '#n' after a label is a comment: whatever it says, labels belong to the data columns in FILE order.  Hand-edited
        # files keep old numbers after lines were moved: permuted, shifted, gapped, repeated or non-numeric comments
        ks = list(range(1, ncols + 1))
        if deco and ncols > 1:
            mode = int(rng.integers(0, 8)) if cls == "text_label_styles" else int(rng.integers(0, 16))
            if mode == 0:
                ks = [int(x) for x in rng.permutation(ks)]
            elif mode == 1:
                ks = ks[::-1]
            elif mode == 2:
                ks = [k + int(rng.integers(1, 9)) for k in ks]
            elif mode == 3:
                ks = sorted(int(x) for x in rng.choice(np.arange(1, 3 * ncols), ncols, replace=False))
            elif mode == 4:
                ks = [int(rng.integers(1, ncols + 1)) for _ in ks]
            elif mode == 5:
                a, b2 = (int(x) for x in rng.choice(ncols, 2, replace=False))
                ks[a], ks[b2] = ks[b2], ks[a]
        for k, lab in zip(ks, labels):
            s = style if cls != "text_label_styles" else int(rng.integers(0, 5))
            if s == 0:
                lines.append("_%s #%d" % (lab, k)); nums.append(k)
            elif s == 1:
                lines.append("_%s#%d" % (lab, k)); nums.append(k)
            elif s == 2:
                lines.append("_%s" % lab); nums.append(None)
            elif s == 3:
                lines.append("_%s%s#%d  " % (lab, sep(), k)); nums.append(k)
            else:
                lines.append("  _%s\t# %d" % (lab, k)); nums.append(k)
        lines += filler()
        nrows = int(rng.integers(1, 40))
        if b == nb - 1 and rng.random() < 0.1:
            nrows = 0
        kinds = [str(rng.choice(["int", "float", "text"], p=[0.3, 0.45, 0.25])) for _ in labels]
        cols = []
        for k in kinds:
            if k == "text":
                cols.append(gen_text_tokens(rng, nrows))
            elif k == "int":
                cols.append([(str(rng.choice(["{:d}", "{:+d}", "{:03d}"])) if cls == "text_numeric_forms" else "{:d}").format(int(v))
                             for v in (rng.integers(-10 ** 6, 10 ** 6, nrows) if rng.random() < 0.7 else rng.integers(-2 ** 62, 2 ** 62, nrows))])
            else:
                vals = gen_float_col(rng, nrows, True)
                if cls == "text_numeric_forms":
                    toks = []
                    for v in vals:
                        f = str(rng.choice(NUM_FORMS))
                        if f in ("LEADDOT", "LEADDOT_E"):
                            # decimals written without the leading zero (.5, -.25, +.1e3): numbers to every STAR reader
                            m = abs(float(v))
                            m = m - np.floor(m) if m >= 1 else m
                            t = ("%.4f" % m)[1:] if ("%.4f" % m).startswith("0.") else ".5000"
                            t = (["", "-", "+"][int(rng.integers(0, 3))]) + t
                            toks.append(t + ("e%d" % rng.integers(-3, 4) if f == "LEADDOT_E" else ""))
                            continue
                        toks.append(f.format(int(v) if "d" in f else float(v)))
                    if toks and all(star.INT_RE.match(t) for t in toks):
                        toks[0] = "%.3f" % vals[0]
                    cols.append(toks)
                else:
                    toks = ["%.6f" % v for v in vals]
                    cols.append(toks)
        if ncols == 1:
            cols = [[("x" + v) if v.startswith("data_") else v for v in c] for c in cols]
        rows = [[c[r] for c in cols] for r in range(nrows)]
        for r in rows:
            lead = sep() if deco and rng.random() < 0.5 else ""
            trail = sep() if deco and rng.random() < 0.5 else ""
            lines.append(lead + sep().join(r) + trail)
        blocks.append({"name": name, "labels": labels, "numbers": nums, "rows": rows})
        if b < nb - 1:
            lines.append("" if rng.random() < 0.7 or not deco else "# separator comment")
    if deco and rng.random() < 0.3:
        lines.append("")
    text = nl.join(lines)
    if not (cls == "text_nofinalnl" or (deco and rng.random() < 0.2)):
        text += nl
    return text, blocks, {"crlf": crlf, "tabs": tabs, "decorated": deco}


def gen(ctx, i, cls):
    rng = ctx.rng(i)
    if cls.startswith("tables"):
        tables, names, numbered, comments = gen_tables(rng, cls, ctx.tier == "thorough")
        kinds = [frame_kinds(t) for t in tables]
        summ = {"mode": "write+read", "blocks": names, "shapes": [list(t.shape) for t in tables], "number_columns": numbered, "comments": comments,
                "kinds": [k[:10] if k else None for k in kinds],
                "row0": [[str(x)[:24] for x in t.iloc[0].tolist()][:6] if len(t) else [] for t in tables]}
        nt = any(t.shape[0] >= 2 and t.shape[1] >= 2 for t in tables) and (len(tables) > 1 or any("text" in (k or []) or "float" in (k or []) for k in kinds))
        return {"i": i, "cls": cls, "mode": "tables", "tables": tables, "names": names, "numbered": numbered, "kinds": kinds, "comments": comments,
                "summary": summ, "nt": nt}
    text, blocks, flags = gen_text(rng, cls)
    summ = {"mode": "read hand-built text", "blocks": [b["name"] for b in blocks], "shapes": [[len(b["rows"]), len(b["labels"])] for b in blocks],
            "layout": flags, "bytes": len(text), "head": text[:160]}
    nt = any(len(b["rows"]) >= 2 and len(b["labels"]) >= 2 for b in blocks)
    return {"i": i, "cls": cls, "mode": "text", "text": text, "blocks": blocks, "summary": summ, "nt": nt}


def nontrivial(case):
    return case["nt"]


# ---- driver -------------------------------------------------------------------------------------
def _write_read_compare(ctx, S, tables, names, numbered, comments, kinds, path, label=""):
    """write the tables (with whatever index they carry), read the file back, compare positionally"""
    frames = [t.copy() for t in tables]
    ok, _ = ctx.call("Starfile.write" + label, S.write, frames, path, specifiers=list(names), number_columns=numbered, comments=comments)
    if not ok:
        return
    ok, res = ctx.call("Starfile.read" + label, S.read, path)
    if not ok:
        return
    rframes, rspecs = res[0], res[1]
    w = None
    if list(rspecs) != list(names):
        w = {"what": "block names", "read": list(rspecs), "written": list(names)}
    else:
        for bi, (rf, t, kk) in enumerate(zip(rframes, tables, kinds)):
            if list(rf.columns) != list(t.columns) or len(rf) != len(t):
                w = {"what": "shape/labels", "block": bi, "read": [list(rf.columns)[:6], len(rf)], "written": [list(t.columns)[:6], len(t)]}
                break
            for c, k in zip(t.columns, kk):
                if len(t) == 0:
                    continue
                if k == "text":
                    a, b = list(rf[c]), list(t[c])
                    bad = [j for j, (x, y) in enumerate(zip(a, b)) if x != y]
                    if bad:
                        w = {"what": "text cell", "block": bi, "column": c, "row": bad[0], "read": repr(a[bad[0]]), "written": b[bad[0]]}
                        break
                else:
                    if not pd.api.types.is_numeric_dtype(rf[c].dtype):
                        w = {"what": "numeric column came back as text", "block": bi, "column": c}
                        break
                    if k == "int":
                        okv = np.array([int(a) == int(b) for a, b in zip(rf[c].tolist(), t[c].tolist())]) if rf[c].dtype.kind in "iu" else np.zeros(len(t), bool)
                    else:
                        okv = num_close(rf[c].to_numpy(dtype=float), t[c].to_numpy(dtype=float), TOL_ABS, TOL_REL)
                    if not okv.all():
                        j = int(np.argmin(okv))
                        w = {"what": "numeric cell", "block": bi, "column": c, "row": j, "read": float(rf[c].iloc[j]), "written": float(t[c].iloc[j])}
                        break
            if w:
                break
    if w and label:
        w["stage"] = label.strip()
    ctx.check("roundtrip", w is None, w)


def run_case(ctx, case):
    S = ctx.sf.Starfile
    # a small pool of REUSED paths: later cases overwrite files that earlier cases wrote and read (iterating on one file name)
    path = os.path.join(ctx.scratch, "s_%d.star" % (case["i"] % 3)) if case["i"] % 4 else os.path.join(ctx.scratch, "u_%d.star" % case["i"])
    if case["mode"] == "tables":
        if any(k is None for k in case["kinds"]) or write_in_domain(case["tables"], case["names"]) is None:
            raise RuntimeError("generator produced a table outside the quantifier")
        rng = ctx.rng(case["i"], 3)
        tables = []
        for t in case["tables"]:
            t = t.copy()
            r = rng.random()
            if len(t) > 1 and r < 0.35:          # the table's own row labels are not 0..n-1 (sorted / filtered / concatenated frames)
                kind = int(rng.integers(0, 3))
                t.index = [rng.permutation(len(t)), np.sort(rng.choice(np.arange(3 * len(t) + 5), len(t), replace=False)), np.arange(len(t))[::-1]][kind]
            tables.append(t)
        _write_read_compare(ctx, S, tables, case["names"], case["numbered"], case["comments"], case["kinds"], path)
        # the same path rewritten at once with different content of exactly the same byte length (rows in reverse order)
        if any(len(t) > 1 for t in tables):
            tables_b = [t.iloc[::-1].reset_index(drop=True) for t in case["tables"]]
            _write_read_compare(ctx, S, tables_b, case["names"], case["numbered"], case["comments"], case["kinds"], path, label=" (same path, rows reversed)")
    else:
        with open(path, "wb") as f:
            f.write(case["text"].encode("utf-8"))
        # self-check of the oracle: the tokenizer must recover the structure the generator laid out
        tb = star.tokenize(case["text"])
        if tb != case["blocks"]:
            raise RuntimeError("oracle tokenizer disagrees with the generated structure")
        ok, res = ctx.call("Starfile.read", S.read, path)
        if ok and len(case["blocks"]) > 1:
            k = case["i"] % len(case["blocks"])
            ctx.call("Starfile.read(data_id)", S.read, path, k)
