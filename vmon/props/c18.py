"""C18 - Nearest-neighbour analysis equals brute force and is invariant under rigid motion of a tomogram.

Monitors (DESIGN.md 4/C18).  Layer A, attached in place on cryocat.nnana:
  post(get_nn_stats), one evaluation per in-domain call and clause, all against vmon.oracles.c18_oracle.reference
  (brute-force numpy distances inside each shared tomogram + hand-written zxz matrices):
    nn_rows              every query particle of list a lying in a shared tomogram is reported exactly min(k, candidates in
                         its tomogram) times and nobody else is reported
    nn_identity          r-th reported row of a query (table order) carries the subtomogram number of its r-th closest
                         candidate (=> the k closest, ascending)
    nn_distance          distance = |Pj - Pi| * pixel and non-decreasing over the rows of a query
    nn_offset            coord_x,y,z = (Pj - Pi) * pixel
    nn_frame_offset      coord_rx,ry,rz = Ri^T (Pj - Pi) * pixel
    nn_angular           angular_distance = rotation angle of Ri^T Rj
    nn_relative_orientation   Rz(psi)Rx(theta)Rz(phi) of the reported phi,theta,psi = Ri^T Rj and rot_x,y,z = its z-image
  post(get_feature_nn_indices)
    knn_query            nn_count = min(k, candidates); distances = the k smallest brute-force distances, ascending;
                         every returned index points at a candidate lying at the returned distance (tie-robust)
Layer B (driver): every case is run a second time after moving each tomogram by its own (Q, t) - positions Q.p + t split
  anew into x + shift, orientations to_zxz(Q.R) - and the two tables are compared query by query, rank by rank:
    rigid_structure, rigid_distance, rigid_frame_offset, rigid_angular, rigid_relative_orientation   (1e-6)
  History (class reuse_in_place and ~40% of the other cases): the moved pose is written IN PLACE into the same Motl objects
  (both lists, or first only the second list - a new geometry - and then the first) and get_nn_stats is called again on
  those objects: every such call is judged by the nn_* monitors against brute force on the positions held at that moment,
  the last one also by the rigid_* relations (reused_objects counts these calls).
"""
import os

import numpy as np
import pandas as pd

from vmon import gens, monitors
from vmon.oracles import so3
from vmon.oracles import c18_oracle as orc

PROP = "C18"
RULE = ("cases = pairs of generated particle lists (1..200 particles each, 1..4 tomograms per list, shared/partly disjoint "
        "tomogram sets, coincident lists, non-zero shifts, stratified position/orientation/index classes; planted: consecutive "
        "tomogram / subtomogram numbers at 1e5, 2**24, 2**31, 2**53, list sizes 2**k-1, 2**k, 2**k+1 and 200, candidate pairs whose "
        "distances differ by 3e-7..1e-5 relative at coordinates of 1e3..2**24, exact duplicate query particles, same objects rewritten "
        "or re-tagged in place between calls) x k in 1..5 x "
        "pixel size x one rigid motion (Q,t) per tomogram; non-trivial = some query particle has at least 2 candidates in its "
        "tomogram (optimality is a real choice) and shifts are non-zero; distinct by digest of (class, sizes, tomogram sets, "
        "k, pixel, index kinds, motion kinds, first rows of both lists)")
ASSUMPTIONS = [
    "orientation of a particle = Rz(psi).Rx(theta).Rz(phi) (DESIGN section 3); relative orientation = Ri^T.Rj; the reported "
    "phi,theta,psi are compared as matrices (Euler triples are not unique)",
    "rank of a neighbour = order of the rows carrying the same query subtomogram number in the returned table (the table "
    "has no rank column); row order between different queries is not judged",
    "k larger than the number of candidates in the tomogram: all candidates are expected, min(k, available) rows",
    "query particles in a tomogram absent from the second list are expected to produce no rows",
    "coincident lists: the statement says 'the k closest particles of the second list', so the particle itself (distance "
    "0) is the expected first neighbour; cryoCAT reports it as well (no self-exclusion), which agrees with this reading",
    "a call is judged only if the query subtomogram numbers of list a are unique (rows cannot be attributed otherwise), "
    "feature_id='tomo_id', rotation_type='angular_distance', k integer in 1..5, pixel size finite > 0, lists of 1..200 "
    "finite-valued particles passed as Motl objects",
    "distance ties: a call is not judged when, for some query, two consecutive sorted brute-force distances among the "
    "first k+1 differ by <= 1e-9*max(1,d); generated cases keep a margin of 1e-7 and are regenerated otherwise",
    "completely disjoint tomogram sets: get_nn_stats raises ValueError (nothing to concatenate); not judged",
    "only feature_id='tomo_id' is judged: the statement says 'within the same tomogram'; grouping by another column is a "
    "different question about which the property is silent",
    "the statement is about the lists as they are at the time of the call: a Motl object analysed before and rewritten in place "
    "since (same particle count) is judged against brute force on its current positions and orientations",
    "tolerances: lengths 1e-9*max(1, |P|max*pixel); matrix entries 1e-7 (Euler) / 1e-9 (z-image); angular distance 1e-7 "
    "deg, 1e-4 deg below 0.01 deg (acos of a quaternion product); rigid-motion relation 1e-6 (scaled for lengths)",
]

CLASSES = ["random", "partial_disjoint", "coincident", "k_gt_available", "n1", "odd_index", "ids_tomos_hostile",
           "gimbal_same_ori", "clustered_paired", "big_shifts", "close_calls", "large", "disjoint", "reuse_in_place",
           "adjacent_big_tomo_ids", "block_sizes"]
DIRECT = ["nn_rows", "nn_identity", "nn_distance", "nn_offset", "nn_frame_offset", "nn_angular", "nn_relative_orientation"]
RIGID = ["rigid_structure", "rigid_distance", "rigid_frame_offset", "rigid_angular", "rigid_relative_orientation"]
GEN_TIE = 1e-7
MON_TIE = 1e-9
POSE = ["x", "y", "z", "shift_x", "shift_y", "shift_z", "phi", "theta", "psi"]
# adjacent integral numbers at representability boundaries (np.isclose's default rtol merges neighbours >= 1e5, float32 cannot
# tell neighbours >= 2**24 apart, int32 ends at 2**31 - 1, float64 integers end at 2**53)
BIG_BASES = [1e5, 123456.0, 999999.0, 2.0 ** 24 - 1, 2.0 ** 24, 2.0 ** 31 - 2, 2.0 ** 31, 1e9, 2.0 ** 53 - 8]
BLOCK_SIZES = [63, 64, 65, 65, 127, 128, 129, 129, 199, 200, 200, 40, 41, 80, 81]


def plan(tier):
    if tier == "quick":
        me = {m: 500 for m in DIRECT}
        me.update({m: 220 for m in RIGID})
        me["knn_query"] = 500
        me["reused_objects"] = 60
        return dict(n_cases=320, shards=4, classes=CLASSES, timeout_s=600, min_evals=me)
    me = {m: 8000 for m in DIRECT}
    me.update({m: 3700 for m in RIGID})
    me["knn_query"] = 8000
    me["reused_objects"] = 1000
    return dict(n_cases=4800, shards=16, classes=CLASSES, timeout_s=3000, min_evals=me)


# ---- judging a returned table against the brute-force reference ------------------------------------
def _is_motl(m):
    df = getattr(m, "df", None)
    return isinstance(df, pd.DataFrame) and all(c in df.columns for c in orc.NEED) and len(df) >= 1


def _finite(m):
    try:
        v = m.df[orc.NEED].to_numpy(dtype=float)
        pose = m.df[POSE].to_numpy(dtype=float)
    except Exception:
        return False
    return bool(np.all(np.isfinite(v)) and np.abs(pose).max() < 1e9)


def judge_table(ref, table):
    """-> {monitor: witness or None}; monitors that cannot be evaluated (structure broken) are left out"""
    out = {}
    if not isinstance(table, pd.DataFrame) or any(c not in table.columns for c in orc.OUT_COLS):
        out["nn_rows"] = {"what": "result is not a table with the documented columns", "got": str(type(table))}
        return out
    try:
        groups = orc.group_rows(table)
    except Exception as e:
        out["nn_rows"] = {"what": "table not numeric", "error": str(e)[:200]}
        return out
    exp = ref["queries"]
    w = None
    extra_q = [q for q in groups if q not in exp]
    missing = [q for q in exp if q not in groups]
    if extra_q:
        w = {"what": "rows reported for a particle that has no candidate in its tomogram / is not in list a",
             "query_id": extra_q[0], "n_such": len(extra_q)}
    elif missing:
        w = {"what": "query particle of a shared tomogram not reported", "query_id": missing[0], "n_such": len(missing)}
    else:
        for q, recs in exp.items():
            if len(groups[q]) != len(recs):
                w = {"what": "number of reported neighbours", "query_id": q, "reported": int(len(groups[q])),
                     "expected_min_k_available": len(recs)}
                break
    out["nn_rows"] = w
    for m in DIRECT[1:]:
        out[m] = None
    tol = 1e-9 * ref["scale"]
    nrows = 0
    for q, recs in exp.items():
        rows = groups.get(q)
        if rows is None:
            continue
        n = min(len(rows), len(recs))
        for r in range(n):
            row, rec = rows[r], recs[r]
            nrows += 1
            base = {"query_id": q, "rank": r + 1, "expected_neighbour_id": rec["id"], "expected_distance": rec["dist"]}
            if out["nn_identity"] is None and row[15] != rec["id"]:
                out["nn_identity"] = dict(base, what="neighbour id", reported=float(row[15]), reported_distance=float(row[0]))
            if out["nn_distance"] is None:
                if abs(row[0] - rec["dist"]) > tol:
                    out["nn_distance"] = dict(base, what="distance", reported=float(row[0]), tol=tol)
                elif r > 0 and row[0] < rows[r - 1][0]:
                    out["nn_distance"] = dict(base, what="distances of one query not ascending in table order",
                                              previous=float(rows[r - 1][0]), this=float(row[0]))
            if out["nn_offset"] is None and np.abs(row[1:4] - rec["off"]).max() > tol:
                out["nn_offset"] = dict(base, what="coord_x,y,z", reported=row[1:4], expected=rec["off"], tol=tol)
            if out["nn_frame_offset"] is None and np.abs(row[4:7] - rec["off_r"]).max() > tol:
                out["nn_frame_offset"] = dict(base, what="coord_rx,ry,rz", reported=row[4:7], expected=rec["off_r"], tol=tol)
            if out["nn_angular"] is None and not abs(row[7] - rec["ang"]) <= orc.ang_tol(rec["ang"]):
                out["nn_angular"] = dict(base, what="angular_distance", reported=float(row[7]), expected=rec["ang"])
            if out["nn_relative_orientation"] is None:
                Rrep = so3.zxz(row[11], row[12], row[13])
                if not np.abs(Rrep - rec["Rrel"]).max() <= 1e-7:
                    out["nn_relative_orientation"] = dict(base, what="phi,theta,psi as a matrix vs Ri^T.Rj", reported_angles=row[11:14],
                                                          expected_angles=so3.to_zxz(rec["Rrel"]), max_entry_error=float(np.abs(Rrep - rec["Rrel"]).max()))
                elif not np.abs(row[8:11] - rec["Rrel"][:, 2]).max() <= 1e-9:
                    out["nn_relative_orientation"] = dict(base, what="rot_x,y,z vs z-image of Ri^T.Rj", reported=row[8:11], expected=rec["Rrel"][:, 2])
    out["_rows"] = nrows
    return out


# ---- call monitor: get_nn_stats ---------------------------------------------------------------------
def _app_stats(A):
    a, b = A["motl_a"], A["motl_nn"]
    if not (_is_motl(a) and _is_motl(b)):
        return False
    k, px = A["nn_number"], A["pixel_size"]
    if isinstance(k, bool) or not isinstance(k, (int, np.integer)) or not 1 <= int(k) <= 5:
        return False
    if isinstance(px, bool) or not isinstance(px, (int, float, np.integer, np.floating)) or not (np.isfinite(px) and px > 0):
        return False
    if A["feature_id"] != "tomo_id" or A["rotation_type"] != "angular_distance":
        return False
    if len(a.df) > 200 or len(b.df) > 200:
        return False
    return _finite(a) and _finite(b)


def _snap_stats(A):
    return orc.reference(A["motl_a"].df, A["motl_nn"].df, int(A["nn_number"]), float(A["pixel_size"]), tie_rel=MON_TIE)


def _post_stats(ctx, A, ref, result):
    if not ref["shared"] or not ref["ids_unique"] or ref["ties"]:
        for m in DIRECT:
            ctx.ood(m)
        return
    j = judge_table(ref, result)
    for m in DIRECT:
        if m in j:
            ctx.check(m, j[m] is None, j[m])
    ctx.extra["rows_judged"] = ctx.extra.get("rows_judged", 0) + j.get("_rows", 0)
    ctx.extra["queries_judged"] = ctx.extra.get("queries_judged", 0) + len(ref["queries"])
    if any(v < int(A["nn_number"]) for v in ref["avail"].values()):
        ctx.extra["calls_with_k_gt_available"] = ctx.extra.get("calls_with_k_gt_available", 0) + 1
    tom = np.unique(np.concatenate([A["motl_a"].df["tomo_id"].to_numpy(dtype=float), A["motl_nn"].df["tomo_id"].to_numpy(dtype=float)]))
    if len(tom) > 1 and np.any((np.diff(tom) == 1) & (tom[1:] >= 1e5)):
        ctx.extra["calls_with_adjacent_tomogram_numbers_ge_1e5"] = ctx.extra.get("calls_with_adjacent_tomogram_numbers_ge_1e5", 0) + 1
    if ref["min_rel_gap"] < 1e-5:               # a decision between two candidates closer than 1e-5 relative was judged
        ctx.extra["calls_with_relative_distance_gap_below_1e-5"] = ctx.extra.get("calls_with_relative_distance_gap_below_1e-5", 0) + 1
    if A["motl_a"] is A["motl_nn"]:
        ctx.extra["calls_with_same_object_twice"] = ctx.extra.get("calls_with_same_object_twice", 0) + 1


# ---- call monitor: get_feature_nn_indices -----------------------------------------------------------
def _app_knn(A):
    k = A["nn_number"]
    return (_is_motl(A["fm_a"]) and _is_motl(A["fm_nn"]) and not isinstance(k, bool) and isinstance(k, (int, np.integer)) and k >= 1
            and len(A["fm_a"].df) <= 2000 and len(A["fm_nn"].df) <= 2000 and _finite(A["fm_a"]) and _finite(A["fm_nn"]))


def _snap_knn(A):
    return orc.arrays(A["fm_a"].df)["P"], orc.arrays(A["fm_nn"].df)["P"]


def _post_knn(ctx, A, old, result):
    Pa, Pb = old
    k = int(A["nn_number"])
    if len(Pa) in (63, 64, 65, 127, 128, 129, 199, 200):
        ctx.extra["knn_query_with_%d_queries" % len(Pa)] = ctx.extra.get("knn_query_with_%d_queries" % len(Pa), 0) + 1
    w = None
    try:
        oidx, nidx, ndist, ncount = result
        oidx, nidx, ndist = np.asarray(oidx), np.asarray(nidx), np.asarray(ndist, dtype=float)
    except Exception as e:
        ctx.check("knn_query", False, {"what": "result is not (ordered_idx, nn_idx, nn_dist, nn_count)", "error": str(e)[:200]})
        return
    m = min(k, len(Pb))
    ds, D = orc.knn_distances(Pa, Pb, k)
    tol = 1e-9 * max(1.0, float(np.abs(Pa).max()), float(np.abs(Pb).max()))
    if ncount != m:
        w = {"what": "nn_count", "reported": int(ncount), "expected": m}
    elif nidx.shape != (len(Pa), m) or ndist.shape != (len(Pa), m):
        w = {"what": "shape of nn_idx / nn_dist", "reported": [list(nidx.shape), list(ndist.shape)], "expected": [len(Pa), m]}
    elif not np.array_equal(oidx, np.arange(len(Pa))):
        w = {"what": "ordered_idx is not 0..n-1"}
    elif nidx.min() < 0 or nidx.max() >= len(Pb):
        w = {"what": "neighbour index out of range", "max": int(nidx.max()), "candidates": len(Pb)}
    elif np.abs(ndist - ds).max() > tol:
        q, r = np.unravel_index(int(np.argmax(np.abs(ndist - ds))), ds.shape)
        w = {"what": "distances are not the k smallest brute-force distances in ascending order", "query": int(q), "rank": int(r) + 1,
             "reported": float(ndist[q, r]), "expected": float(ds[q, r])}
    else:
        at = np.take_along_axis(D, nidx.astype(int), axis=1)
        if np.abs(at - ndist).max() > tol:
            q, r = np.unravel_index(int(np.argmax(np.abs(at - ndist))), at.shape)
            w = {"what": "returned index does not lie at the returned distance", "query": int(q), "rank": int(r) + 1,
                 "index": int(nidx[q, r]), "its_distance": float(at[q, r]), "returned_distance": float(ndist[q, r])}
        elif m > 1 and any(len(set(row.tolist())) != m for row in nidx):
            w = {"what": "a candidate is returned twice for one query"}
    ctx.check("knn_query", w is None, w)


def setup(ctx):
    from cryocat import nnana, cryomotl, geom
    ctx.nn, ctx.cm = nnana, cryomotl
    f_stats = monitors.wrap(ctx, nnana, "get_nn_stats", "nn_rows", _post_stats, _app_stats, _snap_stats)
    f_knn = monitors.wrap(ctx, nnana, "get_feature_nn_indices", "knn_query", _post_knn, _app_knn, _snap_knn)
    ctx.declare(*(DIRECT + RIGID + ["reused_objects"]))
    ctx.notes.append("named branch get_nn_distances.empty_subset_skip cannot be reached through lists with a shared tomogram (the subset of a "
                     "shared tomogram is never empty); path_argument_a is reached once by extra() (documented str argument, raises TypeError, not judged)")
    monitors.trace(ctx, [
        ("nnana.get_nn_stats", f_stats),
        ("nnana.get_nn_distances", nnana.get_nn_distances,
         {"per_tomogram": "fm_a = motl_a.get_motl_subset", "per_rank": "c_coord = coord_nn[nn_idx[:, i], :] - coord_a[idx, :]",
          "path_argument_a": "motl_a = cryomotl.Motl(motl_path=motl_a)", "empty_subset_skip": "continue"}),
        ("nnana.get_nn_rotations", nnana.get_nn_rotations,
         {"per_tomogram": "fm_a = motl_a.get_motl_subset", "per_rank": "rot_nn = srot.from_euler"}),
        ("nnana.get_feature_nn_indices", f_knn),
        ("geom.compare_rotations", geom.compare_rotations, {"angular_distance_branch": ("return dist_degrees", 1)}),
        ("geom.angular_distance", geom.angular_distance),
        ("geom.visualize_rotations", geom.visualize_rotations),
    ])


# ---- generator ------------------------------------------------------------------------------------
TOMO_POOL = np.array(sorted(set(range(1, 40)) | {101, 250, 1003, 4711}), dtype=float)


def _assign_tomos(rng, n, tomos):
    """every tomogram of `tomos` gets at least one particle (n >= len(tomos)); rows are interleaved, not sorted"""
    t = list(tomos) + [tomos[int(j)] for j in rng.integers(0, len(tomos), n - len(tomos))]
    return np.array(t, dtype=float)[rng.permutation(n)]


def _positions(rng, n, kind, box, centres=None):
    if kind == "clustered":
        c = centres[rng.integers(0, len(centres), n)]
        return c + rng.normal(0, float(rng.choice([0.3, 3.0, 30.0])), (n, 3))
    if kind == "signed":
        return rng.uniform(-box, box, (n, 3))
    return rng.uniform(1.0, box, (n, 3))


def _make_list(rng, n, tomos, ori, P, shift_amp, id_kind, int_xyz=False):
    df = gens.motl_table(rng, n, tomos=1, ori=ori)
    df["tomo_id"] = _assign_tomos(rng, n, tomos)
    s = rng.uniform(-shift_amp, shift_amp, (n, 3))
    s[np.abs(s) < 1e-3] = 0.5 * shift_amp
    if int_xyz:
        xyz = np.round(P - s)
        P = xyz + s
    df[["x", "y", "z"]] = P - s
    df[["shift_x", "shift_y", "shift_z"]] = s
    if id_kind == "gapped":                    # unique, non-contiguous, unsorted
        df["subtomo_id"] = rng.choice(np.arange(1, 6 * n + 40), n, replace=False).astype(float)
    elif id_kind == "contiguous":
        df["subtomo_id"] = np.arange(1, n + 1, dtype=float)
    elif id_kind == "per_tomogram":            # restart at 1 in every tomogram: unique only inside a tomogram
        ids = np.zeros(n)
        for t in set(df["tomo_id"]):
            sel = np.flatnonzero(df["tomo_id"].to_numpy() == t)
            ids[sel] = rng.permutation(len(sel)) + 1
        df["subtomo_id"] = ids
    elif id_kind == "big_adjacent":            # consecutive numbers starting at a representability boundary, unsorted
        base = float(rng.choice(BIG_BASES[:-1] + [2.0 ** 53 - n - 2]))
        df["subtomo_id"] = base + rng.permutation(n).astype(float)
    elif id_kind == "huge":
        df["subtomo_id"] = (rng.choice(np.arange(1, 10 * n + 10), n, replace=False) + 10_000_000).astype(float)
    return df


def _plant_close_pairs(rng, dfa, dfb, nq):
    """for up to nq query particles of list a: two (or three) candidates of list b in the same tomogram are put on shells around
    the query whose radii differ by 3e-7..1e-5 relative - far above the tie exclusion (the float64 brute force is decisive), far
    below the float32 spacing of coordinates of a few thousand - and closer than the query's other candidates are likely to be.
    -> number of planted queries"""
    Pa = gens.positions(dfa)
    ta, tb = dfa["tomo_id"].to_numpy(), dfb["tomo_id"].to_numpy()
    free = {t: list(rng.permutation(np.flatnonzero(tb == t))) for t in set(tb.tolist())}
    planted = 0
    xyz = dfb[["x", "y", "z"]].to_numpy().copy()
    sh = dfb[["shift_x", "shift_y", "shift_z"]].to_numpy()
    for q in rng.permutation(len(dfa))[: 4 * nq]:
        if planted >= nq:
            break
        m = int(rng.choice([2, 2, 3]))
        pool = free.get(ta[q], [])
        if len(pool) < m:
            continue
        sel = [pool.pop() for _ in range(m)]
        r0 = float(rng.uniform(1.5, 8.0))
        gap = 10.0 ** rng.uniform(np.log10(3e-7), -5.0, m)
        rad = r0 * np.cumprod(1.0 + gap)[rng.permutation(m)]
        u = rng.normal(size=(m, 3)); u /= np.linalg.norm(u, axis=1, keepdims=True)
        xyz[sel] = Pa[q] + u * rad[:, None] - sh[sel]
        planted += 1
    dfb[["x", "y", "z"]] = xyz
    return planted


def _odd_index(rng, df, kind):
    n = len(df)
    if kind == "permuted":
        df.index = rng.permutation(n)
    elif kind == "gaps":
        df.index = np.sort(rng.choice(np.arange(3 * n + 5), n, replace=False))
    elif kind == "reversed":
        df.index = np.arange(n)[::-1]
    elif kind == "offset":
        df.index = np.arange(n) + int(rng.integers(1, 500))
    elif kind == "dup_labels":                 # what pd.concat of two lists without ignore_index leaves behind
        h = (n + 1) // 2
        df.index = np.concatenate([np.arange(h), np.arange(n - h)])
    elif kind == "permuted_columns":
        df = df[[df.columns[j] for j in rng.permutation(len(df.columns))]]
    return df


def _motion(rng, kind):
    if kind == "haar":
        Q = so3.random_rotations(rng, 1)[0]
    elif kind == "cube":
        Q = np.array(so3.cube_rotations()[int(rng.integers(0, 24))], dtype=float)
    elif kind == "half_turn":
        Q = so3.axis_angle(rng.normal(size=3), 180.0)
    elif kind == "tiny":
        Q = so3.axis_angle(rng.normal(size=3), float(rng.choice([1e-6, 1e-3, 0.5])))
    else:
        Q = np.eye(3)
    t = rng.uniform(-500, 500, 3) if rng.random() < 0.85 else np.zeros(3)
    if kind == "identity" and not t.any():
        t = rng.uniform(-500, 500, 3)
    return Q, t


def _moved(rng, df, motions):
    """the same list after moving every tomogram by its own (Q, t): positions Q.p + t (split anew into x + shift),
    orientations Q.R expressed again as zxz Euler angles"""
    out = df.copy()
    P, R = gens.positions(df), gens.rotations(df)
    tomo = df["tomo_id"].to_numpy(dtype=float)
    P2, R2 = np.empty_like(P), np.empty_like(R)
    for t, (Q, tr) in motions.items():
        sel = tomo == t
        P2[sel] = P[sel] @ Q.T + tr
        R2[sel] = Q @ R[sel]
    s = rng.uniform(-3, 3, P.shape)
    if rng.random() < 0.3:
        xyz = np.round(P2 - s)
        s = P2 - xyz
    out[["x", "y", "z"]] = P2 - s
    out[["shift_x", "shift_y", "shift_z"]] = s
    phi, theta, psi = so3.to_zxz(R2)
    if rng.random() < 0.3:                      # another representative of the same orientation
        phi, psi = phi + 360.0 * rng.integers(-1, 2, len(phi)), psi - 360.0 * rng.integers(-1, 2, len(psi))
    out["phi"], out["theta"], out["psi"] = phi, theta, psi
    return out


def gen(ctx, i, cls):
    rng = ctx.rng(i)
    quick = ctx.tier == "quick"
    hi = 40 if quick else 120
    na, nb = int(rng.integers(2, hi + 1)), int(rng.integers(2, hi + 1))
    if cls == "large" or rng.random() < (0.05 if quick else 0.15):
        na, nb = int(rng.integers(100, 201)), int(rng.integers(100, 201))
        if rng.random() < 0.3:
            nb = 200
    block = cls == "block_sizes" or (cls not in ("n1", "k_gt_available") and rng.random() < 0.25)
    if block:                                   # block / leaf boundaries of batched or tree-based rewrites, and the largest list allowed
        na, nb = int(rng.choice(BLOCK_SIZES)), int(rng.choice(BLOCK_SIZES))
    elif cls == "large" and rng.random() < 0.3:
        na = 200
    k = int(rng.integers(1, 6))
    pixel = float(rng.choice([1.0, 0.5, 10.0, float(np.round(rng.uniform(0.5, 10.0), 3)), float(rng.uniform(0.5, 10.0)), 2.62]))
    # ---- tomogram sets
    n_sh, only_a, only_b = int(rng.integers(1, 4)), 0, 0
    if cls == "partial_disjoint" or (cls not in ("coincident", "n1") and rng.random() < 0.35):
        only_a, only_b = int(rng.integers(0, 3)), int(rng.integers(0, 3))
        if cls == "partial_disjoint" and only_a + only_b == 0:
            only_a, only_b = 1, 1
    if cls == "ids_tomos_hostile":
        n_sh = int(rng.integers(2, 5))
    if cls == "adjacent_big_tomo_ids":
        n_sh, only_a, only_b = int(rng.integers(2, 4)), int(rng.integers(0, 2)), int(rng.integers(0, 2))
    if block and cls not in ("adjacent_big_tomo_ids", "ids_tomos_hostile", "partial_disjoint", "disjoint") and rng.random() < 0.6:
        n_sh, only_a, only_b = 1, 0, 0           # the whole list is one subset of boundary size
    n_sh = min(n_sh, 4 - max(only_a, only_b))
    if cls == "disjoint":
        n_sh, only_a, only_b = 0, int(rng.integers(1, 4)), int(rng.integers(1, 4))
    if cls == "n1":
        variant = str(rng.choice(["1x1", "1xn", "nx1"]))
        n_sh, only_a, only_b = 1, 0, 0
        if variant in ("1x1", "1xn"):
            na = 1
        if variant in ("1x1", "nx1"):
            nb = 1
        if variant == "nx1" and rng.random() < 0.5:
            only_a = 1
    ids = [float(t) for t in rng.choice(TOMO_POOL, n_sh + only_a + only_b, replace=False)]
    big_tomo_ids = cls == "adjacent_big_tomo_ids" or rng.random() < 0.25
    if big_tomo_ids:                            # consecutive tomogram numbers at a representability boundary, in both lists
        base = float(rng.choice(BIG_BASES))
        ids = [base + float(j) for j in rng.permutation(len(ids))]
    shared, ta_only, tb_only = ids[:n_sh], ids[n_sh:n_sh + only_a], ids[n_sh + only_a:]
    tomos_a, tomos_b = shared + ta_only, shared + tb_only
    rng.shuffle(tomos_a); rng.shuffle(tomos_b)
    na, nb = max(na, len(tomos_a)), max(nb, len(tomos_b))
    # ---- positions / orientations
    pos_kind = {"clustered_paired": "clustered"}.get(cls, str(rng.choice(["box", "box", "signed", "clustered"])))
    box = float(rng.choice([60.0, 250.0, 1000.0]))
    centres = rng.uniform(50, 2000, (int(rng.integers(1, 4)), 3))
    ori_a = ori_b = "mixed"
    if cls == "gimbal_same_ori":
        ori_a, ori_b = str(rng.choice(["gimbal", "lattice", "near_gimbal", "wide"])), str(rng.choice(["gimbal", "lattice", "near_gimbal", "wide"]))
    shift_amp = 40.0 if cls == "big_shifts" else 3.0
    id_a = "gapped"
    id_b = "gapped"
    if cls == "ids_tomos_hostile":
        id_a, id_b = str(rng.choice(["gapped", "huge", "contiguous", "big_adjacent"])), str(rng.choice(["per_tomogram", "per_tomogram", "per_tomogram", "contiguous", "gapped", "huge", "big_adjacent"]))
    elif rng.random() < 0.12:
        id_b = "per_tomogram"          # neighbour numbers restart in every tomogram (lists merged without renumbering)
    elif rng.random() < 0.15:
        id_a = id_b = "big_adjacent"
    elif rng.random() < 0.2:
        id_a, id_b = "contiguous", "contiguous"        # same numbers in both lists, different particles
    Pa = _positions(rng, na, pos_kind, box, centres)
    # one list freshly picked / recentred (all shifts exactly 0) while the other carries shifts: complete positions must still be used for both
    zr = rng.random()
    amp_a = 0.0 if zr < 0.10 else shift_amp
    amp_b = 0.0 if 0.10 <= zr < 0.16 else shift_amp
    dfa = _make_list(rng, na, tomos_a, ori_a, Pa, amp_a, id_a, int_xyz=(cls == "big_shifts"))
    Pb = _positions(rng, nb, pos_kind, box, centres)
    paired_src = None
    if cls == "clustered_paired" and rng.random() < 0.6:      # list b = partners displaced from particles of list a
        paired_src = rng.integers(0, na, nb)
        Pb = gens.positions(dfa)[paired_src] + rng.normal(0, float(rng.choice([0.5, 5.0])), (nb, 3))
    dfb = _make_list(rng, nb, tomos_b, ori_b, Pb, amp_b, id_b, int_xyz=(cls == "big_shifts"))
    if paired_src is not None:                  # a partner lies in the tomogram of its source where list b has that tomogram
        ts = dfa["tomo_id"].to_numpy()[paired_src]
        tb = dfb["tomo_id"].to_numpy().copy()
        ok_t = np.isin(ts, tomos_b)
        tb[ok_t] = ts[ok_t]
        dfb["tomo_id"] = tb
    if cls == "gimbal_same_ori" and rng.random() < 0.6:       # identical / repeated orientations: relative rotation = identity
        src = rng.integers(0, na, nb)
        dfb[["phi", "theta", "psi"]] = dfa[["phi", "theta", "psi"]].to_numpy()[src]
    if cls == "k_gt_available":
        k = int(rng.integers(2, 6))
        t0 = shared[0]
        m = int(rng.integers(1, k))
        tb = dfb["tomo_id"].to_numpy().copy()
        others = [t for t in tomos_b if t != t0]
        cur = np.flatnonzero(tb == t0)
        if others:
            for j in cur[m:]:
                tb[j] = others[int(rng.integers(0, len(others)))]
            dfb["tomo_id"] = tb
        else:                                   # single tomogram: shrink list b below k
            dfb = dfb.iloc[:m].reset_index(drop=True)
            nb = m
    # coordinates of a few thousand (float32 spacing 1.2e-4..4.9e-4) or far beyond (1e5, 2**24: float32 spacing 2)
    far = 0.0
    if cls == "close_calls" or rng.random() < 0.2:
        far = float(rng.choice([1000.0, 2000.0, 3500.0, 3500.0, 1e5, 2.0 ** 24]))
        off = far + rng.uniform(0, 0.1 * far, 3)
        dfa[["x", "y", "z"]] = dfa[["x", "y", "z"]].to_numpy() + off
        dfb[["x", "y", "z"]] = dfb[["x", "y", "z"]].to_numpy() + off
    n_close = 0
    if cls == "close_calls":
        n_close = _plant_close_pairs(rng, dfa, dfb, 12)
    elif cls not in ("coincident", "n1") and rng.random() < 0.3:
        n_close = _plant_close_pairs(rng, dfa, dfb, 4)
    # exact duplicates among the QUERY particles (same complete position, other id and orientation): no distance tie arises,
    # every duplicate has to be reported on its own
    n_dup = 0
    if cls not in ("n1", "coincident") and len(dfa) >= 4 and rng.random() < 0.2:
        n_dup = min(int(rng.integers(1, 4)), len(dfa) // 2)
        src, dst = rng.choice(len(dfa), (2, n_dup), replace=False)
        for c in ("x", "y", "z", "shift_x", "shift_y", "shift_z", "tomo_id"):
            v = dfa[c].to_numpy().copy()
            v[dst] = v[src]
            dfa[c] = v
    if cls == "close_calls" and rng.random() < 0.4:
        # candidates on shells around one query whose radii differ by 2e-6 relative: decidable, far outside the exclusion
        q = int(rng.integers(0, na))
        t0 = float(dfa["tomo_id"].iloc[q])
        sel = np.flatnonzero(dfb["tomo_id"].to_numpy() == t0)[:6]
        if len(sel) >= 2:
            c = gens.positions(dfa)[q]
            r0 = float(rng.uniform(5, 50))
            u = rng.normal(size=(len(sel), 3)); u /= np.linalg.norm(u, axis=1, keepdims=True)
            rad = r0 * (1.0 + 2e-6 * rng.permutation(len(sel)))
            Pn = c + u * rad[:, None]
            sh = dfb[["shift_x", "shift_y", "shift_z"]].to_numpy()[sel]
            dfb.loc[dfb.index[sel], ["x", "y", "z"]] = Pn - sh
    shared = sorted(set(dfa["tomo_id"]) & set(dfb["tomo_id"]))      # from the tables themselves
    coincident = cls == "coincident"
    same_object = False
    if coincident:
        dfb = dfa.copy()
        nb = na
        same_object = bool(rng.random() < 0.5)
    # ---- distance ties / near ties are outside the quantifier: regenerate (jitter list b, or both when coincident)
    unresolved = False
    min_gap = None
    if shared:
        for attempt in range(40):
            ref = orc.reference(dfa, dfb, 5, pixel, tie_rel=GEN_TIE)
            min_gap = ref["min_rel_gap"]
            if not ref["ties"]:
                break
            if coincident:
                dfa[["x", "y", "z"]] = dfa[["x", "y", "z"]].to_numpy() + rng.normal(0, 0.05 * (1 + attempt), (len(dfa), 3))
                dfb = dfa.copy()
            else:
                dfb[["x", "y", "z"]] = dfb[["x", "y", "z"]].to_numpy() + rng.normal(0, 0.05 * (1 + attempt), (len(dfb), 3))
        else:
            unresolved = True
    # ---- table index / column order
    idx_a = idx_b = "range"
    kinds = ["permuted", "gaps", "reversed", "offset", "dup_labels", "permuted_columns"]
    if cls == "odd_index":
        idx_a, idx_b = str(rng.choice(kinds + ["range"])), str(rng.choice(kinds + ["range"]))
        if idx_a == idx_b == "range":
            idx_a = "permuted"
    elif rng.random() < 0.2:
        idx_a, idx_b = str(rng.choice(kinds + ["range"])), str(rng.choice(kinds + ["range"]))
    dfa = _odd_index(rng, dfa, idx_a)
    dfb = _odd_index(rng, dfb, idx_b) if not coincident else dfa.copy()
    if coincident:
        idx_b = idx_a
    # ---- rigid motion per tomogram
    mkinds = {}
    motions = {}
    for t in sorted(set(tomos_a) | set(tomos_b)):
        mk = str(rng.choice(["haar", "haar", "haar", "haar", "cube", "half_turn", "tiny", "identity"]))
        mkinds[t] = mk
        motions[t] = _motion(rng, mk)
    r2 = ctx.rng(i, 1)
    dfa2 = _moved(r2, dfa, motions)
    dfb2 = dfa2.copy() if coincident else _moved(r2, dfb, motions)
    call_style = str(rng.choice(["keywords", "positional", "numpy_scalars"]))
    # history: are the moved lists new Motl objects, or the SAME objects rewritten in place (state kept on an object between
    # two analyses must not leak into the second one)?  own random stream, so the lists do not depend on it
    r3 = ctx.rng(i, 2)
    if cls == "reuse_in_place":
        history = str(r3.choice(["inplace_both", "inplace_b_then_a"]))
    else:
        history = str(r3.choice(["fresh", "inplace_both", "inplace_b_then_a"], p=[0.6, 0.25, 0.15]))
    if same_object and history == "inplace_b_then_a":
        history = "inplace_both"
    # a last step of the history: the tomogram numbers of the second list are reassigned in place (same particle count, same
    # set of tomograms when possible) and the same objects are analysed once more
    retag = bool(r3.random() < (0.5 if cls == "reuse_in_place" else 0.12)) and not same_object
    summ = {"cls": cls, "na": int(len(dfa)), "nb": int(len(dfb)), "tomos_a": [float(t) for t in pd.unique(dfa["tomo_id"])], "tomos_b": [float(t) for t in pd.unique(dfb["tomo_id"])],
            "n_shared": len(shared), "k": k, "pixel": pixel,
            "pos": pos_kind, "ori": [ori_a, ori_b], "ids": [id_a, id_b], "index": [idx_a, idx_b], "motions": [mkinds[t] for t in sorted(mkinds)],
            "same_object": same_object, "call": call_style, "history": history, "retag": retag, "big_tomo_ids": big_tomo_ids, "far": far,
            "close_pairs": n_close, "dup_queries": n_dup,
            "min_rel_gap": (float("%.2g" % min_gap) if min_gap is not None and np.isfinite(min_gap) else None),
            "a0": {c: float(dfa[c].iloc[0]) for c in ("subtomo_id", "tomo_id", "x", "shift_x", "phi", "theta", "psi")},
            "b0": {c: float(dfb[c].iloc[0]) for c in ("subtomo_id", "tomo_id", "x", "shift_x", "phi", "theta", "psi")}}
    return {"i": i, "cls": cls, "dfa": dfa, "dfb": dfb, "dfa2": dfa2, "dfb2": dfb2, "k": k, "pixel": pixel, "shared": shared,
            "coincident": coincident, "same_object": same_object, "unresolved_ties": unresolved, "call_style": call_style, "history": history, "retag": retag, "summary": summ}


def nontrivial(case):
    if not case["shared"] or case["unresolved_ties"]:
        return False
    a, b = case["dfa"], case["dfb"]
    cnt = b["tomo_id"].value_counts()
    choice = any(cnt.get(t, 0) >= 2 for t in set(a["tomo_id"]))
    return bool(choice and np.any(a[["shift_x", "shift_y", "shift_z"]].to_numpy() != 0) and np.any(b[["shift_x", "shift_y", "shift_z"]].to_numpy() != 0))


# ---- driver ---------------------------------------------------------------------------------------
def _call_stats(ctx, label, A, B, case):
    f = ctx.nn.get_nn_stats
    k, px = case["k"], case["pixel"]
    if case["call_style"] == "positional":
        return ctx.call(label, f, A, B, px, "tomo_id", k)
    if case["call_style"] == "numpy_scalars":
        return ctx.call(label, f, A, B, pixel_size=np.float64(px), nn_number=np.int64(k))
    return ctx.call(label, f, A, B, pixel_size=px, nn_number=k)


def _compare_moved(ctx, T0, T1, scale):
    """rows matched by (query id, rank in table order)"""
    w = {m: None for m in RIGID}
    try:
        g0, g1 = orc.group_rows(T0), orc.group_rows(T1)
    except Exception as e:
        ctx.check("rigid_structure", False, {"what": "tables not comparable", "error": str(e)[:200]})
        return
    if set(g0) != set(g1) or any(len(g0[q]) != len(g1[q]) for q in g0):
        q = next((q for q in set(g0) | set(g1) if q not in g0 or q not in g1 or len(g0[q]) != len(g1[q])))
        ctx.check("rigid_structure", False, {"what": "reported queries / number of neighbours changed under the motion", "query_id": q,
                                            "before": int(len(g0.get(q, []))), "after": int(len(g1.get(q, [])))})
        return
    ltol = 1e-6 * scale
    for q in g0:
        a, b = g0[q], g1[q]
        for r in range(len(a)):
            base = {"query_id": q, "rank": r + 1}
            if w["rigid_structure"] is None and a[r, 15] != b[r, 15]:
                w["rigid_structure"] = dict(base, what="neighbour id changed under the motion", before=float(a[r, 15]), after=float(b[r, 15]))
            if w["rigid_distance"] is None and not abs(a[r, 0] - b[r, 0]) <= ltol:
                w["rigid_distance"] = dict(base, before=float(a[r, 0]), after=float(b[r, 0]), tol=ltol)
            if w["rigid_frame_offset"] is None and not np.abs(a[r, 4:7] - b[r, 4:7]).max() <= ltol:
                w["rigid_frame_offset"] = dict(base, before=a[r, 4:7], after=b[r, 4:7], tol=ltol)
            if w["rigid_angular"] is None and not abs(a[r, 7] - b[r, 7]) <= (1e-4 if min(a[r, 7], b[r, 7]) < 1e-2 else 1e-6):
                w["rigid_angular"] = dict(base, before=float(a[r, 7]), after=float(b[r, 7]))
            if w["rigid_relative_orientation"] is None:
                Ra, Rb = so3.zxz(a[r, 11], a[r, 12], a[r, 13]), so3.zxz(b[r, 11], b[r, 12], b[r, 13])
                if not np.abs(Ra - Rb).max() <= 1e-6:
                    w["rigid_relative_orientation"] = dict(base, what="phi,theta,psi (as matrices)", before=a[r, 11:14], after=b[r, 11:14])
                elif not np.abs(a[r, 8:11] - b[r, 8:11]).max() <= 1e-6:
                    w["rigid_relative_orientation"] = dict(base, what="rot_x,y,z", before=a[r, 8:11], after=b[r, 8:11])
    for m in RIGID:
        ctx.check(m, w[m] is None, w[m])


def _rewrite_in_place(m, moved):
    """write the moved pose into the table of the existing Motl object (row by row, positionally); the object is kept"""
    vals = moved[POSE].to_numpy(dtype=float)
    for j, c in enumerate(POSE):
        m.df[c] = vals[:, j]


def run_case(ctx, case):
    cm = ctx.cm
    if case["unresolved_ties"]:
        for m in DIRECT + RIGID:
            ctx.ood(m)
        return
    okA, A = ctx.call("Motl(a)", cm.Motl, case["dfa"].copy())
    okB, B = (okA, A) if case["same_object"] else ctx.call("Motl(b)", cm.Motl, case["dfb"].copy())
    if not (okA and okB):
        return
    if not case["shared"]:
        # completely disjoint tomogram sets: no row to speak about; observed behaviour is recorded, not judged
        try:
            r = ctx.nn.get_nn_stats(A, B, pixel_size=case["pixel"], nn_number=case["k"])
            key = "disjoint_returns_%d_rows" % len(r)
        except Exception as e:
            key = "disjoint_raises_" + type(e).__name__
        ctx.extra[key] = ctx.extra.get(key, 0) + 1
        for m in DIRECT + RIGID:
            ctx.ood(m)
        return
    ok0, T0 = _call_stats(ctx, "get_nn_stats", A, B, case)
    # the k-NN query called directly on the two whole lists: whether get_nn_distances / get_nn_rotations reach it through this
    # public name is an internal matter of cryoCAT (their tables are judged against brute force either way); the knn_query monitor
    # is reached in either case
    ctx.call("get_feature_nn_indices", ctx.nn.get_feature_nn_indices, A, B, case["k"])
    if case["history"] == "fresh":
        okA2, A2 = ctx.call("Motl(a moved)", cm.Motl, case["dfa2"].copy())
        okB2, B2 = (okA2, A2) if case["same_object"] else ctx.call("Motl(b moved)", cm.Motl, case["dfb2"].copy())
        if not (okA2 and okB2):
            return
        ok1, T1 = _call_stats(ctx, "get_nn_stats(moved)", A2, B2, case)
    else:
        # the very same Motl objects, rewritten in place; every call is judged by the nn_* call monitors against brute force
        # on the positions the objects hold at that moment
        if case["history"] == "inplace_b_then_a":
            _rewrite_in_place(B, case["dfb2"])              # only the second list moved: a new geometry, not a rigid motion
            okm, Tm = _call_stats(ctx, "get_nn_stats(second list moved in place)", A, B, case)
            ctx.check("reused_objects", okm and isinstance(Tm, pd.DataFrame), {"what": "no table after moving the second list in place"})
            _rewrite_in_place(A, case["dfa2"])
        else:
            _rewrite_in_place(A, case["dfa2"])
            if B is not A:
                _rewrite_in_place(B, case["dfb2"])
        ok1, T1 = _call_stats(ctx, "get_nn_stats(moved in place)", A, B, case)
        ctx.call("get_feature_nn_indices(moved in place)", ctx.nn.get_feature_nn_indices, A, B, case["k"])
        ctx.check("reused_objects", ok1 and isinstance(T1, pd.DataFrame), {"what": "no table after moving both lists in place"})
    if not (ok0 and ok1):
        return
    P = np.vstack([gens.positions(case["dfa"]), gens.positions(case["dfb"]), gens.positions(case["dfa2"]), gens.positions(case["dfb2"])])
    _compare_moved(ctx, T0, T1, max(1.0, float(np.abs(P).max()) * case["pixel"]))
    if case["retag"]:
        A3, B3 = (A, B) if case["history"] != "fresh" else (A2, B2)
        B3.df["tomo_id"] = np.roll(B3.df["tomo_id"].to_numpy(), 1 + case["i"] % 3)     # in place, positionally
        if set(A3.df["tomo_id"]) & set(B3.df["tomo_id"]):
            okr, Tr = _call_stats(ctx, "get_nn_stats(second list re-tagged in place)", A3, B3, case)
            ctx.check("reused_objects", okr and isinstance(Tr, pd.DataFrame), {"what": "no table after re-assigning tomogram numbers in place"})


def extra(ctx):
    """documented 'Motl or str' arguments: get_nn_distances builds Motl(motl_path=...) for a path.  Lists given as paths are
    not what the property quantifies over (it speaks about particle lists); the behaviour is recorded, never judged."""
    from vmon.oracles import files
    rng = ctx.rng(10 ** 6)
    df = gens.motl_table(rng, 6, tomos=1)
    p = os.path.join(ctx.scratch, "c18_list.em")
    files.write_em_raw(p, df[gens.COLS].to_numpy(dtype=np.float32).T.reshape(20, 6, 1))      # x = field, y = particle, z = 1
    ctx.active = False
    try:
        r = ctx.nn.get_nn_stats(p, p)
        ctx.extra["path_arguments"] = "returned %d rows" % len(r)
    except Exception as e:
        ctx.extra["path_arguments"] = "raises %s: %s" % (type(e).__name__, str(e)[:120])
    finally:
        ctx.active = True
