"""C12 - Fourier filters are the documented radial low/high/band-pass gains.

The gain of every observed execution is read off the DFT, G = fftn(out)/fftn(in) (vmon.oracles.c12_oracle), and
directly on plane waves.  Call monitors sit on the real cryomap.lowpass / highpass / bandpass / resolution2pixels /
get_filter_radius (so calls made from inside cryoCAT are judged too); relational clauses are evaluated by the driver.

Call monitors (Layer A)
  lp_gain          post(lowpass): output real, finite, same box; gain real, in [0,1]; no output energy at frequencies
                   absent from the input
  lp_hard_edge     post(lowpass, sigma = 0): G = 1 <=> kx^2+ky^2+kz^2 <= cut^2 (integer arithmetic), else 0
  lp_soft_edge     post(lowpass, sigma > 0): G = 1 for r <= cut-4s-1, 0 for r >= cut+4s+1 (up to the Gaussian tail mass
                   beyond 4 sigma, 1.2e-3; to 1e-9 beyond sqrt3(4s+1))
  lp_soft_rays     post(lowpass, sigma > 0): G non-increasing along the lattice rays from the origin (judged when the
                   cutoff ball fits into the box on every axis, cut <= min(N)//2)
  lp_soft_symmetry post(lowpass, sigma > 0): G invariant under swaps of equal-sized axes and, when the blurred sphere
                   stays inside the box, under a sign flip of one frequency index
  hp_gain          post(highpass): 1-G obeys the low-pass clauses above (hard: G = 0 <=> k^2 <= cut^2; soft: plateaus,
                   range, rays non-decreasing)
  hp_complement    post(highpass): out + lowpass(in, same parameters) == in
  bp_difference    post(bandpass): out == lowpass(in, lp cut, lp sigma) - lowpass(in, hp cut, hp sigma), cutoffs
                   resolved independently (pixels, or round(N0*pix/res))
  bp_gain          post(bandpass): gain real, <= 1, >= 0 where that follows from the statement; both edges hard:
                   G = [k^2 <= lp^2] - [k^2 <= hp^2] exactly
  res2pix          post(resolution2pixels): == round(edge*pixel_size/resolution) in exact rational arithmetic
  filter_radius    post(get_filter_radius): the given pixels, or round(edge*pixel_size/resolution)
Driver (Layer B)
  linearity        F(a x1 + b x2) == a F(x1) + b F(x2) for F in lowpass, highpass, bandpass
  shift_commute    F(roll(x, s)) == roll(F(x), s)
  plane_wave       F(cos(2 pi k.x/N + phase)) == g * same wave, g = the prescribed gain at k (hard: exactly 0/1;
                   soft: plateaus, 0 <= g <= 1), lowpass + highpass == identity
  resolution_equiv F(x, resolution+pixel size) == F(x, round(N0*pix/res) Fourier pixels)
  default_widths   F(x, cutoffs) with the edge widths omitted == F(x, cutoffs, documented default widths passed explicitly); bandpass also
                   with only one of its two widths passed
"""
import os
import sys

import numpy as np

from vmon import monitors
from vmon.oracles import c12_oracle as O

PROP = "C12"
RULE = ("cases = (box 8..48 per axis, map kind, low-/high-pass cutoffs 1..N0/2 as pixels or resolution+pixel size, Gaussian "
        "widths 0..4, relational filter, roll, coefficients) stratified over the named classes; every case drives lowpass, "
        "highpass and bandpass plus linearity and roll on one of them; non-trivial = the driven map has Fourier components on "
        "both sides of the low-pass cutoff (plane-wave cases: some chosen k inside and some outside; resolution_noncubic: the "
        "first-axis rule gives a different cutoff than another axis would); distinct by digest of all those parameters.  Planted in every "
        "run: grey-value scales 1e-12..1e12 (unit-sum densities, h*x with |h| = 1e-12..1e11, plane-wave amplitudes 1e-12..1e12), "
        "fourier_pixels together with small pixel sizes (0.04..0.3) next to Nyquist, box sizes 2^k-1/2^k/2^k+1 and 8/48, quotients "
        "1e-9..5e-7 from a rounding tie and exact odd-floor ties, rare widths (1e-9, 0.124/0.125, nextafter(4,0)), argument types "
        "(int, np.int32/int64/uint8, float, np.float32/float64), option_pairs (10 small sub-configurations per case with independently "
        "drawn options), history_inplace (one caller-owned array modified in place between calls, lp_cut == hp_cut bands)")
ASSUMPTIONS = [
    "frequency radius r(k) = sqrt(kx^2+ky^2+kz^2) with k_i the signed integer DFT index along axis i (Fourier pixels of the mask "
    "grid, -N_i/2..ceil(N_i/2)-1), also in non-cubic boxes (a ball in index space, not in cycles/voxel) - measured on the unchanged "
    "code: hard-edge gain is exactly [k^2 <= cut^2] for every non-cubic box probed",
    "'box' / 'edge size' of the resolution rule and of the cutoff range 1..N/2 is the FIRST axis of the array (N0 = shape[0]), as the "
    "code defines it; an EXACT rounding tie box*pix/res = k + 1/2 (decided with Fractions of the float inputs, all float operations "
    "exact) with k ODD is in domain with expected k + 1 (round-half-even and round-half-up agree) and is planted in every run; exact "
    "ties with k EVEN (the two rules differ) and inexact near-ties are out of domain",
    "gain read off G = fftn(out)/fftn(in) on the bins that carry input (uncertainty tau(k) = 1e-9 + eta*max|F|/|F(k)| <= 1e-3; "
    "eta = 1e-12 for float64/integer maps, 1e-6 for float32 maps); since the filters return np.real(ifftn(.)) this is the "
    "k <-> -k average of the transfer function, i.e. what the user receives",
    "soft edge, derivation of the tolerances: the edge is a voxelised ball blurred by a Gaussian of width s, so a bin at distance "
    ">= 4s+1 from the edge can differ from its plateau by at most the mass of an isotropic 3-D Gaussian outside radius 4 sigma, "
    "erfc(4/sqrt2) + sqrt(2/pi)*4*exp(-8) = 1.134e-3 (the per-axis truncated separable kernel has a CUBE support, its corners lie "
    "outside the 4-sigma ball): '1 inside cutoff-4s-1 / 0 outside cutoff+4s+1' is judged to 1.2e-3 (1.134e-3 + kernel "
    "renormalisation; the unchanged code is off by up to 2.3e-4, e.g. box 31^3, cut 13, sigma 3, k = 0: DESIGN's 1e-4 would be a false "
    "alarm) and to 1e-9 for r <= cut-sqrt3*(4s+1) and r >= cut+sqrt3*(4s+1), where no kernel of per-axis half-width <= 4s+1 can reach "
    "across the edge (every contributing voxel lies within Euclidean distance sqrt3*(4s+1))",
    "'non-increasing in between' is judged along lattice rays from the origin and only when the cutoff ball fits into the box on every "
    "axis (cut <= min(N)//2; always true for cubic boxes): for min(N)//2 < cut <= N0//2 the unchanged code shows increases of 1e-8..1e-7 "
    "next to the faces of the short axes (mode='nearest' replication of the ball sticking out of the box; e.g. box (22,8,10), cut 10, "
    "sigma 2, k=(0,2,-2)->(0,3,-3): +2.2e-8) - counted in observed.soft_executions_with_cutoff_beyond_a_short_axis_rays_not_judged, "
    "not judged (accepted by the lead); 'depends on the radius' is judged as invariance under swaps of equal axes and single-index "
    "sign flips when cut+4s+1 < min(N)/2 (DESIGN 4/C12)",
    "every oracle is relative to the map's own scale (max|x|, max|F|): the filters are linear, so maps over 24 orders of magnitude are in "
    "the quantifier ('all real maps') and an absolute error is a relative one on small-valued maps; float32 maps are kept within 1e-12..1e12 "
    "too (values next to the float32 maximum overflow numpy's single-precision FFT and are not generated)",
    "maps are also passed in non-native byte order, Fortran order, as axis-swapped / negatively strided / sliced views and read-only, as "
    "int8/16/32/64, uint8, float32 arrays, numeric arguments as numpy scalars and 0-d arrays: the expected value is always computed from the "
    "values the array holds.  Edge widths OMITTED must act like the documented defaults (lowpass 3, highpass 2, bandpass 3/2) passed "
    "explicitly (monitor default_widths)",
    "not generated (accepted by the lead as outside what the property speaks about): ONE band-pass width passed as np.float32 next to the other "
    "as a Python number - skimage builds its Gaussian kernel in the precision of sigma, so the two spheres are blurred with kernels that differ "
    "by ~1e-8 and an empty band (equal cutoffs, equal widths) shows a gain of -2e-9 on the unchanged code; both widths of the SAME scalar kind "
    "(also both np.float32) are generated and nest exactly",
    "band-pass gain >= 0 is judged only where it follows from the statement: equal widths and hp <= lp, or stop band of the inner "
    "filter reached before the outer one starts to fall; band-pass == LP(lp) - LP(hp) is judged always",
]

CLASSES = ["cubic_even_hard", "cubic_odd_hard", "noncubic_hard", "cubic_soft_inside", "cubic_soft_touching", "noncubic_soft",
           "cut_extremes", "resolution_cubic", "resolution_noncubic", "plane_wave", "bandpass_mixed_sigma", "box_extremes",
           "dtype_smooth", "pixels_plus_small_pixel_size", "scale_extremes", "option_pairs", "history_inplace"]
FILTERS = ["lowpass", "highpass", "bandpass"]
SIGMAS = [0.5, 1, 2, 3, 4]
# planted values (round 5): what a random generator rarely produces
SMALL_PIX = [0.05, 0.06, 0.0834, 0.1, 0.125, 0.15, 0.2, 0.25, 0.3]            # pixel sizes in nm / sub-Angstrom sampling
RARE_SIGMAS = [1e-9, 0.124, 0.125, float(np.nextafter(4.0, 0.0)), 4, 0.2]     # kernel radius int(4s+.5) flips between 0.124 and 0.125
SCALE_EXPS = [-12, -10, -8, -7, -5, -3, 3, 6, 9, 12]                          # grey-value scales 1e-12 .. 1e12
BOUNDARY_SIZES = [8, 9, 15, 16, 17, 31, 32, 33, 47, 48]                       # 2**k - 1, 2**k, 2**k + 1 and the extremes of 8..48
PIXTYPES = {"int": int, "np.int64": np.int64, "float": float, "np.int32": np.int32, "np.uint8": np.uint8, "np.float32": np.float32,
            "np.float64": np.float64, "0d": np.array, "0d_float": lambda v: np.array(float(v))}
NEAR_TIE_EPS = [5e-7, 1e-7, 1e-8, 1e-9]
# round 6: the SHAPE of the inputs - memory layouts / byte order of the map (values equal to the plain C-contiguous native copy),
# scalar kinds of the numeric arguments, documented default edge widths (docstrings of lowpass / highpass / bandpass)
LAYOUTS = ["c", "c", "c", "fortran", "swapaxes_view", "negative_strides", "strided_slice", "readonly", "big_endian", "big_endian",
           "big_endian_fortran", "readonly_fortran"]
SIGTYPES = ["plain", "plain", "plain", "np.float64", "np.int64", "0d", "np.float32", "negzero"]
DOC_DEFAULT = {"lowpass": 3, "highpass": 2, "bandpass": (3, 2)}
ODD_NAMES = ["ribosome.em", "frame.em", "a b [1].mrc", "m\u00fcon_*?.em", "sub dir/\u00fc/x.mrc", "./rel.mrc", "mrc.mrc", "em.em", "x.rec",
             "stack.mrc.em"]                                       # distance of box*pix/res from a rounding tie k + 1/2


def plan(tier):
    # floors: ~80% of what was measured on the current tree (core requires half of the stated figure).  res2pix / filter_radius:
    # 1.6 x what the driver's OWN direct calls give (=> floor at 80% of it); calls coming from inside cryoCAT are not counted on,
    # see drive_cutoff_rule
    if tier == "quick":
        return dict(n_cases=28 * len(CLASSES), shards=1, classes=CLASSES, timeout_s=900,
                    min_evals={"lp_gain": 4400, "lp_hard_edge": 2800, "lp_soft_edge": 1500, "lp_soft_rays": 800, "lp_soft_symmetry": 700,
                               "hp_gain": 4200, "hp_complement": 4200, "bp_difference": 1600, "bp_gain": 1600,
                               "res2pix": 12900, "filter_radius": 28700, "linearity": 1100, "shift_commute": 580, "plane_wave": 8000,
                               "resolution_equiv": 500, "default_widths": 950})
    return dict(n_cases=16 * 50 * len(CLASSES), shards=16, classes=CLASSES, timeout_s=3300,
                min_evals={"lp_gain": 90000, "lp_hard_edge": 45000, "lp_soft_edge": 45000, "lp_soft_rays": 20000, "lp_soft_symmetry": 16000,
                           "hp_gain": 90000, "hp_complement": 90000, "bp_difference": 45000, "bp_gain": 45000, "res2pix": 160000,
                           "filter_radius": 250000, "linearity": 30000, "shift_commute": 15000, "plane_wave": 150000,
                           "resolution_equiv": 12000, "default_widths": 15000})


# ---- the quantifier as predicates ---------------------------------------------------------------
def _num(v):
    if isinstance(v, np.ndarray) and v.ndim == 0:
        v = v[()]
    return isinstance(v, (int, float, np.integer, np.floating)) and not isinstance(v, (bool, np.bool_)) and np.isfinite(v)


def in_domain_map(x):
    if not isinstance(x, np.ndarray) or x.ndim != 3 or x.dtype.kind not in "fiu":
        return False
    if not all(8 <= n <= 48 for n in x.shape):
        return False
    return bool(np.all(np.isfinite(x)) and np.any(x != 0))


def resolve_cut(n0, pixels, resolution, pixel_size):
    """The statement's cutoff in Fourier pixels, resolved independently of cryoCAT.  None if outside the quantifier."""
    if pixels is not None:
        if resolution is not None or not _num(pixels) or float(pixels) != int(pixels):
            return None
        if pixel_size is not None and not (_num(pixel_size) and pixel_size > 0):
            return None
        cut = int(pixels)
    else:
        if not (_num(resolution) and _num(pixel_size)):
            return None
        cut, why = O.round_half_exact(n0, pixel_size, resolution)
        if cut is None:
            return None
    return cut if 1 <= cut <= n0 // 2 else None


def in_domain_sigma(s):
    return _num(s) and 0 <= float(s) <= 4


def _single_applicable(A):
    x = A["input_map"]
    return (in_domain_map(x) and in_domain_sigma(A["gaussian"])
            and resolve_cut(x.shape[0], A["fourier_pixels"], A["target_resolution"], A["pixel_size"]) is not None)


def _bp_cuts(A):
    n0 = A["input_map"].shape[0]
    return (resolve_cut(n0, A["lp_fourier_pixels"], A["lp_target_resolution"], A["pixel_size"] if A["lp_fourier_pixels"] is None else None),
            resolve_cut(n0, A["hp_fourier_pixels"], A["hp_target_resolution"], A["pixel_size"] if A["hp_fourier_pixels"] is None else None))


def _bp_applicable(A):
    x = A["input_map"]
    if not (in_domain_map(x) and in_domain_sigma(A["lp_gaussian"]) and in_domain_sigma(A["hp_gaussian"])):
        return False
    if A["pixel_size"] is not None and not (_num(A["pixel_size"]) and A["pixel_size"] > 0):
        return False
    a, b = _bp_cuts(A)
    return a is not None and b is not None


def _snapshot_map(A):
    return np.array(A["input_map"], copy=True)


# ---- call monitors ------------------------------------------------------------------------------
def _output_ok(ctx, name, x0, y, info):
    if not (isinstance(y, np.ndarray) and y.shape == x0.shape and y.dtype.kind == "f" and np.all(np.isfinite(y))):
        ctx.check(name, False, dict(info, clause="output is not a finite real array of the input's box",
                                    got=str(type(y).__name__) + str(getattr(y, "shape", "")) + str(getattr(y, "dtype", ""))))
        return False
    return True


def _count(ctx, g):
    """measured reach of the DFT read-out: executions whose every bin carried input, and bins judged in total"""
    ctx.extra["filter_executions_with_every_bin_observable"] = ctx.extra.get("filter_executions_with_every_bin_observable", 0) + int(g.all_obs)
    ctx.extra["fourier_bins_judged"] = ctx.extra.get("fourier_bins_judged", 0) + g.n_obs()


def _judge_lowpass_like(ctx, prefix, g, cut, sigma, info, lowpass_like):
    """hard / soft clauses for a gain that should be a low-pass (lowpass_like) or its complement."""
    if sigma == 0:
        exp = O.hard_lowpass_gain(g.shape, cut)
        if not lowpass_like:
            exp = 1.0 - exp
        w = g.equals(exp, "hard edge: gain is 1 exactly up to the cutoff radius and 0 beyond" if lowpass_like else
                     "hard edge: high-pass gain is 0 exactly up to the cutoff radius and 1 beyond")
        ctx.check(prefix + ("_hard_edge" if lowpass_like else "_gain"), w is None, w and dict(w, **info))
        return
    w, cnt = O.soft_plateaus(g, cut, sigma, lowpass_like)
    # rays: judged when the cutoff ball fits into the box on EVERY axis (always true in cubic boxes).  Beyond that
    # (non-cubic, min(N)//2 < cut <= N0//2) the quantifier's "cutoffs 1..N/2" is ambiguous and the unchanged code shows
    # increases of up to 1e-7 next to the faces of the short axes (mode='nearest' replication) - counted, not judged.
    if cut <= min(g.shape) // 2:
        wr, npairs = O.rays_nonincreasing(g, lowpass_like)
    else:
        wr, npairs = None, 0
        ctx.extra["soft_executions_with_cutoff_beyond_a_short_axis_rays_not_judged"] = ctx.extra.get(
            "soft_executions_with_cutoff_beyond_a_short_axis_rays_not_judged", 0) + 1
    if lowpass_like:
        ctx.check("lp_soft_edge", w is None, w and dict(w, **info))
        if npairs:
            ctx.check("lp_soft_rays", wr is None, wr and dict(wr, **info))
        else:
            ctx.ood("lp_soft_rays")
        ws, nrel = O.symmetry(g, cut, sigma)
        if nrel and g.n_obs() > 2:
            ctx.check("lp_soft_symmetry", ws is None, ws and dict(ws, **info))
        else:
            ctx.ood("lp_soft_symmetry")
    else:
        w = w or wr or g.real_and_range()
        ctx.check("hp_gain", w is None, w and dict(w, **info))


def _lp_post(ctx, A, x0, y):
    cut = resolve_cut(x0.shape[0], A["fourier_pixels"], A["target_resolution"], A["pixel_size"])
    sigma = float(A["gaussian"])
    info = {"filter": "lowpass", "box": list(x0.shape), "cut": cut, "sigma": sigma,
            "by": "pixels" if A["fourier_pixels"] is not None else "resolution"}
    if not _output_ok(ctx, "lp_gain", x0, y, info):
        return
    g = O.Gain(x0, y)
    _count(ctx, g)
    w = g.quiet_elsewhere() or g.real_and_range()
    ctx.check("lp_gain", w is None, w and dict(w, **info))
    _judge_lowpass_like(ctx, "lp", g, cut, sigma, info, True)


def _hp_post(ctx, A, x0, y):
    cut = resolve_cut(x0.shape[0], A["fourier_pixels"], A["target_resolution"], A["pixel_size"])
    sigma = float(A["gaussian"])
    info = {"filter": "highpass", "box": list(x0.shape), "cut": cut, "sigma": sigma,
            "by": "pixels" if A["fourier_pixels"] is not None else "resolution"}
    if not _output_ok(ctx, "hp_gain", x0, y, info):
        return
    g = O.Gain(x0, y)
    _count(ctx, g)
    w = g.quiet_elsewhere()
    if w is not None:
        ctx.check("hp_gain", False, dict(w, **info))
    else:
        _judge_lowpass_like(ctx, "hp", g, cut, sigma, info, False)
    # exact complement of the real low-pass with the same parameters
    try:
        lp = ctx.c12_orig["lowpass"](np.array(x0, copy=True), fourier_pixels=A["fourier_pixels"], target_resolution=A["target_resolution"],
                                     pixel_size=A["pixel_size"], gaussian=A["gaussian"])
    except Exception as e:
        ctx.check("hp_complement", False, dict(info, clause="lowpass with the same parameters raised", exception=repr(e)[:200]))
        return
    scale = float(np.abs(x0).max())
    tol = (1e-9 if g.eta < 1e-9 else 1e-5) * scale
    d = np.abs(np.asarray(y, dtype=np.float64) + lp - x0)
    ok = bool(d.max() <= tol)
    ctx.check("hp_complement", ok, None if ok else dict(info, clause="highpass + lowpass != identity", max_abs_dev=float(d.max()),
                                                        at=[int(v) for v in np.unravel_index(int(d.argmax()), d.shape)], scale=scale))


def _bp_post(ctx, A, x0, y):
    lp_cut, hp_cut = _bp_cuts(A)
    s_lp, s_hp = float(A["lp_gaussian"]), float(A["hp_gaussian"])
    info = {"filter": "bandpass", "box": list(x0.shape), "lp_cut": lp_cut, "hp_cut": hp_cut, "lp_sigma": s_lp, "hp_sigma": s_hp,
            "lp_by": "pixels" if A["lp_fourier_pixels"] is not None else "resolution",
            "hp_by": "pixels" if A["hp_fourier_pixels"] is not None else "resolution"}
    if not _output_ok(ctx, "bp_gain", x0, y, info):
        return
    g = O.Gain(x0, y)
    _count(ctx, g)
    w = g.quiet_elsewhere()
    m_lp, m_hp = 4 * s_lp + 1, 4 * s_hp + 1
    if w is None:
        if s_lp == 0 and s_hp == 0:
            exp = O.hard_lowpass_gain(x0.shape, lp_cut) - O.hard_lowpass_gain(x0.shape, hp_cut)
            w = g.equals(exp, "hard edges: band-pass gain is [k^2 <= lp^2] - [k^2 <= hp^2]")
        elif (s_lp == s_hp and hp_cut <= lp_cut) or hp_cut + O.SQRT3 * m_hp <= lp_cut - O.SQRT3 * m_lp:
            w = g.real_and_range()
        elif hp_cut + m_hp <= lp_cut - m_lp:
            w = g.real_and_range(extra_tol=O.SOFT_TOL)
        else:
            w = g.real_and_range(lo=False)
    ctx.check("bp_gain", w is None, w and dict(w, **info))
    try:
        lo = ctx.c12_orig["lowpass"]
        a = lo(np.array(x0, copy=True), fourier_pixels=lp_cut, gaussian=A["lp_gaussian"])
        b = lo(np.array(x0, copy=True), fourier_pixels=hp_cut, gaussian=A["hp_gaussian"])
    except Exception as e:
        ctx.check("bp_difference", False, dict(info, clause="a component lowpass raised", exception=repr(e)[:200]))
        return
    scale = float(np.abs(x0).max())
    tol = (1e-9 if g.eta < 1e-9 else 1e-5) * scale
    d = np.abs(np.asarray(y, dtype=np.float64) - (a - b))
    ok = bool(d.max() <= tol)
    ctx.check("bp_difference", ok, None if ok else dict(info, clause="bandpass != lowpass(lp) - lowpass(hp)", max_abs_dev=float(d.max()),
                                                        at=[int(v) for v in np.unravel_index(int(d.argmax()), d.shape)], scale=scale))


def _r2p_applicable(A):
    return O.round_half_exact(A["edge_size"], A["pixel_size"], A["resolution"])[0] is not None


def _r2p_post(ctx, A, old, result):
    exp, _ = O.round_half_exact(A["edge_size"], A["pixel_size"], A["resolution"])
    ok = _num(result) and result == exp
    ctx.check("res2pix", ok, None if ok else {"edge_size": float(A["edge_size"]), "pixel_size": float(A["pixel_size"]),
                                              "resolution": float(A["resolution"]), "returned": repr(result), "expected": exp})


def _gfr_expected(A):
    fp, res, pix = A["fourier_pixels"], A["target_resolution"], A["pixel_size"]
    if fp is not None:
        return fp if (_num(fp) and res is None) else None
    if not (_num(res) and _num(pix) and _num(A["edge_size"])):
        return None
    return O.round_half_exact(A["edge_size"], pix, res)[0]


def _gfr_applicable(A):
    return _gfr_expected(A) is not None


def _gfr_post(ctx, A, old, result):
    exp = _gfr_expected(A)
    ok = _num(result) and result == exp
    ctx.check("filter_radius", ok, None if ok else {"edge_size": repr(A["edge_size"]), "fourier_pixels": repr(A["fourier_pixels"]),
                                                    "target_resolution": repr(A["target_resolution"]), "pixel_size": repr(A["pixel_size"]),
                                                    "returned": repr(result), "expected": repr(exp)})


def setup(ctx):
    from cryocat import cryomap, cryomask
    ctx.cmap = cryomap
    ctx.c12_orig = {}
    ctx.declare("default_widths")
    ctx.declare("lp_gain", "lp_hard_edge", "lp_soft_edge", "lp_soft_rays", "lp_soft_symmetry", "hp_gain", "hp_complement",
                "bp_difference", "bp_gain", "res2pix", "filter_radius", "linearity", "shift_commute", "plane_wave", "resolution_equiv")
    o = ctx.c12_orig
    o["lowpass"] = monitors.wrap(ctx, cryomap, "lowpass", "lp_gain", _lp_post, _single_applicable, _snapshot_map)
    o["highpass"] = monitors.wrap(ctx, cryomap, "highpass", "hp_gain", _hp_post, _single_applicable, _snapshot_map)
    o["bandpass"] = monitors.wrap(ctx, cryomap, "bandpass", "bp_gain", _bp_post, _bp_applicable, _snapshot_map)
    o["r2p"] = monitors.wrap(ctx, cryomap, "resolution2pixels", "res2pix", _r2p_post, _r2p_applicable)
    o["gfr"] = monitors.wrap(ctx, cryomap, "get_filter_radius", "filter_radius", _gfr_post, _gfr_applicable)
    monitors.trace(ctx, [
        ("cryomap.lowpass", o["lowpass"], {"write_output": "write(filtered_map, output_name"}),
        ("cryomap.highpass", o["highpass"], {"write_output": "write(filtered_map, output_name"}),
        ("cryomap.bandpass", o["bandpass"], {"write_output": "write(bandpass_filtered, output_name"}),
        ("cryomap.get_filter_radius", o["gfr"], {"by_pixels": "radius = fourier_pixels", "pixels_and_pixel_size": "_ = pixels2resolution",
                                                 "by_resolution": "radius = resolution2pixels", "neither_refused": "raise ValueError"}),
        ("cryomap.resolution2pixels", o["r2p"], {"print_out": "print(f"}),
        ("cryomap.pixels2resolution", cryomap.pixels2resolution, {"print_out": "print(f"}),
        ("cryomask.spherical_mask", cryomask.spherical_mask, {"centre_voxel": "mask[center[0], center[1], center[2]] = 1"}),
        ("cryomask.add_gaussian", cryomask.add_gaussian, {"hard_edge": "return input_mask", "soft_edge": "return filters.gaussian"}),
        ("cryomask.preprocess_params", cryomask.preprocess_params, {"blur_outwards": "new_radius = np.ceil", "blur_central": "new_radius = radius"}),
        ("cryomask.get_correct_format", cryomask.get_correct_format, {"default_centre": "size_correct_format = box_size // 2"}),
    ])


# ---- generator ----------------------------------------------------------------------------------
def _size(rng, big, lo=8, hi=48, parity=None):
    for _ in range(200):
        if big:
            n = int(rng.integers(lo, hi + 1))
        else:
            u = rng.random()
            a, b = (8, 16) if u < 0.55 else (17, 32) if u < 0.9 else (33, 48)
            a, b = max(a, lo), min(b, hi)
            if a > b:
                a, b = lo, hi
            n = int(rng.integers(a, b + 1))
        if parity is None or n % 2 == parity:
            return n
    return lo if parity is None or lo % 2 == parity else lo + 1


def _noncubic(rng, big):
    while True:
        s = [_size(rng, big) for _ in range(3)]
        if rng.random() < 0.3:
            s[int(rng.integers(0, 3))] = s[int(rng.integers(0, 3))]          # two equal axes sometimes
        if len(set(s)) > 1:
            return tuple(s)


def _pixel_size(rng):
    if rng.random() < 0.35:
        return float(SMALL_PIX[int(rng.integers(0, len(SMALL_PIX)))])
    return round(float(rng.uniform(0.5, 12.0)), 3)


def _scale_exp(rng, extreme=False):
    u = rng.random()
    if not extreme and u < 0.35:
        return 0.0
    if u < 0.7:
        pool = [e for e in SCALE_EXPS if abs(e) >= 5] if extreme else SCALE_EXPS
        return float(pool[int(rng.integers(0, len(pool)))])
    e = round(float(rng.uniform(-12, 12)), 2)
    if extreme and abs(e) < 5:
        e = float(np.copysign(5.0 + abs(e), e if e else -1.0))
    return e


def _sigma(rng, allow_zero=False):
    u = rng.random()
    if allow_zero and u < 0.3:
        return 0
    if u > 0.93:
        return RARE_SIGMAS[int(rng.integers(0, len(RARE_SIGMAS)))]
    if u < 0.75:
        s = SIGMAS[int(rng.integers(0, len(SIGMAS)))]
        return float(s) if rng.random() < 0.5 else s
    return round(float(rng.uniform(0.2, 4.0)), 2)


def _res_for(rng, n0, cut, pix):
    """a resolution with round(n0*pix/res) == cut: mostly well away from a rounding tie, 15% planted 5e-7 .. 1e-9 inside a tie
    (box*pix/res = cut +- (0.5 - eps): decidable independently of the evaluation order, float error is ~1e-15)"""
    d = float(rng.uniform(-0.42, 0.42))
    if rng.random() < 0.15:
        eps = NEAR_TIE_EPS[int(rng.integers(0, len(NEAR_TIE_EPS)))]
        d = (0.5 - eps) * (1 if rng.random() < 0.5 else -1)
    res = float(n0 * pix / (cut + d))
    if O.round_half_exact(n0, pix, res)[0] != cut:          # float rounding of res moved it over / too close to the tie: fall back
        res = float(n0 * pix / (cut + 0.3 * np.sign(d)))
    return res


def gen(ctx, i, cls):
    rng = ctx.rng(i)
    big = ctx.tier == "thorough"
    c = {"i": i, "cls": cls, "mode_lp": "pixels", "mode_hp": "pixels", "pix": None, "kind": "normal", "ks": None, "nontrivial": True,
         "defaults": False, "pix_with_pixels": False}
    s_lp = s_hp = 0
    shape = None
    if cls in ("cubic_even_hard", "cubic_odd_hard"):
        n = _size(rng, big, parity=0 if cls == "cubic_even_hard" else 1)
        shape = (n, n, n)
    elif cls == "noncubic_hard":
        shape = _noncubic(rng, big)
    elif cls == "cubic_soft_inside":
        s_lp = s_hp = [0.5, 1, 1.5, 2, 0.5, 1, 3, 4, round(float(rng.uniform(0.3, 2.5)), 2)][int(rng.integers(0, 9))]
        nmin = int(2 * (4 * s_lp + 2)) + 1
        while nmin / 2.0 <= 1 + 4 * s_lp + 1 + 1e-9:
            nmin += 1
        n = _size(rng, big, lo=max(8, nmin))
        shape = (n, n, n)
    elif cls == "cubic_soft_touching":
        n = _size(rng, big)
        shape = (n, n, n)
        s_lp, s_hp = _sigma(rng), _sigma(rng)
        if rng.random() < 0.5:
            s_hp = s_lp
    elif cls == "noncubic_soft":
        shape = _noncubic(rng, big)
        s_lp, s_hp = _sigma(rng), _sigma(rng, True)
        if rng.random() < 0.4:
            s_hp = s_lp
    elif cls == "cut_extremes":
        shape = _noncubic(rng, big) if rng.random() < 0.4 else (lambda n: (n, n, n))(_size(rng, big))
        s_lp, s_hp = _sigma(rng, True), _sigma(rng, True)
    elif cls == "resolution_cubic":
        n = _size(rng, big)
        if i % (3 * len(CLASSES)) < len(CLASSES):          # every third case of the class: a box that has exact odd-floor rounding ties
            pool = [m for m in range(8, 49) if O.odd_floor_ties(m)]
            n = int(pool[int(rng.integers(0, len(pool) if big else min(len(pool), 9)))])
        shape = (n, n, n)
        s_lp, s_hp = _sigma(rng, True), _sigma(rng, True)
        c["mode_lp"] = c["mode_hp"] = "resolution"
    elif cls == "resolution_noncubic":
        shape = _noncubic(rng, big)
        s_lp, s_hp = _sigma(rng, True), _sigma(rng, True)
        c["mode_lp"] = c["mode_hp"] = "resolution"
    elif cls == "plane_wave":
        shape = _noncubic(rng, False) if rng.random() < 0.5 else (lambda n: (n, n, n))(_size(rng, False))
        s_lp = s_hp = _sigma(rng, True) if rng.random() < 0.5 else 0
    elif cls == "bandpass_mixed_sigma":
        shape = _noncubic(rng, big) if rng.random() < 0.4 else (lambda n: (n, n, n))(_size(rng, big))
        if rng.random() < 0.35:
            c["defaults"] = True
            s_lp, s_hp = 3, 2
        else:
            s_lp = _sigma(rng, True)
            s_hp = _sigma(rng, True)
            while s_hp == s_lp:
                s_hp = _sigma(rng)
        c["mode_lp"] = ["pixels", "resolution"][int(rng.integers(0, 2))]
        c["mode_hp"] = ["pixels", "resolution"][int(rng.integers(0, 2))]
    elif cls == "box_extremes":
        pool = BOUNDARY_SIZES
        shape = tuple(int(pool[int(rng.integers(0, len(pool)))]) for _ in range(3))
        if rng.random() < 0.3:
            shape = (shape[0],) * 3
        if not big and shape[0] * shape[1] * shape[2] > 36000 and rng.random() < 0.6:
            shape = (shape[0], int(pool[int(rng.integers(0, 2))]), shape[2])
        s_lp, s_hp = _sigma(rng, True), _sigma(rng, True)
    elif cls == "pixels_plus_small_pixel_size":
        # cutoff in Fourier pixels AND a (small) pixel size: the pixel size only serves to report the resolution, the radius is the pixels
        n = int(rng.integers(30, 49)) if rng.random() < 0.8 else _size(rng, big)
        if rng.random() < (0.35 if big else 0.7):
            shape = (n, int(rng.integers(8, 15)), int(rng.integers(8, 15)))
        else:
            shape = (n, n, n) if rng.random() < 0.5 else (n, int(rng.integers(8, 49)), int(rng.integers(8, 49)))
        s_lp = s_hp = 0 if rng.random() < 0.7 else _sigma(rng)
    elif cls == "scale_extremes":
        shape = _noncubic(rng, big) if rng.random() < 0.5 else (lambda n: (n, n, n))(_size(rng, big))
        c["kind"] = ["unit_sum", "normal", "unit_sum", "float32", "positive_offset", "whitened"][int(rng.integers(0, 6))]
        s_lp, s_hp = _sigma(rng, True), _sigma(rng, True)
        m = int(rng.integers(0, 4))
        c["mode_lp"], c["mode_hp"] = ("pixels", "resolution")[m % 2], ("pixels", "resolution")[m // 2]
    elif cls == "history_inplace":
        shape = _noncubic(rng, False) if rng.random() < 0.5 else (lambda n: (n, n, n))(_size(rng, False))
        s_lp, s_hp = _sigma(rng, True), _sigma(rng, True)
    elif cls == "option_pairs":
        shape = (8, 8, 8)                                   # placeholder: the case consists of sub-configurations, see below
    elif cls == "dtype_smooth":
        shape = _noncubic(rng, big) if rng.random() < 0.5 else (lambda n: (n, n, n))(_size(rng, big))
        c["kind"] = ["float32", "int16", "positive_offset", "smooth", "whitened", "uint8", "int32", "int64", "int8", "delta", "binary01"][int(rng.integers(0, 11))]
        s_lp, s_hp = _sigma(rng, True), _sigma(rng, True)
    n0 = shape[0]
    half = n0 // 2
    # cutoffs
    lp_cut = int(rng.integers(1, half + 1))
    hp_cut = int(rng.integers(1, half + 1))
    if cls == "cubic_soft_inside":
        top = int(np.ceil(n0 / 2.0 - 4 * s_lp - 1)) - 1                   # cut + 4s + 1 < N/2
        while top + 4 * s_lp + 1 >= n0 / 2.0:
            top -= 1
        lp_cut = int(rng.integers(1, top + 1))
        hp_cut = int(rng.integers(1, lp_cut + 1))
    elif cls == "cubic_soft_touching":
        lo = max(1, int(np.floor(half - 4 * s_lp - 1)))
        lp_cut = int(rng.integers(lo, half + 1))
        hp_cut = int(rng.integers(1, lp_cut + 1))
    elif cls == "noncubic_soft":
        if rng.random() < 0.65:                            # cutoff ball inside the box on every axis: rays are judged
            lp_cut = int(rng.integers(1, min(shape) // 2 + 1))
            hp_cut = int(rng.integers(1, lp_cut + 1))
        elif lp_cut < hp_cut:
            lp_cut, hp_cut = hp_cut, lp_cut
    elif cls == "pixels_plus_small_pixel_size":
        lp_cut = max(1, half - int(rng.integers(0, 4))) if rng.random() < 0.85 else lp_cut
        hp_cut = max(1, half - int(rng.integers(0, 4))) if rng.random() < 0.5 else int(rng.integers(1, lp_cut + 1))
    elif cls == "cut_extremes":
        lp_cut, hp_cut = (half, 1) if rng.random() < 0.6 else (1, half) if rng.random() < 0.5 else (half, half)
    elif cls == "bandpass_mixed_sigma":
        if rng.random() < 0.75 and lp_cut < hp_cut:
            lp_cut, hp_cut = hp_cut, lp_cut
    elif cls not in ("plane_wave",) and rng.random() < 0.8 and lp_cut < hp_cut:
        lp_cut, hp_cut = hp_cut, lp_cut
    if cls == "resolution_noncubic":
        # the first-axis rule must be distinguishable from using another axis / the largest / the smallest one
        for attempt in range(60):
            if attempt:
                shape = _noncubic(rng, big)
                n0, half = shape[0], shape[0] // 2
                lp_cut = int(rng.integers(1, half + 1))
                hp_cut = int(rng.integers(1, lp_cut + 1))
            pix = _pixel_size(rng)
            res = _res_for(rng, n0, lp_cut, pix)
            others = {O.round_half_exact(m, pix, res)[0] for m in (shape[1], shape[2], max(shape), min(shape)) if m != n0}
            if lp_cut not in others and None not in others:
                break
        else:
            c["nontrivial"] = False
        c["pix"], c["lp_res"] = pix, res
        c["hp_res"] = _res_for(rng, n0, hp_cut, pix)
    elif "resolution" in (c["mode_lp"], c["mode_hp"]):
        ties = O.odd_floor_ties(n0) if (cls == "resolution_cubic" and i % (3 * len(CLASSES)) < len(CLASSES)) else []
        if ties:
            # exact rounding tie k + 1/2 with k odd: half-even and half-up agree on k + 1 (in domain); every third case of the class
            c["pix"], c["lp_res"], lp_cut = ties[int(rng.integers(0, len(ties)))]
            c["tie"] = True
            hp_cut = int(rng.integers(1, lp_cut + 1))
        else:
            c["pix"] = _pixel_size(rng)
            c["lp_res"] = _res_for(rng, n0, lp_cut, c["pix"])
        c["hp_res"] = _res_for(rng, n0, hp_cut, c["pix"])
    elif cls == "pixels_plus_small_pixel_size":
        c["pix_with_pixels"] = True
        c["pix"] = float([0.05, 0.06, 0.0834, 0.1, 0.05, 0.0834, 0.07, 0.125][int(rng.integers(0, 8))])
    elif rng.random() < 0.25:
        c["pix_with_pixels"] = True
        c["pix"] = _pixel_size(rng)
    for key, n0_, cut_ in (("lp_res", n0, lp_cut), ("hp_res", n0, hp_cut)):
        if c.get(key) is not None and O.round_half_exact(n0_, c["pix"], c[key])[0] != cut_:
            raise RuntimeError("generator: resolution does not map back to the intended cutoff")
    c.update(shape=tuple(int(v) for v in shape), lp_cut=lp_cut, hp_cut=hp_cut, s_lp=s_lp, s_hp=s_hp)
    c["pixtype"] = ["int", "int", "int", "np.int64", "float", "np.int32", "np.uint8", "np.float32", "np.float64", "0d", "0d_float"][int(rng.integers(0, 11))]
    c["scale_exp"] = _scale_exp(rng, extreme=(cls == "scale_extremes")) if c["kind"] not in ("int16", "uint8", "int32", "int64", "int8", "binary01") else 0.0
    c["hom"] = float(rng.choice([-1, 1]) * 10.0 ** float(rng.choice([-12, -8, -7, -5, -3, 3, 7, 11])))
    c["rel_filter"] = FILTERS[int(rng.integers(0, 3))]
    c["roll"] = [int(rng.integers(-60, 61)) if rng.random() < 0.8 else 0 for _ in range(3)]
    if not any(c["roll"]):
        c["roll"][int(rng.integers(0, 3))] = int(rng.integers(1, 8))
    c["coef"] = [round(float(rng.uniform(-3, 3)), 3), round(float(rng.uniform(-3, 3)), 3)]
    c["write"] = bool(rng.random() < 0.1)
    c.update(_shape_of_inputs(rng))
    if cls == "plane_wave":
        ks = []
        k2s = O.kindex(shape)[3]
        kx, ky, kz = O.kindex(shape)[:3]

        def pick(mask):
            idx = np.argwhere(mask)
            if len(idx):
                j = tuple(idx[int(rng.integers(0, len(idx)))])
                ks.append([int(kx[j]), int(ky[j]), int(kz[j])])
        cc = lp_cut * lp_cut
        pick(k2s == 0)
        pick(k2s == cc)                                    # on the cutoff sphere (axis or off-axis)
        pick((k2s == cc) & (kx != 0) & (ky != 0) | (k2s == cc) & (kz != 0) & (ky != 0))
        pick((k2s > cc) & (k2s <= cc + 2 * lp_cut + 1))    # first shell beyond
        pick((k2s < cc) & (k2s >= cc - 2 * lp_cut))        # last shell inside
        pick((np.abs(kx) == shape[0] // 2) | (np.abs(ky) == shape[1] // 2) | (np.abs(kz) == shape[2] // 2))   # a Nyquist / face bin
        pick(k2s > 0)
        pick(k2s > 0)
        c["ks"] = ks
        c["phases"] = [round(float(rng.uniform(-1.2, 1.2)), 3) for _ in ks]
        c["amp"] = [1e-7, 1e-12, 1e-9, 1e-5, 1e12, 1.0][int(rng.integers(0, 6))] if rng.random() < 0.5 else float("%.3e" % 10.0 ** rng.uniform(-12, 12))
        c["nontrivial"] = any(k[0] ** 2 + k[1] ** 2 + k[2] ** 2 > cc for k in ks) and any(0 < k[0] ** 2 + k[1] ** 2 + k[2] ** 2 <= cc for k in ks)
    c["summary"] = {k: c.get(k) for k in ("shape", "kind", "lp_cut", "hp_cut", "s_lp", "s_hp", "mode_lp", "mode_hp", "pix", "lp_res", "hp_res",
                                         "defaults", "pix_with_pixels", "pixtype", "tie", "rel_filter", "roll", "coef", "ks", "phases", "amp", "write",
                                         "scale_exp", "hom", "layout", "sigtype", "pix_kind", "check_defaults")}
    if cls == "option_pairs":
        c["subs"] = _option_pair_subs(rng, i, big)
        c["summary"] = {"subs": [sub["summary"] for sub in c["subs"]]}
    return c


def _shape_of_inputs(rng):
    """round-6 fields: map layout, scalar kinds of the width / pixel-size arguments, whether the documented defaults are exercised"""
    return {"layout": LAYOUTS[int(rng.integers(0, len(LAYOUTS)))], "sigtype": SIGTYPES[int(rng.integers(0, len(SIGTYPES)))],
            "pix_kind": ["float", "float", "np.float64", "0d"][int(rng.integers(0, 4))], "check_defaults": bool(rng.random() < 0.4)}


OPTION_AXES = {"mode_lp": ["pixels", "resolution", "pixels+pix"], "mode_hp": ["pixels", "resolution", "pixels+pix"],
               "sig_lp": ["hard", "soft"], "sig_hp": ["hard", "soft", "default"], "write": [False, True],
               "kind": ["normal", "float32", "int16", "unit_sum", "int32", "delta"], "box": ["cubic_even", "cubic_odd", "noncubic"],
               "pixtype": ["int", "np.int64", "float", "np.float32", "0d"], "equal_cuts": [False, False, True], "small_pix": [False, True]}


def _option_pair_subs(rng, i, big):
    """sub-configurations on small boxes (cheap) whose option values are drawn independently and uniformly per axis, so that every
    PAIR of in-quantifier options (cutoff form of either side x widths x defaults x file output x map dtype x box kind x argument
    type x equal cutoffs x small pixel size) occurs together dozens of times per quick run"""
    subs = []
    for j in range(10 if not big else 14):
        o = {k: v[int(rng.integers(0, len(v)))] for k, v in OPTION_AXES.items()}
        n = int(rng.integers(8, 15))
        if o["box"] == "cubic_even":
            n += n % 2
            shape = (n, n, n)
        elif o["box"] == "cubic_odd":
            n += 1 - n % 2
            shape = (n, n, n)
        else:
            shape = (n, int(rng.integers(8, 15)), int(rng.integers(8, 15)))
            if len(set(shape)) == 1:
                shape = (n, n, n + 1)
        n0, half = shape[0], shape[0] // 2
        lp_cut = int(rng.integers(1, half + 1))
        hp_cut = lp_cut if o["equal_cuts"] else int(rng.integers(1, lp_cut + 1))
        pix = float(SMALL_PIX[int(rng.integers(0, len(SMALL_PIX)))]) if o["small_pix"] else round(float(rng.uniform(0.5, 12.0)), 3)
        s_soft = _sigma(rng)
        sub = {"i": i, "sub": j, "cls": "option_pairs", "shape": shape, "kind": o["kind"], "ks": None, "nontrivial": True,
               "mode_lp": "resolution" if o["mode_lp"] == "resolution" else "pixels",
               "mode_hp": "resolution" if o["mode_hp"] == "resolution" else "pixels",
               "lp_cut": lp_cut, "hp_cut": hp_cut, "s_lp": 0 if o["sig_lp"] == "hard" else s_soft,
               "s_hp": 0 if o["sig_hp"] == "hard" else (s_soft if rng.random() < 0.5 else _sigma(rng)),
               "defaults": o["sig_hp"] == "default", "pixtype": o["pixtype"], "write": o["write"],
               "rel_filter": FILTERS[int(rng.integers(0, 3))], "roll": [int(rng.integers(-20, 21)) or 1 for _ in range(3)],
               "coef": [round(float(rng.uniform(-3, 3)), 3), round(float(rng.uniform(-3, 3)), 3)],
               "scale_exp": _scale_exp(rng) if o["kind"] not in ("int16", "int32") else 0.0,
               "hom": float(rng.choice([-1, 1]) * 10.0 ** float(rng.choice([-12, -8, -7, -5, -3, 3, 7, 11])))}
        sub.update(_shape_of_inputs(rng))
        sub["check_defaults"] = bool(sub["defaults"] or rng.random() < 0.3)
        if sub["defaults"]:
            sub["s_lp"], sub["s_hp"] = 3, 2
        needs_pix = "resolution" in (sub["mode_lp"], sub["mode_hp"]) or "pixels+pix" in (o["mode_lp"], o["mode_hp"])
        sub["pix"] = pix if needs_pix else None
        sub["pix_with_pixels"] = "pixels+pix" in (o["mode_lp"], o["mode_hp"])
        sub["lp_res"] = _res_for(rng, n0, lp_cut, pix) if sub["mode_lp"] == "resolution" else None
        sub["hp_res"] = _res_for(rng, n0, hp_cut, pix) if sub["mode_hp"] == "resolution" else None
        sub["summary"] = {k: sub[k] for k in ("shape", "kind", "lp_cut", "hp_cut", "s_lp", "s_hp", "mode_lp", "mode_hp", "pix", "lp_res", "hp_res",
                                              "defaults", "pix_with_pixels", "pixtype", "write", "scale_exp", "layout", "sigtype", "pix_kind", "check_defaults")}
        sub["summary"]["options"] = o
        subs.append(sub)
    return subs


def nontrivial(case):
    return bool(case["nontrivial"])


# ---- driver -------------------------------------------------------------------------------------
def make_field(case, rng, shape=None):
    """the case's map; float kinds are multiplied by the case's grey-value scale 10**scale_exp (1e-12 .. 1e12): the filters are
    linear, so every oracle judges relative to the map's own scale"""
    shape = shape or case["shape"]
    kind = case["kind"]
    sc = 10.0 ** float(case.get("scale_exp", 0.0))
    x = rng.normal(size=shape)
    if kind == "float32":
        return (x * float(rng.uniform(0.5, 20)) * sc).astype(np.float32)
    if kind == "int16":
        return rng.integers(-3000, 3000, size=shape).astype(np.int16)
    if kind == "uint8":
        return rng.integers(0, 256, size=shape).astype(np.uint8)
    if kind in ("int32", "int64"):
        return rng.integers(-10 ** 6, 10 ** 6, size=shape).astype(np.int32 if kind == "int32" else np.int64)
    if kind == "int8":
        return rng.integers(-128, 128, size=shape).astype(np.int8)
    if kind == "binary01":                                  # a mask-like map: a single distinct non-zero value
        return (rng.random(shape) < 0.3).astype(np.uint8) + (0 if rng.random() < 0.9 else 0)
    if kind == "delta":                                     # one non-zero voxel: every Fourier component has the same amplitude
        d = np.zeros(shape)
        d[tuple(int(rng.integers(0, n)) for n in shape)] = float(rng.uniform(0.5, 5.0)) * sc
        return d
    if kind == "positive_offset":
        return (rng.uniform(0, 1, size=shape) + float(rng.uniform(1, 50))) * sc
    if kind == "unit_sum":                                  # a density normalised to unit sum: values ~ 1/N^3 ~ 1e-3 .. 1e-5
        x = rng.random(shape)
        return x / x.sum() * (sc if abs(case.get("scale_exp", 0.0)) < 5 else 1.0)
    if kind == "smooth":
        k2 = O.kindex(shape)[3]
        return np.real(np.fft.ifftn(np.fft.fftn(x) * np.exp(-k2 / float(rng.uniform(6.0, 40.0))))) * 30.0 * sc
    if kind == "whitened":
        return O.whiten(x, rng) * sc
    return (x * float(rng.uniform(0.01, 100.0)) + (float(rng.normal()) if rng.random() < 0.5 else 0.0)) * sc


def _pix(case, v):
    return PIXTYPES[case["pixtype"]](v)


def relayout(x, layout):
    """the same map (np.array_equal with x) in another memory layout / byte order; "c" = a fresh C-contiguous native copy"""
    x = np.array(x, copy=True)
    if "big_endian" in layout and x.dtype.byteorder in "=<" and x.dtype.itemsize > 1 and sys.byteorder == "little":
        x = x.astype(x.dtype.newbyteorder(">"))
    if "fortran" in layout:
        x = np.asfortranarray(x)
    if layout == "swapaxes_view":
        x = np.swapaxes(np.ascontiguousarray(np.swapaxes(x, 1, 2)), 1, 2)
    elif layout == "negative_strides":
        x = np.ascontiguousarray(x[::-1, :, ::-1])[::-1, :, ::-1]
    elif layout == "strided_slice":
        b = np.zeros(x.shape[:2] + (2 * x.shape[2],), dtype=x.dtype)
        b[:, :, ::2] = x
        x = b[:, :, ::2]
    if "readonly" in layout:
        x.flags.writeable = False
    return x


def _sig(case, v):
    """the width in the scalar kind this case uses (same value)"""
    t = case.get("sigtype", "plain")
    if t == "np.float64":
        return np.float64(v)
    if t == "np.int64" and float(v) == int(v):
        return np.int64(int(v))
    if t == "0d":
        return np.array(v)
    if t == "np.float32" and float(np.float32(v)) == float(v):
        return np.float32(v)
    if t == "negzero" and v == 0:
        return -0.0
    return v


def _pixsz(case, v):
    if v is None:
        return None
    k = case.get("pix_kind", "float")
    return np.float64(v) if k == "np.float64" else np.array(v) if k == "0d" else v


def kwargs_for(case, which, pixels_only=False, widths="case"):
    """keyword arguments for one of the three real filters, as this case specifies its cutoffs;
    widths: "case" (as the case says), "omitted", "explicit_default" (the documented defaults passed explicitly)"""
    kw = _kwargs_for(case, which, pixels_only)
    if "pixel_size" in kw:
        kw["pixel_size"] = _pixsz(case, kw["pixel_size"])
    for g in ("gaussian", "lp_gaussian", "hp_gaussian"):
        if g in kw:
            kw[g] = _sig(case, kw[g])
    if widths != "case":
        for g in ("gaussian", "lp_gaussian", "hp_gaussian"):
            kw.pop(g, None)
        if widths == "explicit_default":
            if which == "bandpass":
                kw["lp_gaussian"], kw["hp_gaussian"] = DOC_DEFAULT["bandpass"]
            else:
                kw["gaussian"] = DOC_DEFAULT[which]
    return kw


def _kwargs_for(case, which, pixels_only=False):
    if which == "bandpass":
        kw = {}
        if case["mode_lp"] == "pixels" or pixels_only:
            kw["lp_fourier_pixels"] = _pix(case, case["lp_cut"])
        else:
            kw["lp_target_resolution"] = case["lp_res"]
        if case["mode_hp"] == "pixels" or pixels_only:
            kw["hp_fourier_pixels"] = _pix(case, case["hp_cut"])
        else:
            kw["hp_target_resolution"] = case["hp_res"]
        if case["pix"] is not None and not (pixels_only and not case["pix_with_pixels"]):
            kw["pixel_size"] = case["pix"]
        if not case["defaults"]:
            kw["lp_gaussian"], kw["hp_gaussian"] = case["s_lp"], case["s_hp"]
        return kw
    side = "lp" if which == "lowpass" else "hp"
    kw = {}
    if case["mode_" + side] == "pixels" or pixels_only:
        kw["fourier_pixels"] = _pix(case, case[side + "_cut"])
        if case["pix_with_pixels"]:
            kw["pixel_size"] = case["pix"]
    else:
        kw["target_resolution"] = case[side + "_res"]
        kw["pixel_size"] = case["pix"]
    if not case["defaults"]:
        kw["gaussian"] = case["s_" + side]
    return kw


def _close(ctx, name, got, want, scale, info, tol=1e-9):
    d = np.abs(np.asarray(got, dtype=np.float64) - want)
    ok = bool(d.max() <= tol * scale)
    ctx.check(name, ok, None if ok else dict(info, max_abs_dev=float(d.max()), scale=float(scale),
                                             at=[int(v) for v in np.unravel_index(int(d.argmax()), d.shape)]))
    return ok


def drive_cutoff_rule(ctx, case, aux_stream=2):
    """Direct driver calls of the two monitored public helpers, with this case's in-quantifier cutoff specifications.

    Why: the filter_radius / res2pix monitors must not depend on cryoCAT's internal call structure.  On the current tree they are
    reached mostly because lowpass/highpass/bandpass call get_filter_radius, which calls resolution2pixels; a behaviour-preserving
    refactoring (the filters using a private helper instead) would leave them blind and the run INCONCLUSIVE - a false alarm on
    correct code (tools/audit_call_structure.sh).  So every case also calls both functions itself, in the documented keyword
    forms: the cutoff as the case specifies it, as pixels, as pixels + pixel size, and as resolution + pixel size."""
    cm = ctx.cmap
    n0 = int(case["shape"][0])
    aux = ctx.rng(case["i"], aux_stream)
    pix = case["pix"] if case["pix"] is not None else _pixel_size(aux)
    for side in ("lp", "hp"):
        cut = int(case[side + "_cut"])
        res = case.get(side + "_res")
        if res is None or case["mode_" + side] == "pixels":
            res = _res_for(aux, n0, cut, pix)              # maps back to `cut`, away from a rounding tie
        ctx.call("get_filter_radius", cm.get_filter_radius, edge_size=n0, fourier_pixels=_pix(case, cut), target_resolution=None,
                 pixel_size=None)
        ctx.call("get_filter_radius", cm.get_filter_radius, edge_size=n0, fourier_pixels=_pix(case, cut), target_resolution=None,
                 pixel_size=_pixsz(case, pix))
        ctx.call("get_filter_radius", cm.get_filter_radius, edge_size=n0, fourier_pixels=None, target_resolution=res, pixel_size=pix)
        ok, got = ctx.call("resolution2pixels", cm.resolution2pixels, resolution=res, edge_size=n0, pixel_size=pix,
                           print_out=bool(case["i"] % 2))
        if ok:
            # the rule must land on the cutoff the generator aimed at (independent of the call monitor: plain integers)
            ctx.check("res2pix", _num(got) and got == cut, {"edge_size": n0, "pixel_size": pix, "resolution": res, "returned": repr(got),
                                                            "expected": cut, "via": "driver"})


def run_case(ctx, case):
    if case["cls"] == "option_pairs":
        for sub in case["subs"]:
            ctx.cur = dict(ctx.cur or {}, sub=sub["sub"], sub_options=sub["summary"]["options"])
            run_config(ctx, sub, ctx.rng(case["i"], 100 + sub["sub"]), aux_stream=200 + sub["sub"])
        return
    rng = ctx.rng(case["i"], 1)
    if case["cls"] == "plane_wave":
        drive_cutoff_rule(ctx, case)
        return run_plane_waves(ctx, case, case["shape"], case["ks"], case["phases"], case["amp"], with_bandpass=True)
    run_config(ctx, case, rng)
    if case["cls"] == "history_inplace":
        run_history(ctx, case, ctx.rng(case["i"], 3))


def run_config(ctx, case, rng, aux_stream=2):
    cm = ctx.cmap
    drive_cutoff_rule(ctx, case, aux_stream)
    x = make_field(case, rng)
    f64 = x.dtype == np.float64
    info = {"box": list(case["shape"]), "lp_cut": case["lp_cut"], "hp_cut": case["hp_cut"], "s_lp": case["s_lp"], "s_hp": case["s_hp"],
            "map_scale": float(np.abs(x).max())}
    fns = {"lowpass": cm.lowpass, "highpass": cm.highpass, "bandpass": cm.bandpass}
    out = {}
    lay = case.get("layout", "c")
    info["layout"] = lay
    for n_f, which in enumerate(FILTERS):
        kw = kwargs_for(case, which)
        path = None
        if case["write"]:
            # odd but legal output names (stems ending in the letters of the extension, spaces, [ ] * ?, non-ASCII, sub-directory,
            # relative to the scratch cwd): the returned array is what is judged
            name = ODD_NAMES[(case["i"] + case.get("sub", 0) + n_f) % len(ODD_NAMES)]
            path = name if name.startswith("./") else os.path.join(ctx.scratch, name)
            if os.path.dirname(path):
                os.makedirs(os.path.dirname(path), exist_ok=True)
            kw["output_name"] = path
        ok, y = ctx.call(which, fns[which], relayout(x, lay), **kw)
        if path is not None:
            if ok and not os.path.exists(path):
                ctx.check("completes:" + which, False, {"clause": "output_name given but no file written", "output_name": path})
            if os.path.exists(path):
                os.remove(path)
        if ok and isinstance(y, np.ndarray) and y.shape == x.shape:
            out[which] = y
    # edge widths OMITTED == the documented defaults passed explicitly (lowpass 3, highpass 2, bandpass 3 / 2); the explicit call is
    # judged against the oracle by the call monitors, so an omitted width that resolves to anything else is seen here
    if case.get("check_defaults"):
        scale0 = float(np.abs(x).max())
        tol0 = 1e-12 if f64 else 1e-6
        for which in ([case["rel_filter"], "bandpass"] if case["cls"] != "option_pairs" else FILTERS):
            oka, ya = ctx.call(which, fns[which], relayout(x, lay), **kwargs_for(case, which, widths="omitted"))
            okb, yb = ctx.call(which, fns[which], relayout(x, "c"), **kwargs_for(case, which, widths="explicit_default"))
            if oka and okb:
                _close(ctx, "default_widths", ya, np.asarray(yb, dtype=np.float64), scale0,
                       dict(info, filter=which, clause="widths omitted != documented defaults %r passed explicitly" % (DOC_DEFAULT[which],)), tol=tol0)
        # bandpass with only ONE width passed: the other one must be its documented default
        for given, other, d_other in (("lp_gaussian", "hp_gaussian", DOC_DEFAULT["bandpass"][1]), ("hp_gaussian", "lp_gaussian", DOC_DEFAULT["bandpass"][0])):
            kw0 = kwargs_for(case, "bandpass", widths="omitted")
            sv = case["s_lp"] if given == "lp_gaussian" else case["s_hp"]
            if case.get("sigtype") == "np.float32":
                # kept out until the lead rules: ONE width as np.float32 next to the other as a Python number makes skimage blur the two
                # spheres with kernels of different precision; with equal widths and cutoffs the (empty) band then has a gain of -2e-9
                continue
            oka, ya = ctx.call("bandpass", cm.bandpass, relayout(x, lay), **dict(kw0, **{given: _sig(case, sv)}))
            # (the passed width goes in the same scalar kind in both calls: a np.float32 width makes skimage build its kernel in single
            #  precision, a 1e-8 difference in the transition zone that the property does not speak about)
            okb, yb = ctx.call("bandpass", cm.bandpass, relayout(x, "c"), **dict(kw0, **{given: _sig(case, sv), other: d_other}))
            if oka and okb:
                _close(ctx, "default_widths", ya, np.asarray(yb, dtype=np.float64), scale0,
                       dict(info, filter="bandpass", clause="%s omitted != documented default %r" % (other, d_other), given={given: sv}), tol=tol0)
    # a map that is zero everywhere stays zero (linearity; the call monitors cannot read a gain off it)
    if case["i"] % 3 == 0:
        which0 = case["rel_filter"]
        okz, yz = ctx.call(which0, fns[which0], relayout(np.zeros(case["shape"], dtype=x.dtype), lay), **kwargs_for(case, which0))
        if okz:
            good = isinstance(yz, np.ndarray) and yz.shape == x.shape and bool(np.all(yz == 0))
            ctx.check("linearity", good, None if good else dict(info, filter=which0, clause="filter(0) != 0",
                                                              max_abs=float(np.abs(yz).max()) if isinstance(yz, np.ndarray) else None))
    # cutoffs given as resolution + pixel size are the same filters as round(N0*pix/res) Fourier pixels
    for which in FILTERS:
        if which in out and "resolution" in ([case["mode_lp"]] if which == "lowpass" else [case["mode_hp"]] if which == "highpass"
                                             else [case["mode_lp"], case["mode_hp"]]):
            ok, y2 = ctx.call(which + "(pixels)", fns[which], relayout(x, lay), **kwargs_for(case, which, pixels_only=True))
            if ok:
                _close(ctx, "resolution_equiv", out[which], y2, float(np.abs(x).max()), dict(info, filter=which, pix=case["pix"],
                       lp_res=case.get("lp_res"), hp_res=case.get("hp_res")), tol=1e-12 if f64 else 1e-6)
    # linearity (additivity, homogeneity over many orders of magnitude) and commutation with circular shifts, on one of the filters
    which = case["rel_filter"]
    if which not in out:
        return
    fn, kw = fns[which], kwargs_for(case, which)
    xs = np.asarray(x, dtype=np.float64)
    a, b = case["coef"]
    x2 = make_field(dict(case, kind="normal"), rng)
    ok2, y2 = ctx.call(which, fn, relayout(x2, lay), **kw)
    ok3, y3 = ctx.call(which, fn, relayout(a * xs + b * x2, lay), **kw)
    scale = abs(a) * float(np.abs(xs).max()) + abs(b) * float(np.abs(x2).max())
    tol = 1e-9 if f64 else 1e-5
    if ok2 and ok3:
        _close(ctx, "linearity", y3, a * out[which] + b * y2, scale, dict(info, filter=which, a=a, b=b), tol=tol)
    h = case["hom"]
    ok5, y5 = ctx.call(which, fn, h * xs, **kw)            # filter(h*x) == h*filter(x), h = +-1e-12 .. 1e11
    if ok5:
        _close(ctx, "linearity", y5, h * np.asarray(out[which], dtype=np.float64), abs(h) * float(np.abs(xs).max()),
               dict(info, filter=which, clause="homogeneity filter(h*x) == h*filter(x)", h=h), tol=tol)
    s = case["roll"]
    ok4, y4 = ctx.call(which, fn, relayout(np.roll(x, s, axis=(0, 1, 2)), lay), **kw)
    if ok4:
        _close(ctx, "shift_commute", y4, np.roll(out[which], s, axis=(0, 1, 2)), float(np.abs(xs).max()), dict(info, filter=which, roll=s), tol=tol)
    if case["cls"] == "pixels_plus_small_pixel_size":
        # the same first axis in a cheap box, the two cutoffs next to Nyquist x the smallest pixel sizes, hard edge: the call monitors
        # judge the gain against fourier_pixels (the pixel size must not move the cutoff)
        n0 = case["shape"][0]
        z = O.whiten(rng.normal(size=(n0, 8, 9)), rng)
        for cut in (n0 // 2, n0 // 2 - 1):
            for pix in (0.05, 0.0417, 0.06, 0.0834):
                f = (cm.lowpass, cm.highpass)[(cut + int(pix * 1e4)) % 2]
                ctx.call("lowpass" if f is cm.lowpass else "highpass", f, z.copy(), fourier_pixels=_pix(case, cut), pixel_size=pix, gaussian=0)


def run_history(ctx, case, rng):
    """Three-step history on ONE caller-owned array that is modified in place between the calls.  The array object itself is handed
    to cryoCAT (no copy); every call is judged by the call monitors against the values the array holds at that moment (they snapshot
    the argument when the call starts), and the driver relates the steps through linearity: step 2 sees h*A, step 3 sees h*A + B."""
    cm = ctx.cmap
    fns = {"lowpass": cm.lowpass, "highpass": cm.highpass, "bandpass": cm.bandpass}
    which = case["rel_filter"]
    fn, kw = fns[which], kwargs_for(case, which)
    A = np.asarray(make_field(dict(case, kind="normal"), rng), dtype=np.float64)
    B = np.asarray(make_field(dict(case, kind="normal"), rng), dtype=np.float64)
    info = {"box": list(case["shape"]), "filter": which, "history": "call(A); A *= h; call(A); A += B; call(A)"}
    a0 = A.copy()
    ok1, y1 = ctx.call(which, fn, A, **kw)
    if not ok1:
        return
    y1 = np.array(y1, dtype=np.float64, copy=True)
    h = float(case["hom"]) if abs(np.log10(abs(case["hom"]))) <= 8 else -2.5
    A *= h                                                  # in place: same object, new values
    ok2, y2 = ctx.call(which, fn, A, **kw)
    if ok2:
        y2 = np.array(y2, dtype=np.float64, copy=True)
        _close(ctx, "linearity", y2, h * y1, abs(h) * float(np.abs(a0).max()), dict(info, step=2, h=h))
    A += B
    np.negative(A[::2], out=A[::2])                         # and a non-uniform in-place edit
    a2 = A.copy()
    ok3, y3 = ctx.call(which, fn, A, **kw)
    if ok3:
        # y3 must be the filter of the CURRENT content a2 = S*(h*a0 + B), S = sign pattern: relate through a fresh call on a copy
        okc, yc = ctx.call(which, fn, a2.copy(), **kw)
        if okc:
            _close(ctx, "linearity", y3, np.asarray(yc, dtype=np.float64), float(np.abs(a2).max()), dict(info, step=3, clause="same content, same result"))
    # the very object one filter returned is fed to the next one, then modified in place and fed again (judged like fresh inputs)
    okl, yl = ctx.call("lowpass", cm.lowpass, a0.copy(), **kwargs_for(case, "lowpass"))
    if okl and isinstance(yl, np.ndarray) and in_domain_map(yl):
        okh, yh = ctx.call("highpass", cm.highpass, yl, **kwargs_for(case, "highpass"))
        yl *= -3.0
        okb, yb = ctx.call("bandpass", cm.bandpass, yl, **kwargs_for(case, "bandpass"))
        if okh and isinstance(yh, np.ndarray) and in_domain_map(yh):
            ctx.call("lowpass", cm.lowpass, yh.T.copy().T if yh.ndim == 3 else yh, **kwargs_for(case, "lowpass"))
    # another filter on the same (again modified) array
    A[...] = np.roll(A, case["roll"], axis=(0, 1, 2))
    other = FILTERS[(FILTERS.index(which) + 1) % 3]
    ok4, y4 = ctx.call(other, fns[other], A, **kwargs_for(case, other))
    ok5, y5 = ctx.call(other, fns[other], a2.copy(), **kwargs_for(case, other))
    if ok4 and ok5:
        _close(ctx, "shift_commute", y4, np.roll(np.asarray(y5, dtype=np.float64), case["roll"], axis=(0, 1, 2)), float(np.abs(a2).max()),
               dict(info, step=4, filter=other, roll=case["roll"]))


def run_plane_waves(ctx, case, shape, ks, phases, amp, with_bandpass):
    """pure plane waves: the output must be the same wave scaled by the prescribed gain at k"""
    cm = ctx.cmap
    lp_cut, hp_cut, s_lp, s_hp = case["lp_cut"], case["hp_cut"], case["s_lp"], case["s_hp"]
    kw_lp = kwargs_for(case, "lowpass")
    kw_hp = dict(kw_lp)                                    # the high-pass with the SAME parameters (complement)
    for k, ph in zip(ks, phases):
        x = O.plane_wave(shape, k, ph, amp)
        k2 = int(k[0]) ** 2 + int(k[1]) ** 2 + int(k[2]) ** 2
        r = float(np.sqrt(k2))
        nrm = float(np.sum(x * x))
        info = {"box": list(shape), "k": list(k), "k2": k2, "phase": ph, "amp": amp}
        res = {}
        for which, fn, kw in (("lowpass", cm.lowpass, kw_lp), ("highpass", cm.highpass, kw_hp)) + (
                (("bandpass", cm.bandpass, kwargs_for(case, "bandpass")),) if with_bandpass else ()):
            ok, y = ctx.call(which, fn, np.array(x, copy=True), **kw)
            if not (ok and isinstance(y, np.ndarray) and y.shape == x.shape):
                continue
            y = np.asarray(y, dtype=np.float64)
            gk = float(np.sum(y * x)) / nrm
            resid = float(np.abs(y - gk * x).max())
            inf = dict(info, filter=which, gain=gk, residual=resid)
            if resid > 1e-9 * amp or not np.isfinite(gk):
                ctx.check("plane_wave", False, dict(inf, clause="output is not the input wave times a real gain"))
                continue
            res[which] = gk
            if which == "bandpass":
                cl, sl, ch, sh = lp_cut, float(s_lp if not case["defaults"] else 3), hp_cut, float(s_hp if not case["defaults"] else 2)
                if sl == 0 and sh == 0:
                    want = float(k2 <= cl * cl) - float(k2 <= ch * ch)
                    ctx.check("plane_wave", abs(gk - want) <= 1e-9, dict(inf, clause="hard band-pass gain", expected=want, lp_cut=cl, hp_cut=ch))
                else:
                    okr = gk <= 1 + 1e-9 and (gk >= -1e-9 or not ((sl == sh and ch <= cl) or ch + O.SQRT3 * (4 * sh + 1) <= cl - O.SQRT3 * (4 * sl + 1)))
                    ctx.check("plane_wave", okr, dict(inf, clause="band-pass gain outside [0,1]", lp_cut=cl, hp_cut=ch, lp_sigma=sl, hp_sigma=sh))
                continue
            cut = lp_cut
            sg = float(kw.get("gaussian", 3 if which == "lowpass" else 2))
            gl = gk if which == "lowpass" else 1.0 - gk      # low-pass-like gain
            inf.update(cut=cut, sigma=sg)
            if sg == 0:
                want = 1.0 if k2 <= cut * cut else 0.0
                ctx.check("plane_wave", abs(gl - want) <= 1e-9, dict(inf, clause="hard edge gain at k", expected_lowpass_gain=want))
            else:
                m = 4 * sg + 1
                okp = -1e-9 <= gl <= 1 + 1e-9
                clause = "gain outside [0,1]"
                if okp and r <= cut - m:
                    okp, clause = abs(gl - 1) <= O.SOFT_TOL + 1e-9, "1 inside cutoff-4s-1"
                if okp and r >= cut + m:
                    okp, clause = abs(gl) <= O.SOFT_TOL + 1e-9, "0 outside cutoff+4s+1"
                if okp and r <= cut - O.SQRT3 * m:
                    okp, clause = abs(gl - 1) <= 1e-9, "exactly 1 inside cutoff-sqrt3(4s+1)"
                if okp and r >= cut + O.SQRT3 * m:
                    okp, clause = abs(gl) <= 1e-9, "exactly 0 outside cutoff+sqrt3(4s+1)"
                ctx.check("plane_wave", okp, dict(inf, clause=clause, lowpass_like_gain=gl))
        if "lowpass" in res and "highpass" in res and kw_lp.get("gaussian", None) is not None:
            s = res["lowpass"] + res["highpass"]
            ctx.check("plane_wave", abs(s - 1) <= 1e-9, dict(info, clause="lowpass gain + highpass gain != 1 (same parameters)",
                                                            lowpass=res["lowpass"], highpass=res["highpass"]))


# ---- exhaustive sub-spaces (shard 0) ------------------------------------------------------------
def _half_space(shape):
    """one representative of every +-k pair of DFT bins of the box (every integer frequency of the box)"""
    kx, ky, kz, _ = O.kindex(shape)
    seen, reps = set(), []
    for j in np.ndindex(*shape):
        k = (int(kx[j]), int(ky[j]), int(kz[j]))
        neg = tuple((-v) % n for v, n in zip(k, shape))
        pos = tuple(v % n for v, n in zip(k, shape))
        if neg in seen:
            continue
        seen.add(pos)
        reps.append(list(k))
    return reps


def extra(ctx):
    cm = ctx.cmap
    big = ctx.tier == "thorough"
    rng = ctx.rng(10 ** 6, 7)
    # (1) plane waves at EVERY integer frequency of a few boxes, every cutoff, hard edge (+ one soft width)
    boxes = [(8, 8, 8), (9, 8, 10)] + ([(12, 12, 12), (11, 16, 10), (15, 15, 15), (16, 9, 8)] if big else [])
    for shape in boxes:
        reps = _half_space(shape)
        n = 0
        for cut in range(1, shape[0] // 2 + 1):
            for sg in ([0, 1] if (big or cut == 2) else [0]):
                case = {"lp_cut": cut, "hp_cut": max(1, cut - 1), "s_lp": sg, "s_hp": sg, "mode_lp": "pixels", "mode_hp": "pixels",
                        "pixtype": "int", "pix_with_pixels": False, "pix": None, "defaults": False}
                ctx.cur = {"index": "extra", "cls": "every_frequency", "summary": {"box": list(shape), "cut": cut, "sigma": sg}}
                run_plane_waves(ctx, case, shape, reps, [0.3] * len(reps), 1.0, with_bandpass=(big and cut == 2))
                n += len(reps)
        ctx.extra["plane_waves_at_every_frequency_of_%dx%dx%d_times_cutoffs" % shape] = n
    # (2) every (N, cut) of cubic boxes with a hard edge, random well-conditioned field
    n = 0
    for N in range(8, (48 if big else 22) + 1):
        x = O.whiten(rng.normal(size=(N, N, N)), rng)
        for cut in range(1, N // 2 + 1):
            ctx.cur = {"index": "extra", "cls": "all_cubic_N_cut", "summary": {"box": N, "cut": cut}}
            ctx.call("lowpass", cm.lowpass, x.copy(), fourier_pixels=cut, gaussian=0)
            if cut % 3 == N % 3:
                ctx.call("highpass", cm.highpass, x.copy(), fourier_pixels=cut, gaussian=0)
            n += 1
    ctx.extra["all_cubic_boxes_8_to_%d_times_all_cutoffs_hard_edge" % (48 if big else 22)] = n
    # (3) the resolution rule on a grid of (edge, cutoff) with random pixel sizes
    n = 0
    for N in range(8, 49):
        for cut in range(1, N // 2 + 1):
            pix = round(float(rng.uniform(0.3, 15.0)), 4)
            res = _res_for(rng, N, cut, pix)
            ctx.cur = {"index": "extra", "cls": "resolution_grid", "summary": {"edge": N, "cut": cut, "pix": pix, "res": res}}
            ctx.call("resolution2pixels", cm.resolution2pixels, res, N, pix, print_out=False)
            ctx.call("get_filter_radius", cm.get_filter_radius, N, None, res, pix)
            n += 1
    ctx.extra["resolution_rule_all_edges_8_to_48_times_all_cutoffs"] = n
    # (3a) cutoff in Fourier pixels AND a pixel size (the documented form lowpass(map, fourier_pixels=39, pixel_size=7.89)): the radius is
    #      the pixels, whatever the pixel size - every (edge 8..48, cutoff 1..N/2) x small and ordinary pixel sizes
    n = 0
    pix_list = SMALL_PIX + [0.07, 0.834, 1.0, 1.5, 7.89, 0.0417]
    for N in range(8, 49):
        for cut in range(1, N // 2 + 1):
            ctx.cur = {"index": "extra", "cls": "pixels_and_pixel_size_sweep", "summary": {"edge": N, "cut": cut}}
            for pix in pix_list:
                ctx.call("get_filter_radius", cm.get_filter_radius, edge_size=N, fourier_pixels=cut, target_resolution=None, pixel_size=pix)
                n += 1
    ctx.extra["get_filter_radius_pixels_plus_pixel_size_all_edges_all_cutoffs_x_%d_pixel_sizes" % len(pix_list)] = n
    #      ... and the rule 5e-7 .. 1e-9 on either side of a rounding tie (box*pix/res = cut -+ (0.5 - eps))
    n = 0
    for N in range(8, 49):
        for cut in range(1, N // 2 + 1):
            pix = float(SMALL_PIX[(N + cut) % len(SMALL_PIX)]) if (N + cut) % 2 else round(float(rng.uniform(0.3, 15.0)), 4)
            for eps in NEAR_TIE_EPS:
                for sgn in (1, -1):
                    res = float(N * pix / (cut + sgn * (0.5 - eps)))
                    if O.round_half_exact(N, pix, res)[0] != cut:
                        continue
                    ctx.cur = {"index": "extra", "cls": "near_ties", "summary": {"edge": N, "cut": cut, "pix": pix, "res": res, "eps": eps}}
                    ctx.call("resolution2pixels", cm.resolution2pixels, res, N, pix, print_out=False)
                    ctx.call("get_filter_radius", cm.get_filter_radius, N, None, res, pix)
                    n += 1
    ctx.extra["resolution_rule_1e-9_to_5e-7_from_a_rounding_tie"] = n
    # (3b) exact rounding ties k + 1/2 with k odd (half-even and half-up agree on k + 1): the rule itself on every such tie of every
    #      edge 8..48, and the three filters + the plane wave at frequency k + 1 (must pass the low-pass) on a subset
    n = nf = 0
    for N in range(8, 49):
        ties = O.odd_floor_ties(N)
        for t, (pix, res, cut) in enumerate(ties):
            ctx.cur = {"index": "extra", "cls": "odd_floor_ties", "summary": {"edge": N, "pix": pix, "res": res, "cut": cut}}
            ctx.call("resolution2pixels", cm.resolution2pixels, res, N, pix, print_out=False)
            ctx.call("get_filter_radius", cm.get_filter_radius, N, None, res, pix)
            n += 1
            if t == N % max(1, len(ties)) and (big or N <= 30):
                shape = (N, 8 + (N * 7) % 11, 8 + (N * 5) % 13) if N % 2 else (N, N, N)
                x = O.whiten(rng.normal(size=shape), rng)
                sg = [0, 0, 1, 2][N % 4]
                ok1, y1 = ctx.call("lowpass", cm.lowpass, x.copy(), target_resolution=res, pixel_size=pix, gaussian=sg)
                ok2, y2 = ctx.call("lowpass(pixels)", cm.lowpass, x.copy(), fourier_pixels=cut, gaussian=sg)
                if ok1 and ok2:
                    _close(ctx, "resolution_equiv", y1, y2, float(np.abs(x).max()), {"box": list(shape), "pix": pix, "res": res, "cut": cut,
                                                                                     "filter": "lowpass", "tie": True}, tol=1e-12)
                ctx.call("highpass", cm.highpass, x.copy(), target_resolution=res, pixel_size=pix, gaussian=sg)
                ctx.call("bandpass", cm.bandpass, x.copy(), lp_target_resolution=res, hp_fourier_pixels=max(1, cut - 1), pixel_size=pix,
                         lp_gaussian=sg, hp_gaussian=sg)
                case = {"lp_cut": cut, "hp_cut": 1, "s_lp": 0, "s_hp": 0, "mode_lp": "resolution", "mode_hp": "resolution", "pixtype": "int",
                        "pix_with_pixels": False, "pix": pix, "lp_res": res, "hp_res": res, "defaults": False}
                run_plane_waves(ctx, case, shape, [[cut, 0, 0], [cut + 1 if cut + 1 <= N // 2 else cut - 1, 0, 0]], [0.3, 0.3], 1.0, with_bandpass=False)
                nf += 1
    ctx.extra["exact_odd_floor_rounding_ties_all_edges_8_to_48"] = n
    ctx.extra["filters_and_plane_waves_driven_at_an_exact_rounding_tie"] = nf
    # (4) the documented refusal (no cutoff given) - outside the quantifier, reached for the anchor counters only
    try:
        cm.get_filter_radius(16, None, None, None)
        ctx.notes.append("get_filter_radius without any cutoff did not raise")
    except ValueError:
        ctx.extra["documented_refusals_seen"] = 1
