"""C16 - Dose filtering applies the Grant-Grigorieff exposure attenuation.

Call monitors (attached in place, so the calls dose_filter makes itself are judged too):
  gain_stack    post(tiltstack.dose_filter): for every image i and every DFT bin, DFT2(out_i) = DFT2(in_i) * g(f, dose_i) with
                g = exp(-dose / (2 (0.245 f^-1.665 + 2.81))), f = sqrt((kx/(W p))^2 + (ky/(H p))^2) from signed integer bin
                indices, g = 1 at the zero-frequency bin.  The input stack (array in its declared order, or MRC bytes), the
                doses (array, list, one-value-per-line text, csv, xml, mdoc) and the output order are read independently.
  gain_file     post(tiltstack.dose_filter) with output_file: the written MRC file, parsed from bytes, obeys the same equation.
  gain_single   post(tiltstack.dose_filter_single_image): DFT2(result) = DFT2(image) * g(freq_array re-indexed to DFT layout, dose).
  gain_int_stack   post(tiltstack.dose_filter) on an integer-typed stack (int8..int64, uint8/16 arrays; MRC modes 0/1/6): every
                pixel of the result equals the formula applied to the integer values within one count (the result is stored
                back as integers); images whose filtered values leave the type's range are not judged.
                dose_filter_single_image called directly on integer images returns the real-valued image: gain_single, 1e-10.
  gain_small_dose  the same equation for float64 calls with dose <= 1, judged on the CHANGE: DFT2(out) - DFT2(in) against
                (g - 1) * DFT2(in), tolerance 1e-6 of the largest predicted change plus the FFT round-trip floor - so that a
                1e-4-relative (or 1e-10-relative) effect of a tiny dose is not hidden behind the image's own amplitude.
Driver-side relational monitors (results of real calls only; no DFT except in `power` and `monotone`):
  dc_mean       the mean of every image is unchanged
  plane_wave    a pure plane wave (plus constant) comes back as constant + g(k) * wave, compared pixel by pixel
  zero_dose     zero dose returns the input
  linearity     filter(a X + b X') = a filter(X) + b filter(X')
  power         |DFT2(out)| <= |DFT2(in)| at every bin
  monotone      larger dose for an image => no bin grows, and every excited non-DC bin shrinks
  composition   filter(filter(X, d1), d2) = filter(X, d1 + d2)
  order_equiv   the same stack handed over in the other axis order / as file gives the same images
  history_fresh three/four-step histories on caller-owned arrays mutated in place between calls (stack, doses, then pixel
                size): every call equals a fresh call on copies of the current values (and is judged by gain_stack)
Shapes and flow (every run): Fortran-ordered / negative-stride / sliced / read-only / swapped-axes stacks and dose vectors, pixel
size and single-image dose as np.float64 / 0-d array / np.float32 / int, csv dose tables whose first column is permuted, gapped,
reversed, duplicated, textual or negative, unusual relative file names (spaces, [ ] * ?, non-ASCII, sub-directory, stem ending
in the extension's letters), the object dose_filter returned fed straight into the second pass, the array total_dose_load
returned handed on as the dose argument.
Planted values (every run): consecutive near-equal doses (relative gaps 1e-9..1e-5, both orders, exact repeats, identical
images), tiny positive doses 5e-324..1e-2 around 1e-3, sizes 2^k-1/2^k/2^k+1, unusual text forms of doses, and in `extra`
the full grid dose source x input order x output order x stack source x output file (three content variants).
"""
import os

import numpy as np

from vmon import monitors
from vmon.oracles import c16_oracle as orc
from vmon.oracles import files

PROP = "C16"
RULE = ("cases = generated tilt stacks (1..10 images, independent H, W in 4..64 of either parity, float64/float32, pixel size "
        "0.5..10 A, per-image doses 0..300 in any order, handed over as array/list/text/csv/xml/mdoc; random images, pure plane "
        "waves, impulses, constants; both axis orders, array and MRC-file stacks); non-trivial = at least one image with "
        "dose > 0 that is not constant (so the filter has to change it); distinct by digest of (n, H, W, dtype, pixel, doses, "
        "orders, content kinds, dose source, stack source, first pixels); planted in every run: consecutive near-equal doses, "
        "doses in (0, 1e-2], 2^k+-1 sizes, in-place mutation histories")
ASSUMPTIONS = [
    "x is the axis of length W (first axis of an 'xyz' array, last axis of a 'zyx' array / MRC section), y the axis of length H",
    "frequency of DFT bin k on an axis of n samples is k/(n*pixel) with k the signed index (0..ceil(n/2)-1, then negative); "
    "for even n the Nyquist bin has |k| = n/2",
    "tolerance: 1e-10 (float64 stacks) / 1e-4 (float32 stacks) times the largest |DFT bin| (spectral clauses) or largest "
    "|pixel| (spatial clauses) of the image concerned",
    "integer-typed stacks: dose_filter stores the filtered values back into the integer stack, so they are judged within one count "
    "(+1e-9 of the largest |pixel|) of the formula applied to the integer values; mean preservation and the relational clauses are "
    "not judged on integer stacks (truncation is neither linear nor mean-preserving); an image whose filtered values would leave "
    "the integer type's range is not judged",
    "csv dose tables: the rows are in stack order; the first column is a row label and carries no order",
    "gain_small_dose: tolerance 1e-6 * max|(g-1) DFT2(in)| + 2e-13 * max|DFT2(in)| (measured round-trip noise of the real code "
    "plus the oracle's matrix DFT: 2.2e-15), float64 calls with dose <= 1 only",
    "strict 'more dose attenuates more' for dose steps below 1 is judged on the summed non-DC power of white-spectrum images "
    "(noise/impulse/counts), float64, steps >= 1e-8 absolute (identical images inside one stack: relative gap >= 1e-9 of a dose >= 5), "
    "and only where the predicted reduction (power * step / largest critical exposure of the quantifier) exceeds 10x a generous "
    "rounding-noise bound - an output attenuated down to rounding noise cannot show it",
    "dose files hold values that are exact in float32 (multiples of 1/64), so the loader's float32 parsing is not judged here",
    "mdoc doses: PriorRecordDose + ExposureDose per section, paired with images in ascending tilt-angle order (tilt angles "
    "without ties); the DateTime-ranked fallback of total_dose_load (no PriorRecordDose) is not exercised",
    "a call is judged only inside the quantifier: float32/float64 stack (3-D, or one 2-D image = one-image stack), 1..10 images, 4 <= H, W <= 64, 0.5 <= pixel <= 10, "
    "0 <= dose <= 300, one dose per image, orders 'xyz'/'zyx'",
]

CLASSES = ["random_f64", "random_f32", "plane_wave_f64", "plane_wave_f32", "plane_axis_nyquist", "parity_nonsquare",
           "extreme_aspect", "min_size", "max_size", "n1", "n10", "dose_unsorted", "dose_zero_mix", "dose_textfile",
           "dose_mdoc", "dose_csv", "dose_xml", "dose_list_int", "stack_file", "pixel_extreme", "impulse_const",
           "mixed_content", "dose_near_equal", "dose_tiny", "pow2_sizes", "history_inplace", "int_stack"]
INT_TYPES = ["int16", "uint8", "uint16", "int32", "int64", "int8"]
LAYOUTS = ["c", "fortran", "negstride", "slice", "readonly", "swapaxes"]
PATH_STYLES = ["plain", "spaces", "brackets", "glob_chars", "non_ascii", "subdir", "ext_letters"]
WHITE = ("normal", "impulse", "counts")
FLOOR = 2e-13
TINY_POOL = [1e-9, 5e-9, 1e-8, 1e-7, 1e-6, 3e-6, 1e-5, 1e-4, 6e-4, 9e-4, 9.99e-4, float(np.nextafter(1e-3, 0)), 1e-3,
             float(np.nextafter(1e-3, 1)), 1.2e-3, 5e-3, 1e-2, 5e-324, 1e-45, 1e-300, 1e-12, 6e-4, 9e-4, 1e-6]
REL = {"float64": 1e-10, "float32": 1e-4}
ORDERS = ("xyz", "zyx")
# the oracle's DFT is a 64x64 complex matrix product: BLAS worker threads only cost time on a shared machine
ENV = {"OPENBLAS_NUM_THREADS": "1", "OMP_NUM_THREADS": "1", "MKL_NUM_THREADS": "1"}


def plan(tier):
    k = len(CLASSES)
    if tier == "quick":
        return dict(n_cases=11 * k, shards=2, classes=CLASSES, timeout_s=600, env=ENV,
                    min_evals={"gain_stack": 8000, "gain_single": 2000, "gain_small_dose": 1500, "gain_file": 100, "dc_mean": 1400,
                               "plane_wave": 150, "zero_dose": 240, "linearity": 240, "power": 1000, "monotone": 1000,
                               "composition": 240, "order_equiv": 240, "history_fresh": 30, "gain_int_stack": 300})
    return dict(n_cases=260 * k, shards=12, classes=CLASSES, timeout_s=3000, env=ENV,
                min_evals={"gain_stack": 180000, "gain_single": 45000, "gain_small_dose": 35000, "gain_file": 1000, "dc_mean": 30000,
                           "plane_wave": 2500, "zero_dose": 6000, "linearity": 6000, "power": 28000, "monotone": 28000,
                           "composition": 6000, "order_equiv": 6000, "history_fresh": 700, "gain_int_stack": 2500})


# ---- quantifier ---------------------------------------------------------------------------------
def in_quantifier(n, H, W, p, d):
    return bool(1 <= n <= 10 and 4 <= H <= 64 and 4 <= W <= 64 and np.isfinite(p) and 0.5 <= p <= 10.0
                and d.shape == (n,) and np.all(np.isfinite(d)) and np.all(d >= 0) and np.all(d <= 300.0))


def _spectral_check(FX, FY, G, rel):
    """-> (ok, witness) for one image: FY == FX * G within rel * max|FX|"""
    if not np.all(np.isfinite(FY)):
        return False, {"what": "non-finite values in the filtered image"}
    scale = float(np.abs(FX).max())
    tol = rel * scale
    diff = np.abs(FY - FX * G)
    worst = float(diff.max())
    if worst <= tol:
        return True, None
    ky, kx = np.unravel_index(int(np.argmax(diff)), diff.shape)
    H, W = diff.shape
    obs = FY[ky, kx] / FX[ky, kx] if abs(FX[ky, kx]) > 0 else None
    return False, {"bin_ky_kx": [int(orc.dft_index(H)[ky]), int(orc.dft_index(W)[kx])],
                   "observed_ratio": [float(np.real(obs)), float(np.imag(obs))] if obs is not None else None,
                   "expected_gain": float(G[ky, kx]), "abs_error": worst, "tolerance": tol,
                   "n_bins_wrong": int((diff > tol).sum()), "n_bins": int(diff.size),
                   "dc_ratio": (float(np.real(FY[0, 0] / FX[0, 0])) if abs(FX[0, 0]) > 0 else None)}


def _small_dose_check(ctx, FX, FY, G, dose, base):
    """float64, dose <= 1: judge the change DFT2(out) - DFT2(in) against (g - 1) DFT2(in)."""
    if not np.all(np.isfinite(FY)):
        ctx.check("gain_small_dose", False, dict(base, what="non-finite values in the filtered image"))
        return
    pred = (G - 1.0) * FX
    scale = float(np.abs(FX).max())
    tol = 1e-6 * float(np.abs(pred).max()) + FLOOR * scale
    diff = np.abs((FY - FX) - pred)
    worst = float(diff.max())
    if worst <= tol:
        ctx.check("gain_small_dose", True)
        return
    ky, kx = np.unravel_index(int(np.argmax(diff)), diff.shape)
    H, W = diff.shape
    ctx.check("gain_small_dose", False, dict(base, dose=float(dose), bin_ky_kx=[int(orc.dft_index(H)[ky]), int(orc.dft_index(W)[kx])],
                                             predicted_relative_change=float(G[ky, kx] - 1.0),
                                             observed_relative_change=(float(np.real((FY[ky, kx] - FX[ky, kx]) / FX[ky, kx])) if abs(FX[ky, kx]) > 0 else None),
                                             abs_error=worst, tolerance=tol, largest_input_bin=scale, n_bins_wrong=int((diff > tol).sum())))


# ---- call monitor: dose_filter --------------------------------------------------------------------
def _df_resolve(A):
    """Independent reading of the arguments of a dose_filter call -> dict or None (outside the quantifier)."""
    if A.get("input_order") not in ORDERS or A.get("output_order") not in ORDERS:
        return None
    t = A["tilt_stack"]
    if isinstance(t, np.ndarray):
        if t.ndim not in (2, 3) or not (t.dtype in (np.float32, np.float64) or (t.dtype.kind in "iu" and t.dtype.itemsize <= 8)):
            return None
        X = orc.to_nyx(t, A["input_order"])
        dt = str(t.dtype)
    elif isinstance(t, str) and t.endswith(".mrc") and os.path.isfile(t):
        pm = files.parse_mrc(t)
        if "error" in pm or pm["mode"] not in (0, 1, 2, 6):
            return None
        X = pm["data"].transpose(2, 1, 0)
        dt = str(np.dtype(pm["dtype"]).newbyteorder("=")) if pm["mode"] != 2 else "float32"
    else:
        return None
    try:
        p = float(A["pixel_size"])
    except Exception:
        return None
    if isinstance(A["pixel_size"], (str, bytes, bool)):
        return None
    d = orc.resolve_doses(A["total_dose"])
    if d is None:
        return None
    n, H, W = X.shape
    if not in_quantifier(n, H, W, p, d) or not np.all(np.isfinite(X)):
        return None
    of = A.get("output_file")
    if of is not None and not (isinstance(of, str) and of.endswith(".mrc")):
        return None
    return {"X": np.array(X, dtype=np.float64), "dtype": dt, "p": p, "d": d, "out_order": A["output_order"],
            "in_order": A["input_order"], "out_file": of, "src": "array" if isinstance(t, np.ndarray) else "file",
            "dose_src": type(A["total_dose"]).__name__ if not isinstance(A["total_dose"], str) else os.path.splitext(A["total_dose"])[1]}


def _df_applicable(A):
    A["__c16"] = _df_resolve(A)
    return A["__c16"] is not None


def _df_snapshot(A):
    return A["__c16"]


def _int_post(ctx, old, result, base):
    """integer-typed stack: the filtered values are stored back as integers, so each pixel is judged against the formula
    applied to the integer values within one count; an image whose filtered values leave the integer type's range is not judged."""
    X, p, d = old["X"], old["p"], old["d"]
    n, H, W = X.shape
    info = np.iinfo(np.dtype(old["dtype"]))
    Y = np.asarray(orc.to_nyx(result, old["out_order"]), dtype=np.float64)
    FX = orc.dft2(X)
    refs = []
    for z in range(n):
        ref = np.real(orc.idft2(FX[z] * orc.gain(H, W, p, d[z])))
        refs.append(ref)
        if ref.min() < info.min + 1 or ref.max() > info.max - 1:
            ctx.ood("gain_int_stack")
            continue
        tol = 1.0 + 1e-9 * float(np.abs(X[z]).max())
        diff = np.abs(Y[z] - ref)
        ok = bool(np.all(diff <= tol))
        w = None
        if not ok:
            y, x = np.unravel_index(int(np.nanargmax(diff)), diff.shape)
            w = dict(base, image=z, dose=float(d[z]), pixel_y_x=[int(y), int(x)], got=float(Y[z, y, x]), formula=float(ref[y, x]), input=float(X[z, y, x]),
                     n_pixels_off=int((diff > tol).sum()), unchanged=bool(np.array_equal(Y[z], X[z])))
        ctx.check("gain_int_stack", ok, w)
    if old["out_file"] is not None:
        pm = files.parse_mrc(old["out_file"]) if os.path.isfile(old["out_file"]) else {"error": "file not written"}
        if "error" in pm or tuple(pm["dims"]) != (W, H, n):
            ctx.check("gain_file", False, dict(base, what="output file unreadable or wrong dims", parse=pm.get("error"), dims=pm.get("dims")))
            return
        Z = np.asarray(pm["data"].transpose(2, 1, 0), dtype=np.float64)
        good = all(bool(np.all(np.abs(Z[z] - refs[z]) <= 1.0 + 1e-9 * float(np.abs(X[z]).max()))) or refs[z].min() < info.min + 1 or refs[z].max() > info.max - 1
                   for z in range(n))
        ctx.check("gain_file", good, None if good else dict(base, where="output file of an integer stack", mode=pm["mode"]))


def _df_post(ctx, A, old, result):
    if old["dtype"] not in REL:
        base = {"H": old["X"].shape[1], "W": old["X"].shape[2], "n": old["X"].shape[0], "pixel": old["p"], "dtype": old["dtype"],
                "orders": [old["in_order"], old["out_order"]], "stack": old["src"], "dose_source": old["dose_src"]}
        if not isinstance(result, np.ndarray) or result.ndim not in (2, 3) or orc.to_nyx(result, old["out_order"]).shape != old["X"].shape:
            ctx.check("gain_int_stack", False, dict(base, what="returned stack has the wrong shape", got=list(getattr(result, "shape", []))))
            return
        _int_post(ctx, old, result, base)
        return
    X, p, d, rel = old["X"], old["p"], old["d"], REL[old["dtype"]]
    n, H, W = X.shape
    base = {"H": H, "W": W, "n": n, "pixel": p, "dtype": old["dtype"], "orders": [old["in_order"], old["out_order"]],
            "stack": old["src"], "dose_source": old["dose_src"]}
    if not isinstance(result, np.ndarray) or result.ndim not in (2, 3) or orc.to_nyx(result, old["out_order"]).shape != X.shape:
        ctx.check("gain_stack", False, dict(base, what="returned stack has the wrong shape",
                                            got=list(getattr(result, "shape", [])), expected_n_y_x=[n, H, W]))
        return
    Y = np.asarray(orc.to_nyx(result, old["out_order"]), dtype=np.float64)
    FX = orc.dft2(X)
    FY = orc.dft2(Y)
    G = [orc.gain(H, W, p, d[z]) for z in range(n)]
    for z in range(n):
        ok, w = _spectral_check(FX[z], FY[z], G[z], rel)
        ctx.check("gain_stack", ok, None if ok else dict(base, image=z, dose=float(d[z]), doses=d, **w))
        if old["dtype"] == "float64" and d[z] <= 1.0:
            _small_dose_check(ctx, FX[z], FY[z], G[z], d[z], dict(base, image=z, doses=d))
    if old["out_file"] is not None:
        pm = files.parse_mrc(old["out_file"]) if os.path.isfile(old["out_file"]) else {"error": "file not written"}
        if "error" in pm or tuple(pm["dims"]) != (W, H, n):
            ctx.check("gain_file", False, dict(base, what="output file unreadable or wrong dims", parse=pm.get("error"),
                                               dims=pm.get("dims"), expected_dims=[W, H, n]))
            return
        FZ = orc.dft2(np.asarray(pm["data"].transpose(2, 1, 0), dtype=np.float64))
        good, wit = True, None
        for z in range(n):
            ok, w = _spectral_check(FX[z], FZ[z], G[z], REL["float32"])
            if not ok and good:
                good, wit = False, dict(base, image=z, dose=float(d[z]), where="output file", mode=pm["mode"], **w)
        ctx.check("gain_file", good, wit)


# ---- call monitor: dose_filter_single_image -----------------------------------------------------------
def _si_applicable(A):
    im, fa, dose = A["image"], A["freq_array"], A["dose"]
    if not (isinstance(im, np.ndarray) and isinstance(fa, np.ndarray) and im.ndim == 2 and fa.shape == im.shape):
        return False
    if not (im.dtype in (np.float32, np.float64) or (im.dtype.kind in "iu" and im.dtype.itemsize <= 8)) or fa.dtype.kind != "f":
        return False
    try:
        dv = float(dose)
    except Exception:
        return False
    H, W = im.shape
    return bool(4 <= H <= 64 and 4 <= W <= 64 and np.isfinite(dv) and 0 <= dv <= 300 and np.all(np.isfinite(im))
                and np.all(np.isfinite(fa)) and np.all(fa >= 0))


def _si_snapshot(A):
    return {"X": np.array(A["image"], dtype=np.float64), "f": orc.uncentre(A["freq_array"]), "dose": float(A["dose"]),
            "dtype": str(A["image"].dtype) if A["image"].dtype.kind == "f" else "float64", "image_dtype": str(A["image"].dtype)}


def _si_post(ctx, A, old, result):
    X = old["X"]
    H, W = X.shape
    base = {"H": H, "W": W, "dose": old["dose"], "dtype": old["image_dtype"]}
    if not isinstance(result, np.ndarray) or result.shape != X.shape or np.iscomplexobj(result):
        ctx.check("gain_single", False, dict(base, what="result is not a real image of the input's shape",
                                             got=str(getattr(result, "shape", None)), got_dtype=str(getattr(result, "dtype", None))))
        return
    G = orc.gain_of_f(old["f"], old["dose"])
    FX, FY = orc.dft2(X), orc.dft2(np.asarray(result, dtype=np.float64))
    ok, w = _spectral_check(FX, FY, G, REL[old["dtype"]])
    ctx.check("gain_single", ok, None if ok else dict(base, **w))
    if old["dtype"] == "float64" and old["dose"] <= 1.0:
        _small_dose_check(ctx, FX, FY, G, old["dose"], dict(base, function="dose_filter_single_image"))


def setup(ctx):
    from cryocat import ioutils, tiltstack
    ctx.ts = tiltstack
    ctx.io = ioutils
    f_single = monitors.wrap(ctx, tiltstack, "dose_filter_single_image", "gain_single", _si_post, _si_applicable, _si_snapshot)
    f_stack = monitors.wrap(ctx, tiltstack, "dose_filter", "gain_stack", _df_post, _df_applicable, _df_snapshot)
    ctx.declare("gain_int_stack", "gain_small_dose", "history_fresh", "gain_file", "dc_mean", "plane_wave", "zero_dose", "linearity", "power", "monotone", "composition", "order_equiv")
    monitors.trace(ctx, [
        ("tiltstack.dose_filter", f_stack, {"per_tilt": "dose_filter_single_image(image",
                                            "write_out": "ts.write_out(output_file)"}),
        ("tiltstack.dose_filter_single_image", f_single, {"attenuator": "q = np.exp("}),
        ("ioutils.total_dose_load", ioutils.total_dose_load,
         {"ndarray": "return input_dose", "list": "return np.asarray(input_dose)", "csv": "df = pd.read_csv(input_dose, index_col=0)",
          "csv_removed": "df.loc[df[\"Removed\"] == False", "csv_plain": "return df[\"CorrectedDose\"]",
          "mdoc": "mdoc_file = mdoc.Mdoc(input_dose)", "mdoc_sort": "mdoc_file.sort_by_tilt(", "mdoc_prior": "total_dose = image_dose + prior_dose",
          "mdoc_datetime_rank": "sorted_df[\"total_dose\"] =", "xml": "get_data_from_warp_xml(input_dose", "one_per_line": "one_value_per_line_read(input_dose)"}),
        ("ioutils.one_value_per_line_read", ioutils.one_value_per_line_read),
        ("TiltStack.__init__", tiltstack.TiltStack.__init__, {"from_file": "cryomap.read(tilt_stack", "from_array": "self.data = tilt_stack.copy()",
                                                              "xyz_in": "self.data = self.data.transpose(2, 1, 0)", "file_single_image": "self.data = np.expand_dims(\n",
                                                              "array2d_xyz": "np.expand_dims(self.data, axis=2)", "array2d_zyx": "np.expand_dims(self.data, axis=0)"}),
        ("TiltStack.correct_order", tiltstack.TiltStack.correct_order, {"xyz_out": "return return_data.transpose(2, 1, 0)", "zyx_out": ("return return_data", 1)}),
        ("TiltStack.write_out", tiltstack.TiltStack.write_out, {"writes": "cryomap.write(data_to_write"}),
    ])


# ---- generator ----------------------------------------------------------------------------------
def _q64(v):
    """round to multiples of 1/64 (exact in float32 and in a %.6f text)"""
    return np.round(np.asarray(v, dtype=np.float64) * 64.0) / 64.0


def _rand_k(rng, n):
    return int(orc.dft_index(n)[int(rng.integers(0, n))])


def _image(rng, kind, H, W, hostile_k=False):
    """-> (image float64, description) ; plane waves additionally carry (ky, kx, offset)"""
    if kind == "normal":
        return rng.normal(float(rng.uniform(-2, 2)), float(rng.uniform(0.5, 3)), (H, W)), {"kind": kind}
    if kind == "counts":
        return rng.uniform(0, 200, (H, W)), {"kind": kind}
    if kind == "plane":
        while True:
            if hostile_k:
                ky = int(rng.choice([0, 0, 1, -1, -(H // 2) if H % 2 == 0 else (H - 1) // 2, (H - 1) // 2, -((H - 1) // 2)]))
                kx = int(rng.choice([0, 0, 1, -1, -(W // 2) if W % 2 == 0 else (W - 1) // 2, (W - 1) // 2, -((W - 1) // 2)]))
            else:
                ky, kx = _rand_k(rng, H), _rand_k(rng, W)
            if (ky, kx) != (0, 0):
                break
        ph = float(rng.uniform(0, 2 * np.pi))
        if (2 * ky) % H == 0 and (2 * kx) % W == 0:      # self-conjugate bin: keep the wave away from cos(phase) = 0
            ph = float(rng.choice([0.0, np.pi, 0.7, 2.5]))
        amp = float(rng.uniform(0.5, 20))
        off = float(rng.choice([0.0, 0.0, float(rng.uniform(-50, 50))]))
        return orc.plane_wave(H, W, ky, kx, ph, amp, off), {"kind": kind, "ky": ky, "kx": kx, "phase": round(ph, 6), "amp": amp, "offset": off}
    if kind == "impulse":
        im = np.zeros((H, W))
        y, x = int(rng.integers(0, H)), int(rng.integers(0, W))
        im[y, x] = float(rng.choice([-1, 1])) * float(rng.uniform(1, 100))
        return im, {"kind": kind, "at": [y, x]}
    if kind == "const":
        return np.full((H, W), float(rng.uniform(-10, 10))), {"kind": kind}
    if kind == "zero":
        return np.zeros((H, W)), {"kind": kind}
    if kind == "checker":
        y, x = np.indices((H, W))
        return float(rng.uniform(1, 5)) * (-1.0) ** (x + y) + float(rng.uniform(-1, 1)), {"kind": kind}
    if kind == "ramp":
        y, x = np.indices((H, W))
        return float(rng.uniform(-1, 1)) * x + float(rng.uniform(-1, 1)) * y * y / H, {"kind": kind}
    raise ValueError(kind)


def _mdoc_text(rng, n):
    """acquisition-ordered sections with distinct tilt angles -> (text, expected doses in ascending-tilt order)"""
    scheme = str(rng.choice(["dose_symmetric", "bidirectional", "random"]))
    step = float(rng.choice([2.0, 3.0, 1.5]))
    if scheme == "dose_symmetric":
        ang = [0.0]
        k = 1
        while len(ang) < n:
            ang += [k * step, -k * step]
            k += 1
        ang = ang[:n]
    elif scheme == "bidirectional":
        m = n // 2
        ang = [-(j * step) for j in range(m + 1)] + [(j + 1) * step for j in range(n - m - 1)]
        ang = ang[:n]
    else:
        ang = list(rng.permutation(np.arange(-30, 31))[:n] * step)
    ang = [float(a) + float(rng.choice([0.0, 0.01, -0.02])) for a in ang]
    while len(set(ang)) != n:
        ang = [a + 0.001 * j for j, a in enumerate(ang)]
    emax = 300.0 / (n + 1)
    if rng.random() < 0.5:
        e = np.full(n, float(_q64(rng.uniform(0.5, emax))))
    else:
        e = _q64(rng.uniform(0.1, emax, n))
    pre = float(_q64(rng.choice([0.0, float(rng.uniform(0, emax))])))
    prior = pre + np.concatenate([[0.0], np.cumsum(e)[:-1]])
    p = float(rng.uniform(0.5, 10))
    eol = "\r\n" if rng.random() < 0.25 else "\n"
    lines = ["PixelSpacing = %.3f" % p, "ImageFile = ts_%03d.mrc" % int(rng.integers(1, 999)), "ImageSize = 4096 4096", "DataMode = 1", "",
             "[T = SerialEM: generated for C16]", "", "[T =     Tilt axis angle = 85.3, binning = 1  spot = 8  camera = 0]", ""]
    for z in range(n):
        lines += ["[ZValue = %d]" % z, "TiltAngle = %.4f" % ang[z], "StagePosition = 12.5 -3.25", "Magnification = 42000",
                  "ExposureDose = %.6f" % e[z], "PriorRecordDose = %.6f" % prior[z], "SubFramePath = X:\\frames\\img_%03d.tif" % z,
                  "DateTime = 21-Mar-23  10:%02d:%02d" % (z, int(rng.integers(0, 60))), ""]
    order = np.argsort(np.array(ang))
    return eol.join(lines) + eol, (e + prior)[order]


def _to_int(x, dtype):
    """scale real-valued images into a comfortable band of the integer type and round"""
    x = np.asarray(x, dtype=np.float64)
    info = np.iinfo(np.dtype(dtype))
    span = float(info.max) - float(info.min)
    centre = 0.0 if info.min < 0 else (info.max + 1) / 2.0
    half = min(span / 8.0, 20000.0)
    out = np.empty(x.shape)
    for z in range(x.shape[0]):
        a = x[z] - x[z].mean()
        m = float(np.abs(a).max())
        out[z] = centre + (a / m * half if m > 0 else 0.0)
    return np.rint(out).astype(dtype)


def _layout(a, kind):
    """the same values in another memory layout"""
    a = np.asarray(a)
    if kind == "fortran":
        return np.asfortranarray(a)
    if kind == "negstride":
        rev = tuple(slice(None, None, -1) for _ in range(a.ndim))
        return np.ascontiguousarray(a[rev])[rev]
    if kind == "slice":
        big = np.zeros(tuple(2 * m + 1 for m in a.shape), dtype=a.dtype)
        view = big[tuple(slice(1, 2 * m, 2) for m in a.shape)]
        view[...] = a
        return view
    if kind == "readonly":
        b = np.array(a, copy=True)
        b.setflags(write=False)
        return b
    if kind == "swapaxes" and a.ndim >= 2:
        return np.ascontiguousarray(np.swapaxes(a, -1, -2)).swapaxes(-1, -2)
    return np.array(a, copy=True)


def _path(ctx, case, stem, ext):
    """file names that are legal but unusual; relative to the scratch directory (the cwd of the shard)"""
    st = case.get("path_style", "plain")
    name = {"plain": stem, "spaces": "tilt series " + stem, "brackets": stem + " [bin 2] (raw)", "glob_chars": stem + "_*?",
            "non_ascii": stem + "_\u00e4\u00df\u03b1", "subdir": os.path.join("sub dir", "\u00fc", stem), "ext_letters": stem + "." + ext.strip(".") + ext.strip(".")}[st]
    p = name + ext
    d = os.path.dirname(p)
    if d:
        os.makedirs(os.path.join(ctx.scratch, d), exist_ok=True)
    return p if os.path.realpath(os.getcwd()) == os.path.realpath(ctx.scratch) else os.path.join(ctx.scratch, p)


def _plant_pair(rng, doses, j, direction):
    """make doses[j+1] near-equal to doses[j]: relative gap log-uniform in 1e-9..9e-6 (inside np.isclose's default window),
    upwards (+1), downwards (-1) or an exact repeat (0) -> (j, j+1, identical images?)"""
    eps = float(10.0 ** rng.uniform(-9, -5.05))
    doses[j + 1] = min(doses[j] * (1.0 + direction * eps), 300.0)
    return (j, j + 1, bool(rng.random() < 0.7))


def _dose_text(rng, src, doses, rep):
    """text of a dose file of kind `src` holding `doses` -> (text, csv description)"""
    n = len(doses)
    if src == "text":
        style_t = rep % 6
        rows = ["%.6f" % v for v in doses]
        if style_t == 1:
            rows = ["  " + r for r in rows]
        if style_t == 3:
            rows = [("%d" % v) if float(v).is_integer() else ("%.6f" % v) for v in doses]
        if style_t in (4, 5):                                      # unusual but exact text forms of the same numbers
            rows = []
            for v in doses:
                v = float(v)
                forms = ["%.6e" % v if float("%.6e" % v) == v else "%.6f" % v, "%.6f" % v, ("%.6f" % v).rstrip("0")]
                if v.is_integer():
                    forms += ["%d." % v, "+%d" % v, "%dE0" % v, "%d" % v]
                if 0 < v < 1:
                    forms += [("%.6f" % v).rstrip("0")[1:]]       # .5
                f = forms[int(rng.integers(0, len(forms)))]
                rows.append(f if float(f) == v else "%.6f" % v)
        return "\n".join(rows) + ("" if style_t == 2 else "\n"), None
    if src == "csv":
        with_removed = rep % 3 != 0
        nrem = int(rng.integers(1, 4)) if with_removed and rep % 3 == 1 else 0
        flags = np.array([False] * n + [True] * nrem)
        flags = flags[rng.permutation(n + nrem)]
        vals = np.zeros(n + nrem)
        vals[~flags] = doses
        vals[flags] = _q64(rng.uniform(0, 300, nrem))
        hdr = ",TiltAngle,CorrectedDose" + (",Removed" if with_removed else "")
        rows = [hdr]
        m = n + nrem
        # the first column is only a row label: rows are in stack order whatever it holds
        istyle = ["range", "acquisition", "reversed", "gapped_shuffled", "duplicated", "strings", "negative"][int(rng.integers(0, 7))]
        if m == 1 or istyle == "range":
            labels = [str(j) for j in range(m)]
        elif istyle == "acquisition":
            labels = [str(int(v)) for v in rng.permutation(m)]
        elif istyle == "reversed":
            labels = [str(m - j) for j in range(m)]
        elif istyle == "gapped_shuffled":
            labels = [str(int(v)) for v in rng.permutation(np.arange(3, 3 + 7 * m, 7))]
        elif istyle == "duplicated":
            labels = [str(int(v)) for v in rng.permutation(np.repeat(np.arange((m + 1) // 2), 2)[:m])]
        elif istyle == "strings":
            labels = ["img_%03d" % int(v) for v in rng.permutation(m)]
        else:
            labels = [str(int(v)) for v in rng.permutation(np.arange(-(m // 2), m - m // 2))[::-1]]
        for j in range(m):
            rows.append("%s,%.2f,%.6f" % (labels[j], -30 + 3.0 * j, vals[j]) + ((",%s" % bool(flags[j])) if with_removed else ""))
        return "\n".join(rows) + "\n", {"removed_rows": int(nrem), "removed_column": bool(with_removed), "first_column": istyle}
    if src == "xml":
        return ("<?xml version=\"1.0\" encoding=\"utf-8\"?>\n<TiltSeries AreAnglesInverted=\"False\" PlaneNormal=\"0, 0, 1\">\n  <Angles>\n"
                + "\n".join("%.2f" % (-30 + 3.0 * j) for j in range(n)) + "\n  </Angles>\n  <Dose>\n" + "\n".join("%.6f" % v for v in doses)
                + "\n  </Dose>\n</TiltSeries>\n"), None
    raise ValueError(src)


def gen(ctx, i, cls):
    rng = ctx.rng(i)
    rep = i // len(CLASSES)
    n = int(rng.integers(1, 11))
    H, W = int(rng.integers(4, 65)), int(rng.integers(4, 65))
    if ctx.tier == "quick" and rng.random() < 0.5:          # keep the quick tier cheap: half of the cases below 33 pixels
        H, W = int(rng.integers(4, 33)), int(rng.integers(4, 33))
    dtype = "float64" if rng.random() < 0.7 else "float32"
    pixel = float(rng.uniform(0.5, 10.0))
    kinds = ["normal"] * n
    hostile_k = False
    dose_src = "array"
    stack_src = "array"
    out_file = bool(rng.random() < 0.2)
    in_order, out_order = str(rng.choice(ORDERS)), str(rng.choice(ORDERS))

    if cls == "random_f64":
        dtype = "float64"
        kinds = [str(rng.choice(["normal", "counts"])) for _ in range(n)]
    elif cls == "random_f32":
        dtype = "float32"
        kinds = [str(rng.choice(["normal", "counts"])) for _ in range(n)]
    elif cls == "plane_wave_f64":
        dtype, kinds = "float64", ["plane"] * n
    elif cls == "plane_wave_f32":
        dtype, kinds = "float32", ["plane"] * n
    elif cls == "plane_axis_nyquist":
        kinds, hostile_k = ["plane"] * n, True
        if H == W:
            W = W + 1 if W < 64 else W - 1
    elif cls == "parity_nonsquare":
        ph, pw = [(0, 1), (1, 0), (1, 1), (0, 0)][rep % 4]
        hi = 65 if (ctx.tier != "quick" or rep % 2) else 33
        while True:
            H = int(rng.choice(np.arange(4 + ph, hi, 2)))
            W = int(rng.choice(np.arange(4 + pw, hi, 2)))
            if abs(H - W) >= 3:
                break
        kinds = [str(rng.choice(["normal", "impulse", "plane"])) for _ in range(n)]
    elif cls == "extreme_aspect":
        a, b = int(rng.integers(4, 8)), int(rng.integers(48, 65))
        H, W = (a, b) if rep % 2 == 0 else (b, a)
        kinds = [str(rng.choice(["normal", "impulse"])) for _ in range(n)]
    elif cls == "min_size":
        H, W = int(rng.integers(4, 7)), int(rng.integers(4, 7))
        if rep % 3 == 0:
            H, W = [(4, 4), (4, 5), (5, 4), (5, 5)][(rep // 3) % 4]
    elif cls == "max_size":
        H, W = int(rng.integers(60, 65)), int(rng.integers(60, 65))
        if rep % 2 == 0:
            H, W = [(64, 64), (63, 64), (64, 63), (63, 63)][(rep // 2) % 4]
        n = int(rng.integers(1, 5))
    elif cls == "n1":
        n = 1
        kinds = [str(rng.choice(["normal", "plane", "impulse"]))]
        if rep % 3 == 1:
            stack_src = "array2d"                           # a single 2-D image handed over as such
    elif cls == "n10":
        n = 10
        kinds = [str(rng.choice(["normal", "counts", "plane"])) for _ in range(n)]
    elif cls in ("dose_unsorted", "dose_zero_mix"):
        n = int(rng.integers(3, 11))
        kinds = [str(rng.choice(["normal", "impulse"])) for _ in range(n)]
    elif cls == "dose_textfile":
        dose_src = "text"
    elif cls == "dose_mdoc":
        dose_src = "mdoc"
        n = int(rng.integers(2, 11)) if rep % 5 else 1
    elif cls == "dose_csv":
        dose_src = "csv"
    elif cls == "dose_xml":
        dose_src = "xml"
    elif cls == "dose_list_int":
        dose_src = str(rng.choice(["list_float", "list_int", "array_int", "array_f32"]))
    elif cls == "stack_file":
        stack_src, dtype = "file", "float32"
        out_file = bool(rep % 2 == 0)
        if rep % 4 == 3:
            n = 1
    elif cls == "pixel_extreme":
        pixel = [0.5, 10.0, 1.0, float(np.nextafter(0.5, 1)), float(np.nextafter(10.0, 0)), 2, np.float32(3.5), 0.75][rep % 8]
    elif cls == "impulse_const":
        kinds = [str(rng.choice(["impulse", "impulse", "const", "zero", "checker"])) for _ in range(n)]
        kinds[int(rng.integers(0, n))] = "impulse"
    elif cls == "mixed_content":
        kinds = [str(rng.choice(["normal", "counts", "plane", "impulse", "const", "checker", "ramp"])) for _ in range(n)]
    elif cls == "dose_near_equal":
        dtype = "float64"
        n = int(rng.integers(3, 11))
        kinds = [str(rng.choice(WHITE)) for _ in range(n)]
    elif cls == "dose_tiny":
        dtype = "float64" if rep % 4 else "float32"
        n = int(rng.integers(2, 11))
        kinds = [str(rng.choice(["normal", "impulse", "plane", "normal"])) for _ in range(n)]
        if rep % 2:
            pixel = float(rng.uniform(0.5, 2.0))
    elif cls == "pow2_sizes":
        sizes = [4, 5, 7, 8, 9, 15, 16, 17, 31, 32, 33, 63, 64]
        H, W = int(rng.choice(sizes)), int(rng.choice(sizes))
        if ctx.tier == "quick" and rep % 3 == 0:
            H, W = int(rng.choice(sizes[:8])), int(rng.choice(sizes[:8]))
        n = int(rng.choice([1, 2, 3, 4, 5, 7, 8, 9, 10, 10]))
        kinds = [str(rng.choice(["normal", "impulse"])) for _ in range(n)]
    elif cls == "int_stack":
        dtype = INT_TYPES[rep % len(INT_TYPES)]
        n = int(rng.integers(1, 8))
        kinds = [str(rng.choice(["normal", "plane", "impulse", "counts"])) for _ in range(n)]
        stack_src = "file" if (dtype in ("int16", "uint16", "int8") and rep % 2) else "array"
        out_file = bool(dtype == "int16" and rep % 3 == 0)
    elif cls == "history_inplace":
        n = int(rng.integers(2, 9))
        out_file = False
        kinds = [str(rng.choice(["normal", "counts", "impulse"])) for _ in range(n)]
    if len(kinds) != n:
        kinds = [kinds[0]] * n

    # ---- doses (any order) ----
    style = str(rng.choice(["random", "cumulative", "descending", "random"]))
    if style == "cumulative":
        doses = np.cumsum(rng.uniform(0.5, 300.0 / n, n))
    elif style == "descending":
        doses = np.sort(rng.uniform(0, 300, n))[::-1].copy()
    else:
        doses = rng.uniform(0, 300, n)
    if cls == "dose_unsorted":
        base = np.linspace(float(rng.uniform(1, 20)), float(rng.uniform(120, 300)), n)
        while True:
            doses = rng.permutation(base)
            if not np.all(np.diff(doses) > 0):
                break
    elif cls == "dose_zero_mix":
        pool = [0.0, 0.0, 300.0, float(rng.uniform(0, 300)), 1e-3, 0.5]
        doses = np.array([pool[int(rng.integers(0, len(pool)))] for _ in range(n)])
        doses[int(rng.integers(0, n))] = 0.0
        doses[int(rng.integers(0, n))] = 300.0
        if rep % 6 == 5:
            doses[:] = 0.0
    elif cls == "n1" and rep % 4 == 0:
        doses = np.array([float(rng.choice([0.0, 300.0]))])
    elif cls == "int_stack":
        doses = rng.uniform(2.0, 150.0, n)                       # never zero: an unfiltered result must be visible
    elif cls == "dose_zero_mix" and rep % 6 == 4:
        doses[:] = float(rng.uniform(1, 300))                    # a single distinct dose
    doses = np.minimum(np.asarray(doses, dtype=np.float64), 300.0)
    pairs = []                                                   # (j, j+1, identical images) with near-equal / repeated doses
    planted = None
    if cls == "dose_near_equal":
        doses = rng.uniform(5.0, 290.0, n)
        j = int(rng.integers(0, 2)) if n > 3 else 0
        while j + 1 < n:
            pairs.append(_plant_pair(rng, doses, j, [1, 1, 1, -1, -1, 0][int(rng.integers(0, 6))]))
            j += 2 if rng.random() < 0.7 else 3
        if n >= 4 and rep % 3 == 0:                              # a chain of three, each within 1e-5 of its predecessor
            pairs = [_plant_pair(rng, doses, 0, 1), _plant_pair(rng, doses, 1, 1)] + [q for q in pairs if q[0] >= 3]
        planted = "near_equal"
    elif cls == "dose_tiny":
        doses = np.array([TINY_POOL[int(rng.integers(0, len(TINY_POOL)))] if rng.random() < 0.7 else float(10.0 ** rng.uniform(-9, -2)) for _ in range(n)])
        doses[int(rng.integers(0, n))] = [9e-4, 6e-4, 1e-6, 1e-9, float(np.nextafter(1e-3, 0))][rep % 5]
        if rep % 3 == 0:
            doses[int(rng.integers(0, n))] = float(rng.choice([0.0, float(rng.uniform(1, 300))]))
        planted = "tiny"
    elif dose_src == "array" and cls not in ("dose_unsorted", "dose_zero_mix") and not (cls == "n1" and rep % 4 == 0):
        u = rng.random()
        if u < 0.2 and n >= 2:
            j = int(rng.integers(0, n - 1))
            doses[j] = float(np.clip(doses[j], 1.0, 299.0))
            pairs.append(_plant_pair(rng, doses, j, int(rng.choice([1, -1, 0]))))
            planted = "near_equal"
        elif u < 0.4:
            doses[int(rng.integers(0, n))] = TINY_POOL[int(rng.integers(0, len(TINY_POOL)))]
            planted = "tiny"

    dose_text = None
    csv_extra = None
    if dose_src in ("text", "csv", "xml", "array_f32"):
        doses = _q64(doses)
    if dose_src in ("list_int", "array_int"):
        doses = np.round(doses)
    if dose_src == "mdoc":
        dose_text, doses = _mdoc_text(rng, n)
    elif dose_src in ("text", "csv", "xml"):
        dose_text, csv_extra = _dose_text(rng, dose_src, doses, rep)

    # ---- images ----
    imgs, descr = [], []
    for z in range(n):
        im, d = _image(rng, kinds[z], H, W, hostile_k)
        imgs.append(im)
        descr.append(d)
    for (j, k, same) in pairs:
        if same:
            imgs[k], descr[k] = imgs[j].copy(), dict(descr[j])
    if dtype in INT_TYPES:
        X = _to_int(np.stack(imgs), dtype)
        for dd in descr:
            dd["kind"] = dd["kind"] if dd["kind"] != "plane" else "plane_int"      # rounded: no longer an exact eigenfunction
    else:
        X = np.stack(imgs).astype(dtype)
    X2 = rng.normal(0.0, float(rng.uniform(0.5, 3)), (n, H, W)).astype(dtype if dtype in REL else "float64")
    ab = [float(rng.uniform(-3, 3)), float(rng.uniform(-3, 3))]
    delta = np.where(rng.random(n) < 0.25, 0.0, rng.uniform(1.0, 120.0, n))
    delta = np.where(doses + delta <= 300.0, delta, 0.0)
    if not np.any(delta > 0) and np.any(doses <= 299.0):
        j = int(np.argmin(doses))
        delta[j] = 1.0
    d2 = rng.uniform(0, 1, n) * (300.0 - doses)
    if cls == "dose_tiny" or (planted == "tiny" and rng.random() < 0.5):
        # tiny steps: twice the same tiny dose must equal the doubled dose; a tiny extra dose must still attenuate more
        d2 = np.where(doses <= 1.0, doses, d2)
        delta = np.where(doses + 1e-2 <= 300.0, 10.0 ** rng.uniform(-8, -3, n), 0.0)
        delta[int(rng.integers(0, n))] = float(rng.choice([9e-4, 6e-4, 1e-6, 1e-8]))
        delta = np.where(doses + delta <= 300.0, delta, 0.0)
    rel_orders = [(str(rng.choice(ORDERS)), str(rng.choice(ORDERS))) for _ in range(6)]
    alt = [(a, b) for a in ORDERS for b in ORDERS if (a, b) != (in_order, out_order)]
    alt_orders = alt[int(rng.integers(0, len(alt)))]
    vary = np.array([X[z].max() != X[z].min() for z in range(n)])
    case = {"i": i, "cls": cls, "n": n, "H": H, "W": W, "dtype": dtype, "pixel": pixel, "doses": doses, "X": X, "X2": X2, "ab": ab,
            "delta": delta, "d2": d2, "descr": descr, "dose_src": dose_src, "dose_text": dose_text, "stack_src": stack_src,
            "out_file": out_file, "in_order": in_order, "out_order": out_order, "rel_orders": rel_orders, "alt_orders": alt_orders,
            "pairs": pairs, "planted": planted, "layout": LAYOUTS[int(rng.integers(0, len(LAYOUTS)))],
            "dose_layout": str(rng.choice(["plain", "strided", "negstride", "readonly"])),
            "pixel_kind": str(rng.choice(["float", "np.float64", "0d", "float"])), "path_style": PATH_STYLES[int(rng.integers(0, len(PATH_STYLES)))],
            "int_probe": INT_TYPES[int(rng.integers(0, len(INT_TYPES)))], "dose_kind": str(rng.choice(["float", "np.float64", "0d", "np.float32", "int"])),
            "nontrivial": bool(np.any((doses > 0) & vary))}
    case["summary"] = {"n": n, "H": H, "W": W, "dtype": dtype, "pixel": float(pixel), "pixel_type": type(pixel).__name__,
                       "doses": [float(v) for v in doses], "orders": [in_order, out_order], "content": [d["kind"] for d in descr],
                       "waves": [[d["ky"], d["kx"]] for d in descr if d["kind"] == "plane"][:4], "dose_source": dose_src,
                       "csv": csv_extra, "stack_source": stack_src, "output_file": out_file, "planted": planted, "layout": case["layout"], "dose_layout": case["dose_layout"],
                       "pixel_kind": case["pixel_kind"], "path_style": case["path_style"], "int_probe": case["int_probe"],
                       "near_equal_pairs": [[j, k, same, repr(float(doses[j])), repr(float(doses[k]))] for (j, k, same) in pairs],
                       "first_pixels": [round(float(v), 5) for v in X[0].ravel()[:3]]}
    return case


def nontrivial(case):
    return case["nontrivial"]


# ---- driver -------------------------------------------------------------------------------------
def _dose_input(ctx, case, tag):
    src, d = case["dose_src"], case["doses"]
    if src == "array":
        dl = case.get("dose_layout", "plain")
        a = np.array(d, dtype=np.float64)
        if dl == "strided":
            big = np.full(3 * len(a) + 1, 7.0)
            big[1::3] = a
            return big[1::3]
        if dl == "negstride":
            return np.ascontiguousarray(a[::-1])[::-1]
        if dl == "readonly":
            a.setflags(write=False)
        return a
    if src == "list_float":
        return [float(v) for v in d]
    if src == "list_int":
        return [int(v) for v in d]
    if src == "array_int":
        return np.array(d, dtype=np.int64)
    if src == "array_f32":
        return np.array(d, dtype=np.float32)
    ext = {"text": ".txt", "mdoc": ".mdoc", "csv": ".csv", "xml": ".xml"}[src]
    if src == "text" and (case["i"] // len(CLASSES)) % 2:
        ext = ".dose"
    p = _path(ctx, case, "dose_%d_%s" % (case["i"], tag), ext)
    with open(p, "w", newline="") as f:
        f.write(case["dose_text"])
    return p


def _filter(ctx, case, X, doses, label, orders):
    """one more real call on an array stack (n,y,x given) -> filtered (n,y,x) or None"""
    io, oo = orders
    ok, r = ctx.call(label, ctx.ts.dose_filter, orc.from_nyx(X, io), case["pixel"], np.array(doses, dtype=np.float64),
                     input_order=io, output_order=oo)
    if not ok or not isinstance(r, np.ndarray) or r.ndim != 3:
        return None
    Y = orc.to_nyx(r, oo)
    return Y if Y.shape == X.shape else None


def _filter_raw(ctx, stack, pixel, dose_arg, label, orders, shape):
    io, oo = orders
    ok, r = ctx.call(label, ctx.ts.dose_filter, stack, pixel, dose_arg, input_order=io, output_order=oo)
    if not ok or not isinstance(r, np.ndarray) or r.ndim != 3:
        return None
    Y = orc.to_nyx(r, oo)
    return Y if Y.shape == tuple(shape) else None


def _run_int(ctx, case, pixel):
    """integer-typed stacks: the observed call (judged by gain_int_stack), the other axis order, and the single-image function
    applied directly to every integer image (judged by gain_single at float64 accuracy)."""
    X, n, H, W = case["X"], case["n"], case["H"], case["W"]
    if case["stack_src"] == "file":
        stack_in = _path(ctx, case, "stack_%d" % case["i"], ".mrc")
        files.write_mrc_raw(stack_in, X.transpose(2, 1, 0), mode={"int8": 0, "int16": 1, "uint16": 6}[case["dtype"]])
    else:
        stack_in = _layout(orc.from_nyx(X, case["in_order"]), case["layout"])
    kw = {"input_order": case["in_order"], "output_order": case["out_order"]}
    outp = None
    if case["out_file"]:
        outp = _path(ctx, case, "filtered_%d" % case["i"], ".mrc")
        kw["output_file"] = outp
    ctx.call("dose_filter(integer stack)", ctx.ts.dose_filter, stack_in, pixel, _dose_input(ctx, case, "a"), **kw)
    io, oo = case["alt_orders"]
    ctx.call("dose_filter(integer stack, other order)", ctx.ts.dose_filter, orc.from_nyx(X, io), pixel, np.array(case["doses"]), input_order=io, output_order=oo)
    fc = orc.freq(H, W, pixel)[np.ix_((np.arange(H) - H // 2) % H, (np.arange(W) - W // 2) % W)]
    for z in range(n):
        ctx.call("dose_filter_single_image(integer image)", ctx.ts.dose_filter_single_image, np.array(X[z], copy=True), float(case["doses"][z]), np.array(fc, copy=True))
    for f in (outp, stack_in if isinstance(stack_in, str) else None):
        if f and os.path.exists(f):
            os.remove(f)


def _close(a, b, tol):
    """-> None or witness for |a-b| <= tol (per image tolerances allowed)"""
    a, b = np.asarray(a, dtype=np.float64), np.asarray(b, dtype=np.float64)
    tol = np.broadcast_to(np.asarray(tol, dtype=np.float64).reshape(-1, 1, 1), a.shape)
    bad = ~(np.abs(a - b) <= tol)
    if not bad.any():
        return None
    z, y, x = np.argwhere(bad)[0]
    return {"image": int(z), "pixel_y_x": [int(y), int(x)], "got": float(a[z, y, x]), "expected": float(b[z, y, x]),
            "tolerance": float(tol[z, y, x]), "n_pixels_off": int(bad.sum()), "max_abs_diff": float(np.nanmax(np.abs(a - b)))}


def run_case(ctx, case):
    ts = ctx.ts
    X, n, H, W = case["X"], case["n"], case["H"], case["W"]
    doses, pixel = case["doses"], case["pixel"]
    if isinstance(pixel, float):
        pixel = {"float": pixel, "np.float64": np.float64(pixel), "0d": np.array(pixel)}[case["pixel_kind"]]
    if case["dtype"] not in REL:
        _run_int(ctx, case, pixel)
        return
    rel = REL[case["dtype"]]
    info = {"H": H, "W": W, "n": n, "pixel": float(pixel), "dtype": case["dtype"]}
    amax = np.maximum(np.abs(X.astype(np.float64)).reshape(n, -1).max(axis=1), 0.0)
    tol_sp = rel * amax + 1e-300
    # ---- the observed call --------------------------------------------------------------------------
    if case["stack_src"] == "file":
        stack_in = _path(ctx, case, "stack_%d" % case["i"], ".mrc")
        files.write_mrc_raw(stack_in, X.transpose(2, 1, 0), mode=2)
    elif case["stack_src"] == "array2d":
        stack_in = _layout(X[0].T if case["in_order"] == "xyz" else X[0], case["layout"])
    else:
        stack_in = _layout(orc.from_nyx(X, case["in_order"]), case["layout"])
    kw = {"input_order": case["in_order"], "output_order": case["out_order"]}
    outp = None
    if case["out_file"]:
        outp = _path(ctx, case, "filtered_%d" % case["i"], ".mrc")
        kw["output_file"] = outp
    dose_in = _dose_input(ctx, case, "a")
    ok, r = ctx.call("dose_filter", ts.dose_filter, stack_in, pixel, dose_in, **kw)
    for f in (outp,):
        if f and os.path.exists(f):
            os.remove(f)
    if not ok:
        return
    if not isinstance(r, np.ndarray) or r.ndim not in (2, 3) or orc.to_nyx(r, case["out_order"]).shape != X.shape:
        ctx.check("dc_mean", False, dict(info, what="returned stack has the wrong shape", got=list(getattr(r, "shape", []))))
        return
    Y = np.asarray(orc.to_nyx(r, case["out_order"]), dtype=np.float64)
    X64 = X.astype(np.float64)

    # dc_mean: per image
    for z in range(n):
        mx, my = float(X64[z].mean()), float(Y[z].mean())
        ctx.check("dc_mean", abs(my - mx) <= tol_sp[z], dict(info, image=z, mean_in=mx, mean_out=my, dose=float(doses[z]), tolerance=float(tol_sp[z])))

    # plane_wave: spatial eigenfunction check, no DFT
    for z, d in enumerate(case["descr"]):
        if d["kind"] != "plane":
            continue
        g = orc.gain_scalar(H, W, pixel, doses[z], d["ky"], d["kx"])
        exp = d["offset"] + g * (X64[z] - d["offset"])
        w = _close(Y[z:z + 1], exp[None], tol_sp[z])
        ctx.check("plane_wave", w is None, None if w is None else dict(info, wave_ky_kx=[d["ky"], d["kx"]], dose=float(doses[z]), expected_gain=g,
                                                                      observed_gain=float(np.vdot(X64[z] - d["offset"], Y[z] - d["offset"]) / max(np.vdot(X64[z] - d["offset"], X64[z] - d["offset"]), 1e-300)), **w))

    # power: no bin grows
    FX, FY = orc.dft2(X64), orc.dft2(Y)
    aX, aY = np.abs(FX), np.abs(FY)
    tol_f = rel * aX.reshape(n, -1).max(axis=1) + 1e-300
    for z in range(n):
        grow = aY[z] - aX[z]
        okp = bool(np.all(grow <= tol_f[z]))
        w = None
        if not okp:
            ky, kx = np.unravel_index(int(np.argmax(grow)), grow.shape)
            w = dict(info, image=z, dose=float(doses[z]), bin_ky_kx=[int(orc.dft_index(H)[ky]), int(orc.dft_index(W)[kx])], amp_in=float(aX[z, ky, kx]), amp_out=float(aY[z, ky, kx]))
        ctx.check("power", okp, w)

    # single images, called directly: whether dose_filter reaches dose_filter_single_image through that public name is an
    # internal matter of cryoCAT (the stack result is judged by gain_stack either way); the driver applies it itself to every
    # image with an independently built centred frequency array, so the gain_single monitor is reached in either case
    fc = orc.freq(H, W, pixel)[np.ix_((np.arange(H) - H // 2) % H, (np.arange(W) - W // 2) % W)]
    for z in range(n):
        dz = float(doses[z])
        kind = case["dose_kind"] if z % 2 == 0 else "float"
        dz = {"float": dz, "np.float64": np.float64(dz), "0d": np.array(dz), "np.float32": np.float32(dz) if float(np.float32(dz)) == dz else dz,
              "int": int(dz) if dz.is_integer() else dz}[kind]
        ctx.call("dose_filter_single_image", ts.dose_filter_single_image, _layout(X[z], case["layout"] if z % 2 else "c"), dz, np.array(fc, copy=True))
    # the same function on integer-typed images (camera counts): the result is the real-valued filtered image
    zi = case["i"] % n
    ctx.call("dose_filter_single_image(integer image)", ts.dose_filter_single_image, _to_int(X[zi:zi + 1].astype(np.float64), case["int_probe"])[0],
             float(doses[zi]) if doses[zi] >= 1.0 else float(doses[zi]) + 20.0, np.array(fc, copy=True))
    # the very object a loader returned, handed on as the dose argument
    if isinstance(dose_in, str):
        okl, loaded = ctx.call("total_dose_load", ctx.io.total_dose_load, dose_in)
        if okl and isinstance(loaded, np.ndarray) and loaded.shape == (n,):
            Yl = _filter_raw(ctx, orc.from_nyx(X, case["in_order"]), pixel, loaded, "dose_filter(loader output as dose)", (case["in_order"], case["out_order"]), X.shape)
            if Yl is not None:
                w = _close(Yl, Y, tol_sp)
                ctx.check("order_equiv", w is None, None if w is None else dict(info, what="doses handed over as the loader's returned array instead of the path", dose_source=case["dose_src"], **w))

    ro = case["rel_orders"]
    # order_equiv: other axis orders / array instead of file give the same images
    Yalt = _filter(ctx, case, X, doses, "dose_filter(other order)", case["alt_orders"])
    if Yalt is not None:
        w = _close(Yalt, Y, tol_sp)
        ctx.check("order_equiv", w is None, None if w is None else dict(info, orders=[case["in_order"], case["out_order"]], other=list(case["alt_orders"]), stack=case["stack_src"], **w))

    # zero_dose
    Y0 = _filter(ctx, case, X, np.zeros(n), "dose_filter(zero dose)", ro[0])
    if Y0 is not None:
        w = _close(Y0, X64, tol_sp)
        ctx.check("zero_dose", w is None, None if w is None else dict(info, **w))

    # linearity
    a, b = case["ab"]
    X2 = case["X2"]
    Xc = (a * X64 + b * X2.astype(np.float64)).astype(X.dtype)
    Y2 = _filter(ctx, case, X2, doses, "dose_filter(second stack)", ro[1])
    Yc = _filter(ctx, case, Xc, doses, "dose_filter(combination)", ro[2])
    if Y2 is not None and Yc is not None:
        tol_l = rel * (abs(a) * amax + abs(b) * np.abs(X2.astype(np.float64)).reshape(n, -1).max(axis=1)) + 1e-300
        w = _close(Yc, a * Y + b * Y2, tol_l)
        ctx.check("linearity", w is None, None if w is None else dict(info, a=a, b=b, **w))

    # monotone: more dose attenuates more
    delta = case["delta"]
    Ym = _filter(ctx, case, X, doses + delta, "dose_filter(more dose)", ro[3])
    if Ym is not None:
        aM = np.abs(orc.dft2(Ym))
        for z in range(n):
            grow = aM[z] - aY[z]
            okm = bool(np.all(grow <= tol_f[z]))
            w = None
            if not okm:
                ky, kx = np.unravel_index(int(np.argmax(grow)), grow.shape)
                w = dict(info, image=z, what="a bin grew with more dose", dose=float(doses[z]), more=float(delta[z]),
                         bin_ky_kx=[int(orc.dft_index(H)[ky]), int(orc.dft_index(W)[kx])], amp=float(aY[z, ky, kx]), amp_more=float(aM[z, ky, kx]))
            elif 1e-8 <= delta[z] < 1.0 and case["dtype"] == "float64" and case["descr"][z]["kind"] in WHITE:
                pY, pM = _nondc_power(aY[z]), _nondc_power(aM[z])
                if _resolvable(pY, delta[z], H * W, float(aX[z].max())) and not pM < pY:
                    okm = False
                    w = dict(info, image=z, what="a small extra dose did not reduce the summed non-DC power", dose=repr(float(doses[z])),
                             more=repr(float(delta[z])), power=pY, power_more=pM)
            elif delta[z] >= 1.0 and case["dtype"] == "float64":
                exc = aY[z] > 1e-6 * max(float(aX[z].max()), 1e-300)
                exc[0, 0] = False
                notless = exc & ~(aM[z] <= aY[z] * (1.0 - 1e-6))
                if notless.any():
                    okm = False
                    ky, kx = np.argwhere(notless)[0]
                    w = dict(info, image=z, what="an excited non-DC bin did not shrink with more dose", dose=float(doses[z]), more=float(delta[z]),
                             bin_ky_kx=[int(orc.dft_index(H)[ky]), int(orc.dft_index(W)[kx])], amp=float(aY[z, ky, kx]), amp_more=float(aM[z, ky, kx]))
            ctx.check("monotone", okm, w)

    # identical images at consecutive positions of ONE stack whose doses differ by a hair: the larger dose attenuates more
    if case["dtype"] == "float64":
        for (j, k, same) in case["pairs"]:
            if not same or doses[j] == doses[k] or case["descr"][j]["kind"] not in WHITE:
                continue
            lo, hi = (j, k) if doses[j] < doses[k] else (k, j)
            pl, ph = _nondc_power(aY[lo]), _nondc_power(aY[hi])
            if not _resolvable(pl, float(doses[hi] - doses[lo]), H * W, float(aX[lo].max())):
                continue
            ctx.check("monotone", ph < pl, dict(info, what="identical images in one stack: the one with (slightly) more dose is not attenuated more",
                                                images=[lo, hi], doses=[repr(float(doses[lo])), repr(float(doses[hi]))], power=[pl, ph],
                                                outputs_identical=bool(np.array_equal(Y[lo], Y[hi]))))

    # composition: d1 then d2 == d1 + d2
    d2 = case["d2"]
    # second pass on the very object the first call returned (for 'xyz' a transposed view), declared in its output order
    Y12 = _filter_raw(ctx, r if r.ndim == 3 else orc.from_nyx(Y.astype(X.dtype), case["out_order"]), pixel, np.array(d2, dtype=np.float64),
                      "dose_filter(second pass)", (case["out_order"], ro[4][1]), X.shape)
    Ys = _filter(ctx, case, X, doses + d2, "dose_filter(summed dose)", ro[5])
    if Y12 is not None and Ys is not None:
        w = _close(Y12, Ys, tol_sp)
        ctx.check("composition", w is None, None if w is None else dict(info, d1=doses, d2=d2, **w))
    if case["stack_src"] == "file" and os.path.exists(stack_in):
        os.remove(stack_in)
    if case["cls"] == "history_inplace":
        _history(ctx, case)


NE_MAX = orc.A * (1.0 / 640.0) ** orc.B + orc.C      # largest critical exposure inside the quantifier (64 pixels of 10 A)


def _resolvable(power, more_dose, nbins, scale):
    """Can a dose step `more_dose` be seen in the summed non-DC power?  Lower bound of the predicted reduction
    (power * more_dose / NE_MAX, every bin loses at least that fraction) against a generous bound of the rounding noise
    (1e-14 * largest input bin per output bin: measured 2.2e-15).  Heavily attenuated outputs are pure rounding noise."""
    eta = 1e-14 * scale
    noise = 2.0 * np.sqrt(power * nbins) * eta + nbins * eta * eta
    return power * more_dose / NE_MAX > 10.0 * noise


def _nondc_power(a):
    """summed squared amplitude of all bins but the zero-frequency one"""
    q = np.square(np.asarray(a, dtype=np.float64))
    return float(q.sum() - q[0, 0])


def _history(ctx, case):
    """caller-owned stack, dose vector (and pixel size) mutated IN PLACE between calls on the same objects: every call is
    judged by gain_stack on the values the objects hold at that moment and must equal a fresh call on copies."""
    rng = ctx.rng(case["i"], 3)
    io, oo = case["in_order"], case["out_order"]
    n, rel = case["n"], REL[case["dtype"]]
    A = orc.from_nyx(case["X"], io)                  # caller-owned, reused
    D = np.array(case["doses"], dtype=np.float64)    # caller-owned, reused
    p = float(case["pixel"])
    for step in range(4):
        if step == 1:
            A *= float(rng.choice([-0.75, 1.5, 0.5]))
            A[tuple(int(rng.integers(0, m)) for m in A.shape)] += 3.0
            D[:] = np.minimum(D[::-1].copy() * (1.0 + float(10.0 ** rng.uniform(-8, -5.1))), 300.0)
        elif step == 2:
            An = orc.to_nyx(A, io)                  # a view: swapping two images writes through to A
            j = int(rng.integers(0, n - 1))
            tmp = An[j].copy()
            An[j] = An[j + 1]
            An[j + 1] = tmp
            D[j + 1] = min(D[j] * (1.0 + float(rng.choice([1, -1])) * float(10.0 ** rng.uniform(-9, -5.1))), 300.0)
            D[int(rng.integers(0, n))] = TINY_POOL[int(rng.integers(0, len(TINY_POOL)))]
        elif step == 3:
            p = float(np.clip(p * (1.0 + float(rng.choice([1e-6, -1e-6, 1e-3]))), 0.5, 10.0))
        ok, r = ctx.call("dose_filter(history step %d)" % step, ctx.ts.dose_filter, A, p, D, input_order=io, output_order=oo)
        if not ok or not isinstance(r, np.ndarray) or r.ndim != 3:
            return
        Y = np.array(orc.to_nyx(r, oo), dtype=np.float64)
        Xnow = np.array(orc.to_nyx(A, io), copy=True)
        ok, r2 = ctx.call("dose_filter(fresh copies)", ctx.ts.dose_filter, orc.from_nyx(Xnow, io), p, np.array(D, copy=True), input_order=io, output_order=oo)
        if not ok or not isinstance(r2, np.ndarray) or r2.shape != r.shape:
            return
        tol = rel * np.abs(Xnow.astype(np.float64)).reshape(n, -1).max(axis=1) + 1e-300
        w = _close(Y, orc.to_nyx(r2, oo), tol)
        ctx.check("history_fresh", w is None, None if w is None else dict(H=case["H"], W=case["W"], n=n, step=step, pixel=p, doses=[repr(float(v)) for v in D], **w))


# ---- exhaustive sub-space: every (H, W) shape ---------------------------------------------------------------
def extra(ctx):
    hi = 20 if ctx.tier == "quick" else 64
    cnt = 0
    for H in range(4, hi + 1):
        for W in range(4, hi + 1):
            rng = ctx.rng(10 ** 6 + 100 * H + W, 7)
            imp = np.zeros((H, W))
            imp[int(rng.integers(0, H)), int(rng.integers(0, W))] = float(rng.uniform(1, 10))
            X = np.stack([imp, rng.normal(0, 1, (H, W))])
            d = rng.uniform(1, 300, 2)
            p = float(rng.uniform(0.5, 10))
            io, oo = str(rng.choice(ORDERS)), str(rng.choice(ORDERS))
            ctx.cur = {"index": "extra", "cls": "exhaustive", "summary": {"H": H, "W": W, "pixel": p, "doses": [float(v) for v in d], "orders": [io, oo]}}
            ok, r = ctx.call("dose_filter(all shapes)", ctx.ts.dose_filter, orc.from_nyx(X, io), p, d, input_order=io, output_order=oo)
            if ok and isinstance(r, np.ndarray) and r.ndim == 3 and orc.to_nyx(r, oo).shape == X.shape:
                Y = orc.to_nyx(r, oo)
                for z in range(2):
                    ctx.check("dc_mean", abs(float(Y[z].mean()) - float(X[z].mean())) <= 1e-10 * float(np.abs(X[z]).max()),
                              {"H": H, "W": W, "image": z, "mean_in": float(X[z].mean()), "mean_out": float(Y[z].mean())})
            cnt += 1
    ctx.extra["exhaustive_shapes"] = cnt
    _option_grid(ctx)
    ctx.extra["exhaustive_shapes_range"] = "every (H, W) with 4 <= H, W <= %d: impulse + noise image, judged by gain_stack/gain_single" % hi


# ---- exhaustive sub-space: every combination of the call's options ---------------------------------------------
DOSE_SOURCES = ["array", "list_float", "list_int", "array_int", "array_f32", "text", "mdoc", "csv", "xml"]


def _option_grid(ctx):
    """dose source x input order x output order x stack source x output file, each with four content variants (noise with
    spread doses; axis-aligned plane waves with a near-equal dose pair; impulses with tiny doses; int16 stacks), random memory
    layouts and unusual file names.  Judged by gain_stack /
    gain_file / gain_small_dose; every pair of options occurs together at least 24 times."""
    cnt = 0
    reps = 1 if ctx.tier == "quick" else 4
    for variant in range(4 * reps):
        for si, src in enumerate(DOSE_SOURCES):
            for io in ORDERS:
                for oo in ORDERS:
                    for stack_src in ("array", "array2d", "file"):
                        for out_file in (False, True):
                            idx = cnt
                            cnt += 1
                            rng = ctx.rng(2 * 10 ** 6 + idx, 9)
                            H, W = int(rng.integers(4, 13)), int(rng.integers(4, 13))
                            n = 1 if stack_src == "array2d" else int(rng.integers(2, 5))
                            dtype = "float32" if stack_src == "file" else "float64"
                            p = float(rng.uniform(0.5, 10))
                            doses = rng.uniform(0, 300, n)
                            v = variant % 4
                            if v == 3:                           # integer-typed stack (int16 arrays, 2-D images, mode-1 files)
                                dtype = "int16"
                                doses = rng.uniform(2, 150, n)
                                X = rng.normal(0, 2, (n, H, W))
                            elif v == 0:
                                X = rng.normal(0, 2, (n, H, W))
                            elif v == 1:
                                X = np.stack([orc.plane_wave(H, W, *[(0, 1), (1, 0), (0, -(W // 2)), ((H - 1) // 2, 0)][int(rng.integers(0, 4))],
                                                             float(rng.uniform(0.3, 1.2)), float(rng.uniform(1, 5)), 0.0) for _ in range(n)])
                                if n >= 2 and src in ("array", "list_float"):
                                    doses[0] = float(rng.uniform(5, 290))
                                    _plant_pair(rng, doses, 0, int(rng.choice([1, -1])))
                            else:
                                X = np.zeros((n, H, W))
                                for z in range(n):
                                    X[z, int(rng.integers(0, H)), int(rng.integers(0, W))] = float(rng.uniform(1, 10))
                                if src in ("array", "list_float"):
                                    doses[int(rng.integers(0, n))] = TINY_POOL[int(rng.integers(0, len(TINY_POOL)))]
                            if src in ("text", "csv", "xml", "array_f32"):
                                doses = _q64(doses)
                            if src in ("list_int", "array_int"):
                                doses = np.round(doses)
                            text = None
                            if src == "mdoc":
                                text, doses = _mdoc_text(rng, n)
                            elif src in ("text", "csv", "xml"):
                                text, _ = _dose_text(rng, src, doses, idx)
                            pseudo = {"i": 3 * 10 ** 6 + idx, "dose_src": src, "doses": doses, "dose_text": text,
                                      "path_style": PATH_STYLES[int(rng.integers(0, len(PATH_STYLES)))],
                                      "dose_layout": str(rng.choice(["plain", "strided", "negstride", "readonly"]))}
                            lay = LAYOUTS[int(rng.integers(0, len(LAYOUTS)))]
                            X = _to_int(X, dtype) if dtype == "int16" else X.astype(dtype)
                            ctx.cur = {"index": "extra", "cls": "option_grid", "summary": {"H": H, "W": W, "n": n, "pixel": p, "doses": [repr(float(d)) for d in doses],
                                                                                         "orders": [io, oo], "dose_source": src, "stack_source": stack_src,
                                                                                         "output_file": out_file, "variant": v, "layout": lay, "path_style": pseudo["path_style"]}}
                            if stack_src == "file":
                                stack_in = _path(ctx, pseudo, "grid_%d" % idx, ".mrc")
                                files.write_mrc_raw(stack_in, X.transpose(2, 1, 0), mode=1 if dtype == "int16" else 2)
                            elif stack_src == "array2d":
                                stack_in = _layout(X[0].T if io == "xyz" else X[0], lay)
                            else:
                                stack_in = _layout(orc.from_nyx(X, io), lay)
                            kw = {"input_order": io, "output_order": oo}
                            outp = _path(ctx, pseudo, "grid_out_%d" % idx, ".mrc") if out_file else None
                            if outp:
                                kw["output_file"] = outp
                            dose_in = _dose_input(ctx, pseudo, "g")
                            ok, r = ctx.call("dose_filter(option grid)", ctx.ts.dose_filter, stack_in, p, dose_in, **kw)
                            if ok and dtype != "int16" and isinstance(r, np.ndarray) and r.ndim in (2, 3) and orc.to_nyx(r, oo).shape == X.shape:
                                Y = orc.to_nyx(r, oo)
                                tol = REL[dtype] * np.abs(X.astype(np.float64)).reshape(n, -1).max(axis=1)
                                for z in range(n):
                                    ctx.check("dc_mean", abs(float(Y[z].mean(dtype=np.float64)) - float(X[z].mean(dtype=np.float64))) <= tol[z],
                                              {"H": H, "W": W, "image": z, "grid": ctx.cur["summary"]})
                            for f in (outp, stack_in if stack_src == "file" else None, dose_in if isinstance(dose_in, str) else None):
                                if f and os.path.exists(f):
                                    os.remove(f)
    ctx.extra["option_grid_calls"] = cnt
    ctx.extra["option_grid"] = "dose source (9) x input order (2) x output order (2) x stack source (3) x output file (2), %d content variants" % (4 * reps)
