"""C09 - Spatial filters keep exactly the particles that lie inside.

Call monitors (attached in place on cryomotl.Motl, DESIGN.md 4/C09):
  oob_upper_survivors  post(remove_out_of_bounds_particles): no particle with c-b >= 0 and c+b < dim(own tomogram) is removed,
                       every kept particle passes all upper-face tests of its OWN tomogram, survivors are unaltered rows
                       of the input, in input order.
  oob_lower            post(remove_out_of_bounds_particles): no kept particle has a negative component of c-b.  A failure is
                       passed with key "oob-lower-face" only when oob_upper_survivors held for the same call (the discrepancy
                       is then entirely "kept although a lower face is crossed"); otherwise it is a plain violation.
  trim_exact           post(adapt_to_trimming): x,y,z -> x-(start-1); kept <=> 1 <= x' <= end-start+1; all other fields unaltered.
  dist_exact           post(clean_by_distance_to_points): removed <=> a reference point of the same tomogram within the radius
                       (INCLUSIVE: an exact tie d^2 == r^2 is removed) of the complete position; only calls with a
                       near-but-not-exact tie (|d-r| < 1e-6, not exactly equal) are out of domain; survivors unaltered.
  dist_exact_ties_removed  same call, sub-clause with its own minimum: every particle whose NEAREST same-tomogram point lies
                       exactly at the radius is gone (this is what an exclusive bound breaks).
  mask_exact           post(clean_by_tomo_mask): removed <=> tomogram listed, trunc(complete position) inside the mask volume
                       and mask voxel 0; everything else kept, unaltered.
Driver-side relational oracles:
  oob_repr_invariance  same particles (x/shift split changed, complete positions identical) + same dimensions in another
                       representation and row order => identical kept ids.
  trim_compose         trimming by (s1,e1) then (s2,e2) == trimming once by the composed box (ids and coordinates).
  dist_union_monotone  removed(P1 u P2) == removed(P1) u removed(P2);  removed(r_small) subset of removed(r).
  mask_complement      removed(M) and removed(1-M) are disjoint, their union is removed(all-zero mask); all-one mask removes nothing.
"""
import os

import numpy as np
import pandas as pd

from vmon import gens, monitors
from vmon.oracles import c09_oracle as O
from vmon.oracles import files

PROP = "C09"
RULE = ("cases = one generated particle list (all coordinates dyadic multiples of 1/8 so that face values are hit exactly, "
        "non-zero shifts, 1-4 tomograms with different non-cubic dimensions) driven through one filter family "
        "(out-of-bounds / trimming / reference points / tomogram mask) with generated dimensions, trim boxes, point sets, "
        "radii and 0/1 masks (arrays and files); non-trivial = N >= 2 and the expected kept set is neither empty nor "
        "everything; distinct by digest of (filter, N, dimensions/box/radius/mask shapes, representation, expected "
        "counts, first positions)")
ASSUMPTIONS = [
    "inside (out-of-bounds) means c-b >= 0 and c+b < dim on every axis with b = 0 ('center') or ceil(box/2) ('whole'), as written in DESIGN.md 4/C09",
    "tomogram dimensions are given as N x 4 (tomo_id x y z) with one row per tomogram of the list; 1 x 3 input is outside the quantifier",
    "the voxel a particle sits on is trunc(complete position), used directly as array index; complete positions in (-1,0) are never generated for the mask filter",
    "'within the radius' is inclusive: an exact tie (d^2 == r^2 in exact rational arithmetic, every float operation of its evaluation exact) is expected REMOVED; near-but-not-exact ties |d - radius| < 1e-6 are out of domain (they cannot occur for generated cases: points, positions and radii are multiples of 1/8, so d^2 != r^2 implies |d - r| > 1e-4)",
    "clean_by_tomo_mask is judged only for lists with unique subtomo_id (removal is by id) and 0/1 masks",
    "survivor order is judged only for remove_out_of_bounds_particles; the other filters are judged as multisets of rows",
    "float32-typed dimension tables are outside the quantifier (dimension tables are integer-valued; /repo compares python floats with np.float32 in float32 precision, so a position within float32 spacing below an upper face is removed): not generated, such calls are out of domain",
    "x,y,z columns narrower than int64 make adapt_to_trimming raise under pandas 3 (exotic column dtype): not generated for trimming, such calls are out of domain; int32 positions are judged for the other three filters",
    "tomogram-list FILES are read as float32 by ioutils.tlt_load: ids not exactly representable in float32 are passed as arrays/lists only",
    "reference points are the documented columns x, y, z of the points table; any further columns (shift_x/y/z, all particle fields) do not move them",
]

CLASSES = ["oob_center_faces", "oob_whole_odd", "oob_whole_even", "oob_upper_only", "oob_multi_tomo", "oob_far", "oob_single", "oob_shared_dims", "oob_block_sizes",
           "trim_faces", "trim_random", "trim_start_one", "trim_block_sizes", "dist_near", "dist_cross_tomo", "dist_shifted", "dist_exact_tie", "dist_block_sizes",
           "mask_inside", "mask_outside", "mask_files_multi", "mask_single_partial", "mask_block_sizes", "flow_chain"]
KEY = "oob-lower-face"
TIE = 1e-6
T30, T22 = 2.0 ** -30, 2.0 ** -22        # 9.3e-10 and 2.4e-7: dyadic, so every x/shift/offset sum stays exact
FACE = [-1.0, -0.125, -T22, -T30, 0.0, T30, T22, 0.125, 1.0]
BLOCK_SIZES = [2 ** k + d for k in range(6, 13) for d in (-1, 0, 1)]
ID_BASES = {"1e5": 100000, "1e6": 1000000, "date": 2309150, "2p24": 2 ** 24 - 4, "2p31": 2 ** 31 - 2}


def plan(tier):
    if tier == "quick":
        return dict(n_cases=960, shards=4, classes=CLASSES, timeout_s=900,
                    min_evals={"oob_upper_survivors": 1000, "oob_lower": 1000, "trim_exact": 450, "trim_start_111": 70, "dist_exact": 430,
                               "mask_exact": 600, "oob_repr_invariance": 250, "trim_compose": 110, "dist_union_monotone": 55,
                               "mask_complement": 110, "dist_exact_ties_removed": 45, "dims_unchanged": 270, "dist_file": 90,
                               "mask_file": 130, "dist_last_rows_decide": 40},
                    min_known={"oob-lower-face": 50})
    return dict(n_cases=9600, shards=16, classes=CLASSES, timeout_s=3000,
                min_evals={"oob_upper_survivors": 10000, "oob_lower": 10000, "trim_exact": 4500, "trim_start_111": 700, "dist_exact": 4300,
                           "mask_exact": 6000, "oob_repr_invariance": 2500, "trim_compose": 1100, "dist_union_monotone": 550,
                           "mask_complement": 1100, "dist_exact_ties_removed": 450, "dims_unchanged": 2700, "dist_file": 900,
                           "mask_file": 1300, "dist_last_rows_decide": 400},
                min_known={"oob-lower-face": 500})


# ---- judging helpers ------------------------------------------------------------------------------
def _row(arr, i):
    return {"row": int(i), "subtomo_id": float(arr[i, O.ISUB]), "tomo_id": float(arr[i, O.ITOMO]),
            "xyz": arr[i, O.IX:O.IX + 3].tolist(), "shift": arr[i, O.ISH:O.ISH + 3].tolist(),
            "complete_position": O.positions(arr[i:i + 1])[0].tolist()}


def _altered(exp, obs, idx):
    j = int(np.nonzero(idx < 0)[0][0])
    w = {"observed_row": int(j), "subtomo_id": float(obs[j, O.ISUB])}
    same = np.nonzero(exp[:, O.ISUB] == obs[j, O.ISUB])[0]
    if len(same) == 1:
        d = np.nonzero(~((exp[same[0]] == obs[j]) | (np.isnan(exp[same[0]]) & np.isnan(obs[j]))))[0]
        w["fields_differing"] = {O.COLS[k]: {"expected": float(exp[same[0], k]), "observed": float(obs[j, k])} for k in d[:6]}
    return w


def judge_set(ctx, name, exp, keep, out_df, explain=None, ordered=False, what=""):
    """exp: (N,20) expected rows (input rows, with the documented offset applied where there is one);
    keep: expected kept mask.  One in-domain evaluation of `name`."""
    obs = O.table(out_df)
    if obs is None:
        return ctx.check(name, False, {"call": what, "result": "not a 20-field particle table",
                                       "columns": [str(c) for c in getattr(out_df, "columns", [])][:24]})
    idx = O.match_rows(exp, obs)
    kept = O.kept_mask(len(exp), idx)
    wr, wk = keep & ~kept, kept & ~keep
    unknown = int((idx < 0).sum())
    ok = unknown == 0 and not wr.any() and not wk.any() and (not ordered or O.in_order(idx))
    w = None
    if not ok:
        w = {"call": what, "n": int(len(exp)), "expected_kept": int(keep.sum()), "observed_rows": int(len(obs)),
             "wrongly_removed": int(wr.sum()), "wrongly_kept": int(wk.sum()), "survivors_not_in_input": unknown}
        if wr.any():
            i = int(np.nonzero(wr)[0][0])
            w["first_wrongly_removed"] = dict(_row(exp, i), **(explain(i) if explain else {}))
        if wk.any():
            i = int(np.nonzero(wk)[0][0])
            w["first_wrongly_kept"] = dict(_row(exp, i), **(explain(i) if explain else {}))
        if unknown:
            w["first_altered_survivor"] = _altered(exp, obs, idx)
        if ordered and not O.in_order(idx):
            w["order"] = "survivors are not in input order"
    return ctx.check(name, ok, w)


def judge_file(ctx, name, exp_rows, path, what):
    """The list written to output_file (EM particle list, parsed from bytes) must be the cleaned list: same rows as the
    expected survivors after the file format's float32 rounding, as a multiset."""
    em = files.parse_em(str(path)) if os.path.isfile(str(path)) else {"error": "file not written"}
    if "error" in em or em.get("code") != 5 or em["dims"][0] != 20 or em["dims"][2] != 1:
        return ctx.check(name, False, {"call": what, "file": str(path), "problem": em.get("error", "not a 20 x N x 1 float32 EM volume"),
                                       "dims": em.get("dims")})
    got = em["data"][:, :, 0].T.astype(np.float64)
    exp = np.where(np.isnan(exp_rows), 0.0, exp_rows).astype(np.float32).astype(np.float64)
    idx = O.match_rows(exp, got)
    kept = O.kept_mask(len(exp), idx)
    ok = len(got) == len(exp) and bool(kept.all()) and not (idx < 0).any()
    w = None
    if not ok:
        w = {"call": what, "file": os.path.basename(str(path)), "rows_in_file": int(len(got)), "expected_rows": int(len(exp)),
             "expected_rows_missing_in_file": int((~kept).sum()), "file_rows_not_expected": int((idx < 0).sum())}
        if (idx < 0).any():
            j = int(np.nonzero(idx < 0)[0][0])
            w["first_unexpected_file_row"] = {"subtomo_id": float(got[j, O.ISUB]), "tomo_id": float(got[j, O.ITOMO]),
                                              "xyz": got[j, O.IX:O.IX + 3].tolist(), "shift": got[j, O.ISH:O.ISH + 3].tolist()}
    return ctx.check(name, ok, w)


# ---- call monitor: remove_out_of_bounds_particles ---------------------------------------------------
_PRISTINE = {}      # id(dimensions object handed over by the driver) -> (object, ids, dims, values) copied BEFORE its first use


def register_dims(obj):
    ids, dims = O.parse_dims(obj)
    _PRISTINE[id(obj)] = (obj, ids.copy(), dims.copy(), obj.to_numpy(dtype=np.float64).copy())
    return _PRISTINE[id(obj)]


def _oob_app(A):
    arr = O.table(getattr(A["self"], "df", None))
    if not O.geometry_finite(arr) or len(arr) < 1:
        return False
    b = O.half_box(A["boundary_type"], A["box_size"])
    dd = A["dimensions"]
    if getattr(dd, "dtype", None) == np.float32 or (hasattr(dd, "dtypes") and hasattr(dd, "columns") and any(t == np.float32 for t in dd.dtypes)):
        return False                      # float32-typed dimension tables: outside the quantifier (lead's ruling, see ASSUMPTIONS)
    reg = _PRISTINE.get(id(A["dimensions"]))
    if reg is not None and reg[0] is A["dimensions"]:
        pd_ = (reg[1], reg[2])            # a table the driver re-uses: judged against the values it had when first handed over
    else:
        pd_ = O.parse_dims(A["dimensions"])
    if b is None or pd_ is None:
        return False
    e = O.oob_expected(arr, pd_[0], pd_[1], b)
    if e is None:
        return False
    A["_c09"] = dict(arr=arr, b=b, lower_ok=e[0], upper_ok=e[1], pos=e[2], own=e[3])
    return True


def _oob_snap(A):
    return A.pop("_c09")


def _oob_post(ctx, A, S, result):
    arr, b, lower_ok, upper_ok, pos, own = S["arr"], S["b"], S["lower_ok"], S["upper_ok"], S["pos"], S["own"]
    what = "remove_out_of_bounds_particles(boundary_type=%r, box_size=%r)" % (A["boundary_type"], A["box_size"])

    def explain(i):
        return {"own_dims": own[i].tolist(), "b": b, "c_minus_b": (pos[i] - b).tolist(), "c_plus_b": (pos[i] + b).tolist()}

    obs = O.table(A["self"].df)
    if obs is None:
        ctx.check("oob_upper_survivors", False, {"call": what, "result": "not a 20-field particle table"})
        ctx.check("oob_lower", False, {"call": what, "result": "not a 20-field particle table"})
        return
    idx = O.match_rows(arr, obs)
    kept = O.kept_mask(len(arr), idx)
    unknown = int((idx < 0).sum())
    order_ok = O.in_order(idx)
    wrongly_removed = lower_ok & upper_ok & ~kept
    upper_miss = kept & ~upper_ok
    ok1 = unknown == 0 and order_ok and not wrongly_removed.any() and not upper_miss.any()
    w = None
    if not ok1:
        w = {"call": what, "n": int(len(arr)), "observed_rows": int(len(obs)), "wrongly_removed": int(wrongly_removed.sum()),
             "kept_beyond_an_upper_face_of_own_tomogram": int(upper_miss.sum()), "survivors_not_in_input": unknown,
             "in_order": order_ok}
        if wrongly_removed.any():
            i = int(np.nonzero(wrongly_removed)[0][0])
            w["first_wrongly_removed"] = dict(_row(arr, i), **explain(i))
        if upper_miss.any():
            i = int(np.nonzero(upper_miss)[0][0])
            w["first_kept_beyond_upper_face"] = dict(_row(arr, i), **explain(i))
        if unknown:
            w["first_altered_survivor"] = _altered(arr, obs, idx)
    ctx.check("oob_upper_survivors", ok1, w)
    lower_miss = kept & ~lower_ok
    w2 = None
    if lower_miss.any():
        i = int(np.nonzero(lower_miss)[0][0])
        w2 = {"call": what, "n": int(len(arr)), "kept_although_a_lower_face_is_crossed": int(lower_miss.sum()),
              "of_these_also_beyond_an_upper_face": int((lower_miss & ~upper_ok).sum()),
              "first": dict(_row(arr, i), **explain(i)),
              "rest_of_the_call_correct": bool(ok1)}
    # the open finding's mechanism and nothing else: superset of the expected set, every extra particle crosses a
    # lower face only (all upper tests of its own tomogram pass), survivors unaltered and in order  <=>  ok1
    ctx.check("oob_lower", not lower_miss.any(), w2, key=KEY if ok1 else None)


# ---- call monitor: adapt_to_trimming ---------------------------------------------------------------
def _trim_app(A):
    arr = O.table(getattr(A["self"], "df", None))
    s, e = O.vec3(A["trim_coord_start"]), O.vec3(A["trim_coord_end"])
    if not O.geometry_finite(arr) or s is None or e is None:
        return False
    df = A["self"].df
    kinds = {df[c].dtype.kind for c in ("x", "y", "z")}
    narrow = any(df[c].dtype.kind in "iu" and df[c].dtype.itemsize < 8 for c in ("x", "y", "z"))   # int32/int16 columns: reported, not judged
    if narrow or not (kinds <= {"f"} or (kinds <= {"f", "i", "u"} and bool(np.all(s == np.round(s))))):
        return False                      # a fractional offset cannot be stored in integer columns (pandas 3 raises)
    keep, exp = O.trim_expected(arr, s, e)
    A["_c09"] = dict(arr=arr, s=s, e=e, keep=keep, exp=exp)
    return True


def _trim_post(ctx, A, S, result):
    def explain(i):
        return {"start": S["s"].tolist(), "end": S["e"].tolist(), "xyz_in_trimmed_volume": S["exp"][i, O.IX:O.IX + 3].tolist(),
                "trimmed_size": (S["e"] - S["s"] + 1).tolist(), "original_xyz": S["arr"][i, O.IX:O.IX + 3].tolist()}
    ok = judge_set(ctx, "trim_exact", S["exp"], S["keep"], A["self"].df, explain,
                   what="adapt_to_trimming(%s, %s)" % (S["s"].tolist(), S["e"].tolist()))
    if np.all(S["s"] == 1.0):             # zero offset on all axes: same clause, counted separately so that it is never absent
        ctx.check("trim_start_111", ok, {"start": S["s"].tolist(), "end": S["e"].tolist(), "n": int(len(S["arr"])),
                                         "expected_kept": int(S["keep"].sum()), "observed_rows": int(len(A["self"].df)),
                                         "start_argument_type": type(A["trim_coord_start"]).__name__})


# ---- call monitor: clean_by_distance_to_points ------------------------------------------------------
def _dist_app(A):
    arr = O.table(getattr(A["self"], "df", None))
    pts, fid, r = A["points"], A["feature_id"], A["radius_in_voxels"]
    if not O.geometry_finite(arr) or len(arr) < 1 or not isinstance(pts, pd.DataFrame) or fid not in O.COLS:
        return False
    try:
        if any(c not in pts.columns for c in ("x", "y", "z", fid)) or not np.isfinite(float(r)) or float(r) < 0:
            return False
        q = pts[["x", "y", "z"]].to_numpy(dtype=np.float64).reshape(len(pts), 3)
        qf = pts[fid].to_numpy(dtype=np.float64)
    except Exception:
        return False
    feat = arr[:, O.COLS.index(fid)]
    if not (np.all(np.isfinite(q)) and np.all(np.isfinite(qf)) and np.all(np.isfinite(feat))):
        return False
    removed, margin, ties = O.dist_expected(arr, feat, q, qf, float(r))
    if margin < TIE:                      # a near-but-not-exact tie
        return False
    A["_c09"] = dict(arr=arr, removed=removed, q=q, qf=qf, feat=feat, r=float(r), ties=ties)
    return True


def _dist_post(ctx, A, S, result):
    out = A["self"].df if A["inplace"] else getattr(result, "df", None)
    pos = O.positions(S["arr"])

    def explain(i):
        q = S["q"][S["qf"] == S["feat"][i]]
        d = np.sqrt(((q - pos[i]) ** 2).sum(axis=1)) if len(q) else np.array([])
        return {"radius": S["r"], "points_in_same_group": int(len(q)),
                "nearest_point_distance": float(d.min()) if len(d) else None,
                "nearest_point": q[int(d.argmin())].tolist() if len(d) else None}
    judge_set(ctx, "dist_exact", S["arr"], ~S["removed"], out, explain,
              what="clean_by_distance_to_points(radius=%r, feature_id=%r, inplace=%r)" % (S["r"], A["feature_id"], A["inplace"]))
    # particles whose NEAREST same-tomogram point is at distance exactly the radius (they show an exclusive bound)
    tie_only = [i for i in np.nonzero(S["removed"])[0] if explain(i)["nearest_point_distance"] == S["r"]]
    if tie_only and len(set(S["arr"][:, O.ISUB].tolist())) == len(S["arr"]):      # identified by (unique) subtomo_id
        obs = O.table(out)
        gone = obs is not None and not set(S["arr"][tie_only, O.ISUB].tolist()) & set(obs[:, O.ISUB].tolist())
        ctx.check("dist_exact_ties_removed", gone,
                  {"radius": S["r"], "particles_with_nearest_point_exactly_at_radius": len(tie_only),
                   "first": dict(_row(S["arr"], tie_only[0]), **explain(tie_only[0]))})
        ctx.extra["dist_particles_with_nearest_point_exactly_at_radius"] = ctx.extra.get("dist_particles_with_nearest_point_exactly_at_radius", 0) + len(tie_only)
    ctx.extra["dist_exact_tie_pairs_judged"] = ctx.extra.get("dist_exact_tie_pairs_judged", 0) + int(S["ties"])
    what = "clean_by_distance_to_points(radius=%r, inplace=%r, output_file=%r)" % (S["r"], A["inplace"], os.path.basename(str(A["output_file"])))
    if isinstance(A["output_file"], str) and A["output_file"].endswith(".em"):
        judge_file(ctx, "dist_file", S["arr"][~S["removed"]], A["output_file"], what)
    # particles whose ONLY close reference points are among the last 8 rows of their tomogram's (large) point set
    last_only = []
    for f in set(S["feat"].tolist()):
        q = S["q"][S["qf"] == f]
        if len(q) <= 64:
            continue
        for i in np.nonzero((S["feat"] == f) & S["removed"])[0]:
            close = np.nonzero(np.sqrt(((q - pos[i]) ** 2).sum(axis=1)) <= S["r"])[0]
            if len(close) and close.min() >= len(q) - 8:
                last_only.append(int(i))
    if last_only and len(set(S["arr"][:, O.ISUB].tolist())) == len(S["arr"]):
        obs = O.table(out)
        gone = obs is not None and not set(S["arr"][last_only, O.ISUB].tolist()) & set(obs[:, O.ISUB].tolist())
        ctx.check("dist_last_rows_decide", gone, {"call": what, "particles_close_only_to_the_last_rows_of_their_point_set": len(last_only),
                                                   "first": dict(_row(S["arr"], last_only[0]), **explain(last_only[0]))})


# ---- call monitor: clean_by_tomo_mask --------------------------------------------------------------
def _mask_app(A):
    arr = O.table(getattr(A["self"], "df", None))
    if not O.geometry_finite(arr) or len(arr) < 1 or len(set(arr[:, O.ISUB].tolist())) != len(arr):
        return False
    tomos = O.parse_tomo_list(A["tomo_list"])
    if tomos is None:
        return False
    tm = A["tomo_masks"]
    if isinstance(tm, list):
        if len(tm) != len(tomos):
            return False
        masks = [O.read_mask(m) for m in tm]
    else:
        one = O.read_mask(tm)
        masks = [one] * len(tomos)
    if any(m is None for m in masks):
        return False
    removed, inside, gap = O.mask_expected(arr, tomos, masks)
    if gap:
        return False
    A["_c09"] = dict(arr=arr, removed=removed, inside=inside, tomos=tomos, masks=masks)
    return True


def _mask_post(ctx, A, S, result):
    out = A["self"].df if A["inplace"] else getattr(result, "df", None)
    pos = O.positions(S["arr"])

    def explain(i):
        t = S["arr"][i, O.ITOMO]
        k = [j for j, v in enumerate(S["tomos"]) if v == t]
        w = {"tomogram_listed": bool(k), "voxel": np.trunc(pos[i]).astype(int).tolist(), "inside_mask_volume": bool(S["inside"][i])}
        if k:
            m = S["masks"][k[0]]
            w["mask_shape"] = list(m.shape)
            if S["inside"][i]:
                v = np.trunc(pos[i]).astype(int)
                w["mask_value"] = float(m[v[0], v[1], v[2]])
        return w
    if isinstance(A["output_file"], str) and A["output_file"].endswith(".em"):
        judge_file(ctx, "mask_file", S["arr"][~S["removed"]], A["output_file"],
                   "clean_by_tomo_mask(inplace=%r, output_file=%r)" % (A["inplace"], os.path.basename(A["output_file"])))
    judge_set(ctx, "mask_exact", S["arr"], ~S["removed"], out, explain,
              what="clean_by_tomo_mask(tomo_list=%s, %s, inplace=%r)" % (S["tomos"].tolist(), "list of masks" if isinstance(A["tomo_masks"], list) else "single mask", A["inplace"]))


def setup(ctx):
    from cryocat import cryomotl, ioutils
    ctx.cm = cryomotl
    M = cryomotl.Motl
    f_oob = monitors.wrap(ctx, M, "remove_out_of_bounds_particles", "oob_upper_survivors", _oob_post, _oob_app, _oob_snap)
    f_trim = monitors.wrap(ctx, M, "adapt_to_trimming", "trim_exact", _trim_post, _trim_app, _oob_snap)
    f_dist = monitors.wrap(ctx, M, "clean_by_distance_to_points", "dist_exact", _dist_post, _dist_app, _oob_snap)
    f_mask = monitors.wrap(ctx, M, "clean_by_tomo_mask", "mask_exact", _mask_post, _mask_app, _oob_snap)
    ctx.declare("dist_file", "mask_file", "dist_last_rows_decide", "trim_start_111", "dims_unchanged", "oob_lower", "oob_repr_invariance", "trim_compose", "dist_union_monotone", "mask_complement", "dist_exact_ties_removed")
    monitors.trace(ctx, [
        ("Motl.remove_out_of_bounds_particles", f_oob, {"whole": "boundary = ceil(box_size / 2)", "center": "boundary = 0",
                                                        "particle_kept": "idx_list.append(i)"}),
        ("Motl.adapt_to_trimming", f_trim),
        ("Motl.clean_by_distance_to_points", f_dist, {"ball_query": "tree.query_ball_point(point", "write_out": "cleaned_motl.write_out(output_file)",
                                                      "inplace": "self.df = cleaned_df", "return_new": "return cleaned_motl"}),
        ("Motl.clean_by_tomo_mask", f_mask, {"mask_list": "if len(tomos) != len(tomo_masks)", "single_mask": "requries_loading = False",
                                             "load_each_mask": "tomo_mask = cryomap.binarize(tomo_masks[i])",
                                             "write_out": "cleaned_motl.write_out(output_file)",
                                             "inplace": "self.df = cleaned_motl.df", "return_new": "return cleaned_motl"}),
        ("ioutils.dimensions_load", ioutils.dimensions_load, {"dataframe": "dimensions = input_dims", "text_file": "pd.read_csv(input_dims",
                                                              "list": "np.reshape(np.asarray(input_dims)", "ndarray_1d": "np.reshape(input_dims, (1,",
                                                              "ndarray": "dimensions = pd.DataFrame(input_dims)",
                                                              "n_by_4": 'dimensions.columns = ["tomo_id", "x", "y", "z"]'}),
    ])


# ---- generator helpers ----------------------------------------------------------------------------
def dy(rng, lo, hi, size=None, q=8):
    return np.round(rng.uniform(lo, hi, size) * q) / q


def nz_shift(rng, n, amp=3.0, zero_frac=0.0):
    s = dy(rng, -amp, amp, (n, 3))
    s[s == 0] = 0.125
    if zero_frac:
        s[rng.random((n, 3)) < zero_frac] = 0.0
    return s


def block_size(ctx, rng, kmax_quick, kmax_thorough):
    """a particle / point count of the form 2**k - 1, 2**k, 2**k + 1"""
    kmax = kmax_thorough if ctx.tier == "thorough" else kmax_quick
    k = int(rng.integers(6, kmax + 1))
    return 2 ** k + int(rng.integers(-1, 2))


def n_particles(ctx, rng, lo=1, hi=36):
    if ctx.tier == "thorough" and rng.random() < 0.35:
        return int(rng.integers(40, 220))
    return int(rng.integers(lo, hi + 1))


def base_table(rng, n, k, tl=None):
    """20-field table with k tomograms.  Tomogram ids: small numbers, or ADJACENT integers just above 1e5 (np.isclose merges
    them), at 1e6 / date-coded 7-digit ids (identical in 6 significant digits), just below 2**24 and around 2**31;
    subtomo ids optionally lifted to just above 1e5 / just below 2**24 / above 2**31 (adjacent integers as well)."""
    df = gens.motl_table(rng, n, tomos=1, pos_scale=100.0)
    kind = str(rng.choice(["small", "1e5", "1e6", "date", "2p24", "2p31"], p=[0.4, 0.12, 0.12, 0.12, 0.12, 0.12]))
    lift = float(rng.choice([0, 0, 0, 100000, 2 ** 24 - n - 50, 2 ** 31]))
    df["subtomo_id"] = df["subtomo_id"] + lift
    if tl is None:
        if kind == "small":
            tl = np.sort(rng.choice(np.arange(1, 90), size=k, replace=False)).astype(float)
        else:
            tl = (ID_BASES[kind] + np.arange(5, dtype=float))[:max(k, 1)]
        rng.shuffle(tl)
    tl = np.asarray(tl, dtype=float)
    df.attrs["ids"] = kind
    df.attrs["subtomo_lift"] = lift
    a = np.concatenate([np.arange(min(k, n)), rng.integers(0, k, max(0, n - k))])
    rng.shuffle(a)
    df["tomo_id"] = tl[a]
    return df, tl


def plant_duplicates(rng, df, keep_ids_unique=False, frac=0.35):
    """exact duplicate rows (all 20 fields) or, with keep_ids_unique, two particles at exactly the same position and
    orientation with different subtomo_id and score.  Returns the number of planted rows."""
    n = len(df)
    if n < 2 or rng.random() > frac:
        return 0
    m = int(rng.integers(1, max(2, n // 6 + 1)))
    src = rng.integers(0, n, m)
    tgt = rng.integers(0, n, m)
    same_pos_only = keep_ids_unique or rng.random() < 0.4
    vals = df.to_numpy(dtype=float)
    planted = 0
    for a, b in zip(src, tgt):
        if a == b:
            continue
        keep = vals[b, [0, O.ISUB]].copy()
        vals[b] = vals[a]
        if same_pos_only:
            vals[b, 0], vals[b, O.ISUB] = keep[0], keep[1]
        planted += 1
    df.iloc[:, :] = vals
    return planted


def set_positions(df, c, s):
    x = c - s
    for a, (cx, cs) in enumerate(zip(("x", "y", "z"), ("shift_x", "shift_y", "shift_z"))):
        df[cx] = x[:, a]
        df[cs] = s[:, a]


def hostile_axes(rng, p=(0.25, 0.5, 0.15, 0.1)):
    kh = int(rng.choice(4, p=p))
    ax = np.zeros(3, dtype=bool)
    ax[rng.permutation(3)[:kh]] = True
    return ax


def head(arr, k=3):
    return np.round(O.positions(arr[:k]), 3).tolist()


# ---- shapes of the inputs (round 6): index labels, column order, dtypes, layouts, scalar kinds, paths ----------------
def odd_labels(rng, n, kinds=("range", "permuted", "gapped", "reversed", "repeated", "repeated", "all_same")):
    """row labels of a table of n rows; 'repeated' is what pd.concat([a.df, b.df]) without ignore_index leaves behind"""
    kind = str(rng.choice(kinds))
    if kind == "range" or n == 0:
        return "range", np.arange(n)
    if kind == "permuted":
        return kind, rng.permutation(n)
    if kind == "gapped":
        return kind, np.sort(rng.choice(np.arange(3 * n + 5), n, replace=False))
    if kind == "reversed":
        return kind, np.arange(n)[::-1].copy()
    if kind == "all_same":
        return kind, np.zeros(n, dtype=int)
    if rng.random() < 0.6 and n >= 2:                    # two lists concatenated
        m = int(rng.integers(1, n))
        return kind, np.concatenate([np.arange(m), np.arange(n - m)])
    return kind, rng.integers(0, max(1, n // 2), n)


def shape_table(rng, case):
    """Changes that leave every particle (and so every expected set) as it is: row labels, column order, integer-typed
    x,y,z with the fraction moved into the shift, constant columns, DataFrame.attrs."""
    df = case["df"]
    n = len(df)
    notes = {}
    if rng.random() < 0.25:
        for c in rng.choice(["score", "class", "geom1", "object_id"], 2, replace=False):
            df[c] = 0.0
        notes["constant_zero_columns"] = True
    if rng.random() < 0.08:
        arr = O.table(df)
        if case["kind"] != "trim" and not case.get("ulp"):
            c = O.positions(arr)
            set_positions(df, c, np.zeros_like(c))
            notes["all_shifts_zero"] = True
    if rng.random() < 0.3 and not case.get("ulp"):
        xyz = df[["x", "y", "z"]].to_numpy(dtype=float)
        if case["kind"] == "trim":
            ok = bool(np.all(case["start"] == np.round(case["start"])) and np.all(xyz == np.round(xyz)))
        else:
            fl = np.floor(xyz)
            for a, (cx, cs) in enumerate(zip(("x", "y", "z"), ("shift_x", "shift_y", "shift_z"))):
                df[cs] = df[cs].to_numpy(dtype=float) + (xyz[:, a] - fl[:, a])
            xyz, ok = fl, True
        if ok and np.abs(xyz).max(initial=0) < 2 ** 31 - 1:
            dt = np.int64 if rng.random() < 0.5 else np.int32
            if case["kind"] in ("trim", "flow"):
                dt = np.int64             # adapt_to_trimming raises on int32 columns under pandas 3 (reported; not generated)
            for a, cx in enumerate(("x", "y", "z")):
                df[cx] = xyz[:, a].astype(dt)
            notes["integer_xyz"] = np.dtype(dt).name
    if rng.random() < 0.25:
        df = df[[O.COLS[j] for j in rng.permutation(20)]].copy()
        notes["columns_permuted"] = True
    kind, labels = odd_labels(rng, n)
    df.index = labels
    notes["row_labels"] = kind
    df.attrs["origin"] = "c09 case %d" % case["i"]
    case["df"] = df
    case["summary"]["table_shape"] = notes


def layout(a, v):
    """the same values in another memory layout / with other flags"""
    a = np.asarray(a)
    v = v % 6
    if v == 1:
        return np.asfortranarray(a)
    if v == 2:                                            # negative strides along the first axis
        return np.ascontiguousarray(a[::-1])[::-1]
    if v == 3:                                            # non-contiguous: every second element of a wider buffer
        big = np.zeros(a.shape[:-1] + (2 * a.shape[-1],), dtype=a.dtype)
        big[..., ::2] = a
        return big[..., ::2]
    if v == 4:
        b = a.copy()
        b.setflags(write=False)
        return b
    if v == 5 and a.ndim >= 2:                            # axes swapped in memory, un-swapped as a view
        return np.ascontiguousarray(np.swapaxes(a, -1, -2)).swapaxes(-1, -2)
    return a


def as_flag(i, b):
    return [bool, np.bool_, int, bool][(i // 3) % 4](b)


def as_num(i, v):
    """the same number as another scalar kind (python, numpy scalar, float32 when exact, 0-d array)"""
    if v is None:
        return None
    k = (i // 2) % 6
    f = float(v)
    if k == 1:
        return np.float64(f)
    if k == 2 and f == round(f):
        return np.int64(round(f))
    if k == 3 and float(np.float32(f)) == f:
        return np.float32(f)
    if k == 4:
        return np.array(f)
    if k == 5 and f == round(f):
        return int(round(f))
    return v


ODD_NAMES = ["plain_%d", "ribosome_%d", "sub dir/frame%d", "m[%d]*q?", "mäsk_%d_ü", "them.%d"]


def odd_path(ctx, i, stem, ext, relative=None):
    """paths with blanks, glob characters, non-ASCII letters, sub-directories, stems ending like an extension; relative
    (the shard's cwd is its scratch directory) or absolute"""
    name = ODD_NAMES[i % len(ODD_NAMES)] % (i % 4) + stem + ext
    full = os.path.join(ctx.scratch, name)
    os.makedirs(os.path.dirname(full), exist_ok=True)
    rel = (i // len(ODD_NAMES)) % 2 == 0 if relative is None else relative
    return name if rel and os.path.realpath(os.getcwd()) == os.path.realpath(ctx.scratch) else full


# ---- generator: out of bounds -----------------------------------------------------------------------
def gen_oob(ctx, rng, cls, i):
    k = 1 if cls == "oob_single" else int(rng.integers(2, 5)) if cls == "oob_multi_tomo" else int(rng.integers(1, 5))
    if cls == "oob_center_faces":
        mode = "center"
    elif cls in ("oob_whole_odd", "oob_whole_even"):
        mode = "whole"
    else:
        mode = "center" if rng.random() < 0.45 else "whole"
    box = None
    if mode == "whole":
        odd = cls == "oob_whole_odd" or (cls != "oob_whole_even" and rng.random() < 0.5)
        box = int(rng.choice([1, 3, 5, 7, 9, 11] if odd else [2, 4, 6, 8, 10, 12]))
        if rng.random() < 0.15:
            box = float(box)
    b = O.half_box(mode, box)
    n = n_particles(ctx, rng)
    if cls == "oob_single":
        n = 1 if rng.random() < 0.5 else int(rng.integers(2, 10))
    if cls == "oob_block_sizes":          # the function loops over rows: ~0.7 ms per particle
        n = block_size(ctx, rng, 8 if rng.random() < 0.85 else 10, 10 if rng.random() < 0.8 else 12)
        k = int(rng.integers(2, 5))
    pool = None
    if cls == "oob_shared_dims":          # dimensions come from one of the shard's long-lived tables
        pool = int(rng.integers(0, POOL))
        pids, pdims = pool_spec(ctx, pool)
        sel = rng.permutation(len(pids))[:k]
        df, tl = base_table(rng, n, k, tl=pids[sel])
    else:
        df, tl = base_table(rng, n, k)
    dims = np.zeros((k, 3))
    for t in range(k):
        if pool is not None:
            dims[t] = pdims[sel[t]]
            continue
        for a in range(3):
            if cls == "oob_multi_tomo" or rng.random() < 0.5:
                dims[t, a] = rng.integers(2 * b + 6, 2 * b + 22) if rng.random() < 0.5 else rng.integers(70, 130)
            else:
                dims[t, a] = rng.integers(2 * b + 6, 2 * b + 90)
        if dims[t, 0] == dims[t, 1]:
            dims[t, 1] += 3
        if dims[t, 1] == dims[t, 2]:
            dims[t, 2] += 5
    tomo = df["tomo_id"].to_numpy()
    c = np.zeros((n, 3))
    zs = np.zeros((n, 3), dtype=bool)     # axes whose shift is forced to 0 (value planted one ulp off a face: x + 0 is exact)
    for r in range(n):
        D = dims[int(np.nonzero(tl == tomo[r])[0][0])]
        p_h = (0.7, 0.2, 0.07, 0.03) if cls in ("oob_multi_tomo", "oob_block_sizes") else (0.2, 0.5, 0.2, 0.1)
        hs = hostile_axes(rng, p_h)
        for a in range(3):
            if not hs[a]:
                c[r, a] = dy(rng, b + 1, D[a] - b - 1.125)
                continue
            if cls == "oob_upper_only":
                kind = rng.choice(["upper", "beyond", "lower_in"], p=[0.6, 0.2, 0.2])
            elif cls == "oob_far":
                kind = rng.choice(["far_beyond", "far_negative", "upper", "lower"], p=[0.3, 0.3, 0.2, 0.2])
            else:
                kind = rng.choice(["lower", "upper", "beyond", "negative"], p=[0.4, 0.4, 0.1, 0.1])
            if mode == "center" and kind in ("lower", "upper") and rng.random() < 0.15:
                # one ulp inside / outside a face; only for b = 0 and zero shift, where no arithmetic is involved
                face = 0.0 if kind == "lower" else D[a]
                c[r, a] = np.nextafter(face, face + (1.0 if rng.random() < 0.5 else -1.0))
                zs[r, a] = True
            elif kind == "lower":
                c[r, a] = b + rng.choice(FACE)
            elif kind == "lower_in":
                c[r, a] = b + rng.choice([0.0, T30, 0.125, 1.0])
            elif kind == "upper":
                c[r, a] = D[a] - b + rng.choice(FACE)
            elif kind == "beyond":
                c[r, a] = D[a] + dy(rng, 0.125, 60)
            elif kind == "negative":
                c[r, a] = -dy(rng, 0.125, 60)
            elif kind == "far_beyond":
                c[r, a] = D[a] + dy(rng, 500, 5000)
            else:
                c[r, a] = -dy(rng, 500, 5000)
    sh = nz_shift(rng, n, zero_frac=0.1)
    sh[zs] = 0.0
    set_positions(df, c, sh)
    n_dup = plant_duplicates(rng, df)
    reprs = ["array_f", "array_i", "df_named", "df_unnamed", "file_int", "file_float", "file_odd"]
    extra_rows = int(rng.integers(0, 3))
    if k == 1 and rng.random() < 0.5:
        reprs = ["list4", "array1d"]
        extra_rows = 0
    r1, r2 = (str(v) for v in rng.choice(reprs, 2, replace=False))
    ext_ids = [float(v) for v in rng.choice(np.arange(100, 140), extra_rows, replace=False)]
    all_ids = np.concatenate([tl, ext_ids])
    all_dims = np.vstack([dims] + [rng.integers(10, 140, (1, 3)).astype(float) for _ in ext_ids])
    # one dimensions DataFrame object re-used over several calls: a 'whole' call first, then the case's own setting
    first_box = box if mode == "whole" else int(rng.choice([2, 4, 5, 8, 11]))
    seq = [("whole", first_box), (mode, box)]
    if pool is not None:
        seq = [("whole", first_box), ("center", None), (mode, box), ("whole", int(rng.choice([3, 6, 10])))]
    p1, p2 = rng.permutation(len(all_ids)), rng.permutation(len(all_ids))
    arr = O.table(df)
    lo, up, _, _ = O.oob_expected(arr, tl, dims, b)
    case = dict(kind="oob", df=df, mode=mode, box=box, b=b, ids=all_ids, dims=all_dims, perm=(p1, p2), reprs=(r1, r2),
                kw=bool(rng.integers(0, 2)), exp_kept=int((lo & up).sum()), n=n, pool=pool, seq=seq, ulp=bool(zs.any()),
                big=bool(n > 300))
    case["summary"] = {"filter": "remove_out_of_bounds_particles", "n": n, "tomograms": k, "boundary_type": mode, "box_size": box,
                       "dims": {str(t): d.tolist() for t, d in zip(tl, dims)}, "dims_repr": [r1, r2], "extra_dim_rows": extra_rows,
                       "expected_kept": case["exp_kept"], "lower_face_only_failures": int((~lo & up).sum()),
                       "upper_failures": int((~up).sum()), "positions_head": head(arr),
                       "shared_table": pool, "reuse_sequence": [list(v) for v in seq],
                       "tomo_id_kind": df.attrs["ids"], "subtomo_id_lift": df.attrs["subtomo_lift"], "duplicate_rows_planted": n_dup,
                       "one_ulp_off_a_face": int(zs.sum())}
    return case


def dims_object(ctx, case, which, tag):
    ids, dims = case["ids"], case["dims"]
    p = case["perm"][which]
    a = np.column_stack([ids[p], dims[p]])
    r = case["reprs"][which]
    v = case["i"] // len(CLASSES) + which
    if r == "array_f":
        # float32 dimension arrays are not generated: /repo compares python floats with np.float32 in float32 precision
        # (positions within ~1e-6 below an upper face are removed) - reported to the lead, waiting for a ruling
        return layout(a.astype(np.float64), v)
    if r == "array_i":
        small = np.abs(a).max() < 2 ** 15
        dt = np.int16 if (small and v % 3 == 0) else np.int32 if (np.abs(a).max() < 2 ** 31 and v % 3 == 1) else np.int64
        return layout(a.astype(dt), v + 1)
    if r in ("df_named", "df_unnamed"):
        f = pd.DataFrame(a, columns=["tomo_id", "x", "y", "z"]) if r == "df_named" else pd.DataFrame(a)
        if v % 2:
            f = f.astype({f.columns[1]: np.int32, f.columns[3]: np.int64})
        f.index = odd_labels(np.random.default_rng([case["i"], which, 11]), len(f))[1]
        return f
    if r == "list4":
        return [float(v) for v in a[0]]
    if r == "array1d":
        return a[0].copy()
    path = odd_path(ctx, case["i"] + which, "dims_%s_%d" % (tag, which), ".txt")
    odd = ["%d", "%d.", "+%d", "%.1f", "%.2e", "%.3E", "%08.3f"]       # 85  85.  +85  85.0  8.50e+01  8.500E+01  0085.000
    with open(path, "w") as f:
        for j, row in enumerate(a):
            if r == "file_int":
                f.write("  ".join("%d" % v for v in row) + "\n")
            elif r == "file_float":
                f.write(" ".join("%.1f" % v for v in row) + "\n")
            else:                        # unusual but valid number spellings, tabs and trailing blanks
                toks = [["%d", "%.1f", "%.10e", "+%d"][(j + which) % 4] % row[0]] + [odd[(j + c + which) % len(odd)] % v for c, v in enumerate(row[1:])]
                f.write(" \t".join(toks) + " \n")
    return path


POOL = 3


def pool_spec(ctx, p):
    """ids and dimensions of the shard's p-th long-lived dimensions table (pure function of the seed)."""
    rng = ctx.rng(10 ** 6 + 10 + p)
    ids = np.sort(rng.choice(np.arange(1, 90), size=4, replace=False)).astype(float)
    dims = rng.integers(40, 130, (4, 3)).astype(float)
    dims[:, 1] += (dims[:, 1] == dims[:, 0]) * 3
    dims[:, 2] += (dims[:, 2] == dims[:, 1]) * 5
    return ids[rng.permutation(4)], dims


def pool_table(ctx, p):
    tabs = ctx.__dict__.setdefault("c09_pool", {})
    if p not in tabs:
        ids, dims = pool_spec(ctx, p)
        a = np.column_stack([ids, dims])
        tabs[p] = pd.DataFrame(a, columns=["tomo_id", "x", "y", "z"]) if p % 2 == 0 else pd.DataFrame(a)
        register_dims(tabs[p])
    return tabs[p]


def run_oob_reuse(ctx, case):
    """Several calls that share ONE dimensions DataFrame object; every call is judged (by the call monitors) against the
    table's original values, and the table must still equal its pristine copy afterwards."""
    cm = ctx.cm
    if case["pool"] is not None:
        D = pool_table(ctx, case["pool"])
    else:
        a = np.column_stack([case["ids"][case["perm"][0]], case["dims"][case["perm"][0]]])
        D = pd.DataFrame(a, columns=["tomo_id", "x", "y", "z"]) if (case["i"] // len(CLASSES)) % 4 == 0 else pd.DataFrame(a)
        D.index = odd_labels(np.random.default_rng([case["i"], 12]), len(D))[1]
        register_dims(D)
    pristine = _PRISTINE[id(D)][3]
    try:
        for step, (mode, box) in enumerate(case["seq"]):
            ok, m = ctx.call("Motl(df)", cm.Motl, case["df"].copy())
            if not ok:
                return
            ok, _ = ctx.call("remove_out_of_bounds_particles", m.remove_out_of_bounds_particles, D, mode, box)
            now = None
            try:
                now = D.to_numpy(dtype=np.float64)
            except Exception:
                pass
            same = now is not None and now.shape == pristine.shape and np.array_equal(now, pristine)
            w = None
            if not same:
                w = {"call": "remove_out_of_bounds_particles(<DataFrame>, %r, %r)" % (mode, box), "step_in_sequence": step,
                     "shared_table": case["pool"], "table_before_first_use": pristine[:4].tolist(),
                     "table_now": now[:4].tolist() if now is not None else None}
            ctx.check("dims_unchanged", same, w)
            if not ok:
                return
    finally:
        if case["pool"] is None:
            _PRISTINE.pop(id(D), None)


def run_oob_history(ctx, case):
    """call with an ndarray A; modify A in place; call again with A; restore A in place; call again.  Every call is judged
    against the values A holds at that moment (the call monitor parses the argument when the call is made)."""
    cm = ctx.cm
    A = np.column_stack([case["ids"], case["dims"]]).astype(np.float64)
    orig = A.copy()
    for step in range(3):
        if step == 1:
            A[:, 1:] -= np.array([3.0, 0.0, 7.0])
            A[:, 1:] = np.maximum(A[:, 1:], 1.0)
        elif step == 2:
            A[:] = orig
        ok, m = ctx.call("Motl(df)", cm.Motl, case["df"].copy())
        if not ok:
            return
        ok, _ = ctx.call("remove_out_of_bounds_particles", m.remove_out_of_bounds_particles, A, case["mode"], case["box"])
        if not ok:
            return


def run_oob(ctx, case):
    phase = (case["i"] // len(CLASSES)) % 3
    if not case["big"]:
        if case["pool"] is not None or phase == 0:
            run_oob_reuse(ctx, case)
        elif phase == 1:
            run_oob_history(ctx, case)
    cm = ctx.cm
    rng = ctx.rng(case["i"], 1)
    got = []
    for which in (0, 1):
        if which == 1 and case["big"]:
            return
        df = case["df"].copy()
        if which == 1 and not case["ulp"]:   # same complete positions, different x/shift split
            arr = O.table(df)
            set_positions(df, O.positions(arr), nz_shift(rng, len(df), amp=6.0))
        ok, m = ctx.call("Motl(df)", cm.Motl, df)
        if not ok:
            return
        d = dims_object(ctx, case, which, str(case["i"]))
        if case["mode"] == "center" and not case["kw"]:
            ok, _ = ctx.call("remove_out_of_bounds_particles", m.remove_out_of_bounds_particles, d)
        elif case["kw"]:
            ok, _ = ctx.call("remove_out_of_bounds_particles", m.remove_out_of_bounds_particles, dimensions=d,
                             boundary_type=np.str_(case["mode"]) if case["i"] % 5 == 0 else case["mode"],
                             box_size=as_num(case["i"] + which, case["box"]))
        else:
            ok, _ = ctx.call("remove_out_of_bounds_particles", m.remove_out_of_bounds_particles, d, case["mode"],
                             as_num(case["i"] + which, case["box"]))
        if not ok:
            return
        got.append(m.df["subtomo_id"].to_numpy(dtype=float).tolist())
    ctx.check("oob_repr_invariance", got[0] == got[1],
              {"dims_repr": list(case["reprs"]), "kept_ids_first": got[0][:20], "kept_ids_second": got[1][:20],
               "only_first": sorted(set(got[0]) - set(got[1]))[:10], "only_second": sorted(set(got[1]) - set(got[0]))[:10]})


# ---- generator: trimming -----------------------------------------------------------------------------
def gen_trim(ctx, rng, cls, i):
    k = int(rng.integers(1, 4))
    n = n_particles(ctx, rng)
    if cls == "trim_block_sizes":
        n = 2 ** 16 + 1 if rng.random() < 0.08 else block_size(ctx, rng, 12, 12)
    df, tl = base_table(rng, n, k)
    D = rng.integers(30, 130, 3).astype(float)
    start = np.array([rng.integers(1, int(D[a] // 2)) for a in range(3)], dtype=float)
    for a in range(3):                        # no offset on some axes (start == 1) ...
        if rng.random() < 0.2:
            start[a] = 1.0
    if cls == "trim_start_one":               # ... and on all three: the box only cuts the far side
        start[:] = 1.0
    end = np.array([rng.integers(int(start[a]), int(D[a]) + 1) for a in range(3)], dtype=float)
    if cls == "trim_start_one":
        end = np.array([rng.integers(3, int(D[a]) + 1) for a in range(3)], dtype=float)
    if rng.random() < 0.12:
        a = int(rng.integers(0, 3))
        end[a] = start[a]
    frac = rng.random() < 0.12 and cls != "trim_start_one"
    if frac:
        start += rng.choice([0.0, 0.5, 0.25], 3)
        end = np.maximum(end + rng.choice([0.0, 0.5, 0.75], 3), start)
    x = np.zeros((n, 3))
    n_ulp = 0
    for r in range(n):
        hs = hostile_axes(rng, (0.2, 0.5, 0.2, 0.1)) if cls in ("trim_faces", "trim_start_one", "trim_block_sizes") else np.zeros(3, dtype=bool)
        for a in range(3):
            if cls == "trim_start_one" and hs[a] and rng.random() < 0.15:
                face = start[a] if rng.random() < 0.5 else end[a]      # one ulp off a face (offset 0: x' == x exactly)
                x[r, a] = np.nextafter(face, face + (1.0 if rng.random() < 0.5 else -1.0))
                n_ulp += 1
            elif cls == "trim_random" and not hs[a]:
                x[r, a] = dy(rng, -10, D[a] + 10) if rng.random() < 0.35 else dy(rng, start[a], end[a])
            elif not hs[a]:
                x[r, a] = dy(rng, start[a], end[a])
            else:
                kind = rng.choice(["lo", "hi", "out", "below"], p=[0.4, 0.4, 0.1, 0.1])
                if kind == "lo":
                    x[r, a] = start[a] + rng.choice([-1.0, -0.125, -T22, -T30, 0.0, T30, 0.125])
                elif kind == "hi":
                    x[r, a] = end[a] + rng.choice([-0.125, -T30, 0.0, T30, T22, 0.125, 1.0])
                elif kind == "out":
                    x[r, a] = end[a] + dy(rng, 1, 40)
                else:
                    x[r, a] = start[a] - dy(rng, 1, 60)
    s = nz_shift(rng, n, amp=3.0)
    for a, (cx, cs) in enumerate(zip(("x", "y", "z"), ("shift_x", "shift_y", "shift_z"))):
        df[cx] = x[:, a]
        df[cs] = s[:, a]
    n_dup = plant_duplicates(rng, df)
    # a second box inside the trimmed volume for the composition oracle
    td = end - start + 1
    s2 = np.array([rng.integers(1, max(2, int(td[a] // 2) + 1)) for a in range(3)], dtype=float)
    e2 = np.array([rng.integers(int(s2[a]), max(int(s2[a]) + 1, int(td[a]) + 1)) for a in range(3)], dtype=float)
    argt = str(rng.choice(["list", "tuple", "array_i", "array_f"])) if not frac else str(rng.choice(["list", "array_f"]))
    if cls == "trim_start_one":
        argt = ["list", "tuple", "array_i", "array_f"][(i // len(CLASSES)) % 4]
        if rng.random() < 0.5:
            s2[:] = 1.0                       # the second and the composed box then start at (1,1,1) too
            e2 = np.array([rng.integers(1, int(td[a]) + 1) for a in range(3)], dtype=float)
    arr = O.table(df)
    keep, _ = O.trim_expected(arr, start, end)
    case = dict(kind="trim", df=df, start=start, end=end, s2=s2, e2=e2, argt=argt, exp_kept=int(keep.sum()), n=n)
    case["summary"] = {"filter": "adapt_to_trimming", "n": n, "tomograms": k, "start": start.tolist(), "end": end.tolist(),
                       "second_box": [s2.tolist(), e2.tolist()], "arg_type": argt, "expected_kept": case["exp_kept"],
                       "xyz_head": np.round(x[:3], 3).tolist(), "tomo_id_kind": df.attrs["ids"], "subtomo_id_lift": df.attrs["subtomo_lift"],
                       "duplicate_rows_planted": n_dup, "one_ulp_off_a_face": n_ulp}
    return case


def _vecarg(v, argt):
    integral = bool(np.all(v == np.round(v)))
    if argt == "list":
        return [int(t) if integral else float(t) for t in v]
    if argt == "tuple":
        return tuple(int(t) if integral else float(t) for t in v)
    if argt == "array_i" and integral:
        k = int(v.sum()) % 4
        return layout(v.astype([np.int64, np.int32, np.int16, np.int64][k]), [0, 4, 2, 3][k])
    k = int(v.sum() * 8) % 4
    dt = np.float32 if (k == 1 and np.all(v.astype(np.float32) == v)) else np.float64
    return layout(v.astype(dt), [0, 4, 2, 3][k])


def run_trim_history(ctx, case):
    """call with arrays S, E; modify both in place; call again with the same objects (each call judged at call time)."""
    cm = ctx.cm
    S, E = case["start"].astype(np.float64), case["end"].astype(np.float64)
    for step in range(3):
        if step == 1:
            S += 1.0
            E -= np.array([0.0, 2.0, 1.0])
            np.maximum(E, S, out=E)
        elif step == 2:
            S[:] = case["start"]
            E[:] = case["end"]
        ok, m = ctx.call("Motl(df)", cm.Motl, case["df"].copy())
        if not ok:
            return
        ok, _ = ctx.call("adapt_to_trimming", m.adapt_to_trimming, S, E)
        if not ok:
            return


def run_trim(ctx, case):
    cm = ctx.cm
    if (case["i"] // len(CLASSES)) % 3 == 1 and case["n"] < 5000:
        run_trim_history(ctx, case)
    ok, m = ctx.call("Motl(df)", cm.Motl, case["df"].copy())
    if not ok:
        return
    ok, _ = ctx.call("adapt_to_trimming", m.adapt_to_trimming, _vecarg(case["start"], case["argt"]), _vecarg(case["end"], case["argt"]))
    if not ok:
        return
    # composition: (s1,e1) then (s2,e2)  ==  one trimming by the composed box
    s1, e1, s2, e2 = case["start"], case["end"], case["s2"], case["e2"]
    ok, _ = ctx.call("adapt_to_trimming", m.adapt_to_trimming, _vecarg(s2, case["argt"]), _vecarg(e2, case["argt"]))
    if not ok:
        return
    sc = s1 + s2 - 1
    ec = sc - 1 + np.minimum(e2 - s2 + 1, e1 - s1 - s2 + 2)
    ok, m2 = ctx.call("Motl(df)", cm.Motl, case["df"].copy())
    if not ok:
        return
    ok, _ = ctx.call("adapt_to_trimming", m2.adapt_to_trimming, _vecarg(sc, "array_f"), _vecarg(ec, "array_f"))
    if not ok:
        return
    a = m.df[["subtomo_id", "x", "y", "z"]].to_numpy(dtype=float)
    b = m2.df[["subtomo_id", "x", "y", "z"]].to_numpy(dtype=float)
    a, b = a[np.lexsort(a.T[::-1])], b[np.lexsort(b.T[::-1])]
    ctx.check("trim_compose", a.shape == b.shape and np.array_equal(a, b),
              {"first": [s1.tolist(), e1.tolist()], "second": [s2.tolist(), e2.tolist()], "composed": [sc.tolist(), ec.tolist()],
               "kept_two_steps": int(len(a)), "kept_one_step": int(len(b)), "two_steps_head": a[:3].tolist(), "one_step_head": b[:3].tolist()})


# ---- generator: reference points -------------------------------------------------------------------
def gen_dist(ctx, rng, cls, i):
    k = int(rng.integers(1, 5)) if cls != "dist_cross_tomo" else int(rng.integers(2, 5))
    n = n_particles(ctx, rng)
    if cls == "dist_block_sizes":
        k = int(rng.integers(1, 3))
        n = block_size(ctx, rng, 8, 11)
    df, tl = base_table(rng, n, k)
    c = dy(rng, 0, 70, (n, 3))
    amp = 12.0 if cls == "dist_shifted" else 3.0
    s = nz_shift(rng, n, amp=amp)
    set_positions(df, c, s)
    n_dup = plant_duplicates(rng, df)
    arr0 = O.table(df)
    c, x, tomo = O.positions(arr0), arr0[:, O.IX:O.IX + 3].copy(), arr0[:, O.ITOMO].copy()
    r = float(dy(rng, 1.5, 9.0))                                   # multiple of 1/8 like every coordinate
    tie_bases = []
    if cls == "dist_exact_tie":
        m = 5 * int(rng.integers(3, 15))                              # r = m/8 in [1.875, 8.75]
        if rng.random() < 0.4:
            m = 15 * int(rng.integers(1, 5))
        r = m / 8.0
        tie_bases = [(1, 0, 0, 1), (3, 4, 0, 5), (0, 3, 4, 5)] + ([(1, 2, 2, 3), (2, 1, 2, 3), (2, 10, 11, 15), (5, 10, 10, 15)] if m % 15 == 0 else [])
    pts = []
    for j in range(n if tie_bases else 0):                            # points at distance EXACTLY r from the complete position
        if rng.random() < 0.5:
            b = tie_bases[int(rng.integers(0, len(tie_bases)))]
            off = np.array(b[:3], dtype=float)[rng.permutation(3)] * rng.choice([-1.0, 1.0], 3) * (m // b[3]) / 8.0
            t = tomo[j]
            if k > 1 and rng.random() < 0.2:                          # exactly at the radius, but in another tomogram: must stay
                t = float(rng.choice([q for q in tl if q != t]))
            pts.append([t, c[j, 0] + off[0], c[j, 1] + off[1], c[j, 2] + off[2]])
    n_pts = int(rng.integers(0, 2 + n // 2)) if rng.random() < 0.9 else 0
    blocks = None
    if cls == "dist_block_sizes":
        # more than 1024 reference points in a tomogram, counts around / off the powers of two; the only close points of
        # some particles are the LAST rows of their tomogram's point set, of others the first rows
        n_pts = 0
        blocks = {}
        sizes = [1025, 1027, 1500, 2049, 2500] + ([3000, 4097, 5000] if ctx.tier == "thorough" else [])
        for t in tl:
            npt = int(rng.choice(sizes)) if rng.random() < 0.75 else int(rng.choice([1023, 1024, 2048, 129, 64]))
            B = np.column_stack([np.full(npt, t), dy(rng, 300, 900, (npt, 3))])          # filler far from every particle
            mine = np.nonzero(tomo == t)[0]
            chosen = rng.permutation(mine)[:min(len(mine), 24)]
            tail = max(1, min(npt % 1024 if npt > 1024 else 6, 6))
            for q, j in enumerate(chosen):
                v = rng.normal(size=3)
                v /= np.linalg.norm(v)
                pt = np.round((c[j] + v * r * float(rng.choice([0.0, 0.3, 0.8]))) * 8) / 8
                row = npt - 1 - int(rng.integers(0, tail)) if q % 2 == 0 else int(rng.integers(0, min(npt, 50)))
                B[row, 1:] = pt
            blocks[float(t)] = B
        order = rng.permutation(np.concatenate([np.full(len(B), j) for j, B in enumerate(blocks.values())]))
        its = [iter(B) for B in blocks.values()]
        pts = [next(its[j]).tolist() for j in order]               # tomograms interleaved, each one's row order preserved
    empty_tomo = tl[int(rng.integers(0, k))] if (cls == "dist_cross_tomo" and rng.random() < 0.6) else None
    for _ in range(n_pts):
        u = rng.random()
        j = int(rng.integers(0, n))
        if u < 0.7:
            v = rng.normal(size=3)
            v /= np.linalg.norm(v)
            f = float(rng.choice([0.0, 0.2, 0.6, 0.9, 0.97, 1.03, 1.1, 1.5, 2.5]))
            base = x[j] if (cls == "dist_shifted" and rng.random() < 0.4) else c[j]
            p = np.round((base + v * r * f) * 8) / 8
            t = tomo[j]
            if cls == "dist_cross_tomo" and rng.random() < 0.5:
                others = [q for q in tl if q != t]
                t = float(rng.choice(others)) if rng.random() < 0.8 else float(rng.integers(200, 220))
        else:
            p = dy(rng, 0, 70, 3)
            t = float(rng.choice(tl))
        if empty_tomo is not None and t == empty_tomo:
            continue
        pts.append([t, p[0], p[1], p[2]])
    P = np.array(pts, dtype=float).reshape(-1, 4)
    arr = O.table(df)
    r_small = max(0.125, float(np.round(r * rng.choice([0.35, 0.5, 0.8]) * 8) / 8))
    removed, margin, ties = O.dist_expected(arr, tomo, P[:, 1:], P[:, 0], r)
    margin = min(margin, O.dist_expected(arr, tomo, P[:, 1:], P[:, 0], r_small)[1])
    split = rng.random(len(P)) < 0.5
    case = dict(kind="dist", df=df, P=P, r=r, r_small=r_small, split=split, inplace=bool(rng.integers(0, 2)),
                out_file=bool(rng.random() < 0.4), kw=bool(rng.integers(0, 2)), colperm=rng.permutation(5),
                int_ids=bool(rng.integers(0, 2)), exp_kept=int((~removed).sum()), n=n, near_tie=bool(margin < TIE),
                big=blocks is not None, pts_cols=str(rng.choice(["bare", "shifts", "motl", "motl_order"], p=[0.3, 0.25, 0.25, 0.2])),
                pts_int_xyz=bool(rng.random() < 0.3))
    case["summary"] = {"filter": "clean_by_distance_to_points", "n": n, "tomograms": k, "points": int(len(P)), "radius": r,
                       "radius_small": r_small, "points_per_tomo": {str(t): int((P[:, 0] == t).sum()) for t in tl},
                       "points_in_foreign_tomograms": int((~np.isin(P[:, 0], tl)).sum()), "inplace": case["inplace"],
                       "expected_removed": int(removed.sum()), "exact_tie_pairs": int(ties), "positions_head": head(arr), "points_head": P[:3].tolist(),
                       "tomo_id_kind": df.attrs["ids"], "subtomo_id_lift": df.attrs["subtomo_lift"], "duplicate_rows_planted": n_dup, "output_file": case["out_file"],
                       "points_table_columns": case["pts_cols"]}
    return case


def points_frame(case, P, rng):
    """The reference points are the documented columns x, y, z (+ the grouping column).  The table may carry any other
    columns: a score, shift_x/y/z (another list's .df handed over as points) or all 20 particle fields; they do not move
    the points."""
    d = {"tomo_id": P[:, 0].astype(np.int64) if case["int_ids"] else P[:, 0], "x": P[:, 1], "y": P[:, 2], "z": P[:, 3],
         "score": rng.random(len(P))}
    kind = case["pts_cols"]
    if kind == "bare":
        names = [list(d)[j] for j in case["colperm"]]
    else:
        sh = nz_shift(rng, len(P), amp=8.0)
        d.update({"shift_x": sh[:, 0], "shift_y": sh[:, 1], "shift_z": sh[:, 2]})
        if kind == "motl":
            for c in O.COLS:
                if c not in d:
                    d[c] = np.round(rng.uniform(0, 5, len(P)), 3)
        names = [list(d)[j] for j in rng.permutation(len(d))]
        if kind == "motl_order":
            for c in O.COLS:
                if c not in d:
                    d[c] = np.zeros(len(P))
            names = list(O.COLS)
    f = pd.DataFrame({c: d[c] for c in names})
    if case["pts_int_xyz"] and len(P) and np.all(P[:, 1:] == np.round(P[:, 1:])):
        for c in ("x", "y", "z"):
            f[c] = f[c].astype(np.int32)
    f.index = odd_labels(rng, len(f))[1] if len(f) else f.index
    return f


def run_dist(ctx, case):
    cm = ctx.cm
    rng = ctx.rng(case["i"], 1)
    all_ids = set(case["df"]["subtomo_id"].tolist())

    def removed_by(P, r, inplace, out_file=None, kw=False):
        ok, m = ctx.call("Motl(df)", cm.Motl, case["df"].copy())
        if not ok:
            return None
        pf = points_frame(case, P, rng)
        if kw:
            ok, res = ctx.call("clean_by_distance_to_points", m.clean_by_distance_to_points, points=pf, radius_in_voxels=as_num(case["i"], r),
                               feature_id="tomo_id", inplace=as_flag(case["i"], inplace), output_file=out_file)
        else:
            ok, res = ctx.call("clean_by_distance_to_points", m.clean_by_distance_to_points, pf, as_num(case["i"] + 2, r),
                               inplace=as_flag(case["i"] + 3, inplace), output_file=out_file)
        if not ok:
            return None
        out = m.df if inplace else res.df
        return all_ids - set(out["subtomo_id"].tolist())

    P = case["P"]
    if case["near_tie"]:                      # cannot happen on the 1/8 lattice; kept as a guard
        ctx.ood("dist_exact")
        return
    of = odd_path(ctx, case["i"], "dist_%d" % case["i"], ".em") if case["out_file"] else None
    R = removed_by(P, case["r"], case["inplace"], of, case["kw"])
    if R is not None and case["big"]:     # large point sets once more, other (inplace, output_file) combination
        removed_by(P, case["r"], not case["inplace"], None if of else odd_path(ctx, case["i"] + 1, "dist_%d_b" % case["i"], ".em"), not case["kw"])
    if R is None or case["big"] or len(P) == 0:
        return
    if (case["i"] // len(CLASSES)) % 3 == 1:
        # history: one caller-owned points table; call, move the points in place, call again, move back, call again
        pf = points_frame(case, P, rng)
        for step, dx in enumerate((0.0, 2.0, -2.0)):
            pf["x"] = pf["x"].to_numpy() + dx              # same table object, labels may repeat
            ok, m = ctx.call("Motl(df)", cm.Motl, case["df"].copy())
            if not ok:
                return
            ok, _ = ctx.call("clean_by_distance_to_points", m.clean_by_distance_to_points, pf, case["r"],
                             inplace=bool(step % 2), output_file=(of[:-3] + "_h%d.em" % step) if of else None)
            if not ok:
                return
    if case["i"] % 3 == 2:
        return
    R1 = removed_by(P[case["split"]], case["r"], not case["inplace"], (of[:-3] + "_p1.em") if of else None)
    R2 = removed_by(P[~case["split"]], case["r"], case["inplace"])
    Rs = removed_by(P, case["r_small"], False)
    if R1 is None or R2 is None or Rs is None:
        return
    ctx.check("dist_union_monotone", R == (R1 | R2) and Rs <= R,
              {"radius": case["r"], "radius_small": case["r_small"], "removed_all_points": len(R), "removed_part1": len(R1),
               "removed_part2": len(R2), "union_minus_all": sorted((R1 | R2) - R)[:8], "all_minus_union": sorted(R - (R1 | R2))[:8],
               "small_radius_not_subset": sorted(Rs - R)[:8]})


# ---- generator: tomogram masks ----------------------------------------------------------------------
def gen_mask(ctx, rng, cls, i):
    k = int(rng.integers(1, 5))
    if cls in ("mask_files_multi", "mask_single_partial"):
        k = int(rng.integers(2, 5))
    n = n_particles(ctx, rng)
    if cls == "mask_block_sizes":
        n = block_size(ctx, rng, 11, 12)
        k = int(rng.integers(1, 4))
    df, tl = base_table(rng, n, k)
    n_listed = k if cls in ("mask_inside", "mask_files_multi") or rng.random() < 0.5 else int(rng.integers(1, k + 1))
    if cls == "mask_single_partial" and k > 1:
        n_listed = int(rng.integers(1, k))
    listed = [float(t) for t in rng.permutation(tl)[:n_listed]]
    if cls == "mask_single_partial" and rng.random() < 0.5:
        listed.insert(int(rng.integers(0, len(listed) + 1)), float(rng.integers(300, 320)))      # a tomogram without particles
    single = cls == "mask_single_partial" or (cls in ("mask_inside", "mask_outside") and rng.random() < 0.4)
    tl_kind = str(rng.choice(["array_f", "array_i", "list", "file"]))
    if tl_kind == "file" and max(listed) > 2 ** 24:
        tl_kind = "array_f"               # list FILES are read as float32 by ioutils.tlt_load: such ids only as arrays/lists
    if tl_kind == "file":
        listed = sorted(listed)
    n_masks = 1 if single else len(listed)
    shapes = [tuple(int(v) for v in rng.integers(5, 26, 3)) for _ in range(n_masks)]
    masks = []
    for sh in shapes:
        u = rng.random()
        if u < 0.7:
            m = (rng.random(sh) < rng.uniform(0.25, 0.75)).astype(np.int8)
        elif u < 0.9:
            m = np.zeros(sh, dtype=np.int8)
            a = int(rng.integers(0, 3))
            sl = [slice(None)] * 3
            sl[a] = slice(0, int(rng.integers(1, sh[a])))
            m[tuple(sl)] = 1
        else:
            m = np.ones(sh, dtype=np.int8) if rng.random() < 0.5 else np.zeros(sh, dtype=np.int8)
        masks.append(m)
    if cls == "mask_files_multi":
        storage = [str(rng.choice(["mrc_f4", "mrc_i1", "em_f4", "em_i1"])) for _ in masks]
    else:
        storage = [str(rng.choice(["f8", "f4", "i1", "u1", "i8", "mrc_f4", "em_f4"], p=[0.25, 0.15, 0.15, 0.1, 0.1, 0.15, 0.1])) for _ in masks]
    tomo = df["tomo_id"].to_numpy()
    c = np.zeros((n, 3))
    zs = np.zeros((n, 3), dtype=bool)     # zero shift where the position is planted one ulp below a voxel boundary
    for r in range(n):
        t = tomo[r]
        sh = shapes[0] if (single or t not in listed) else shapes[listed.index(t)]
        out_kind = None
        if cls != "mask_inside" and rng.random() < 0.5:
            out_kind = rng.choice(["above", "below", "both"], p=[0.45, 0.45, 0.1])
        oa = rng.permutation(3)[:int(rng.integers(1, 3))] if out_kind is not None else []
        for a in range(3):
            S = sh[a]
            if a in oa:
                kind = out_kind if out_kind != "both" else ("above" if rng.random() < 0.5 else "below")
                if kind == "above":
                    c[r, a] = S + rng.choice([0.0, T30, 0.125, 0.875, 1.0, float(dy(rng, 1, 30))])
                else:
                    c[r, a] = -rng.choice([1.0, 1.0 + T30, 1.125, 1.5, 2.0, float(dy(rng, 1, 30))])
            else:
                u = rng.random()
                kb = float(rng.integers(1, S + 1))                     # a voxel boundary inside the volume (or its upper face)
                if u < 0.08:
                    c[r, a] = np.nextafter(kb, 0.0)                    # one ulp below: still voxel kb - 1
                    zs[r, a] = True
                elif u < 0.2:
                    c[r, a] = kb - rng.choice([T30, T22])              # 1e-9 .. 2.4e-7 below a boundary: voxel kb - 1
                elif u < 0.28:
                    c[r, a] = min(kb, S - 1.0) + rng.choice([0.0, T30])
                else:
                    c[r, a] = rng.choice([0.0, 0.125, 0.875, S - 1.0, S - 0.125]) if u < 0.5 else dy(rng, 0, S - 0.125)
    sh3 = nz_shift(rng, n, amp=3.0)
    sh3[zs] = 0.0
    set_positions(df, c, sh3)
    n_dup = plant_duplicates(rng, df, keep_ids_unique=True)
    arr = O.table(df)
    tomo = arr[:, O.ITOMO].copy()
    per = [masks[0].astype(float)] * len(listed) if single else [m.astype(float) for m in masks]
    removed, inside, gap = O.mask_expected(arr, np.array(listed), per)
    case = dict(kind="mask", df=df, listed=listed, single=single, masks=masks, storage=storage, tl_kind=tl_kind,
                inplace=bool(rng.integers(0, 2)), out_file=bool(rng.random() < 0.4), exp_kept=int((~removed).sum()), n=n, gap=gap,
                big=bool(n > 600))
    case["summary"] = {"filter": "clean_by_tomo_mask", "n": n, "tomograms": k, "listed": listed, "tomo_list_kind": tl_kind,
                       "single_mask": single, "mask_shapes": [list(s) for s in shapes], "storage": storage,
                       "mask_zero_fraction": [round(float((m == 0).mean()), 3) for m in masks], "inplace": case["inplace"],
                       "expected_removed": int(removed.sum()), "inside_volume": int(inside.sum()),
                       "outside_volume_listed": int((np.isin(tomo, listed) & ~inside).sum()), "positions_head": head(arr),
                       "tomo_id_kind": df.attrs["ids"], "subtomo_id_lift": df.attrs["subtomo_lift"], "same_position_pairs_planted": n_dup,
                       "one_ulp_below_a_voxel_boundary": int(zs.sum()), "output_file": case["out_file"]}
    return case


def mask_object(ctx, m, storage, slot):
    """Mask files live in a small pool of RE-USED paths (slot = position in the call's mask list): the same path is
    rewritten with other content by later calls of the same case and by later cases."""
    if storage in ("f8", "f4", "i1", "u1", "i8"):
        a = m.astype({"f8": np.float64, "f4": np.float32, "i1": np.int8, "u1": np.uint8, "i8": np.int64}[storage])
        ctx.c09_n = getattr(ctx, "c09_n", 0) + 1
        v = ctx.c09_n
        if storage == "i8" and v % 3 == 0:
            a = a.astype([np.int16, np.int32, np.bool_][(v // 3) % 3])
        return layout(a, v)
    kind, dt = storage.split("_")
    path = odd_path(ctx, slot, "maskpool", "." + kind, relative=slot % 2 == 0)
    if kind == "mrc":
        files.write_mrc_raw(path, m, mode=2 if dt == "f4" else 0)
    else:
        files.write_em_raw(path, m, code=5 if dt == "f4" else 1)
    return path


def run_mask(ctx, case):
    cm = ctx.cm
    if case["gap"]:
        ctx.ood("mask_exact")
        return
    all_ids = set(case["df"]["subtomo_id"].tolist())
    listed = case["listed"]
    if case["tl_kind"] == "array_f":
        tl = np.array(listed, dtype=np.float64)
    elif case["tl_kind"] == "array_i":
        tl = np.array(listed, dtype=np.int64)
    elif case["tl_kind"] == "list":
        tl = [float(t) for t in listed]
    else:
        tl = odd_path(ctx, case["i"], "tomos_%d" % case["i"], ".txt")
        with open(tl, "w") as f:
            f.write("".join("%d\n" % t for t in listed))

    def removed_by(masks, storage, inplace, tag, out_file=None):
        ok, m = ctx.call("Motl(df)", cm.Motl, case["df"].copy())
        if not ok:
            return None
        objs = [mask_object(ctx, mm, st, j) for j, (mm, st) in enumerate(zip(masks, storage))]
        arg = objs[0] if case["single"] else objs
        ok, res = ctx.call("clean_by_tomo_mask", m.clean_by_tomo_mask, tl, arg, inplace=as_flag(case["i"] + len(tag), inplace), output_file=out_file)
        if not ok:
            return None
        out = m.df if inplace else res.df
        return all_ids - set(out["subtomo_id"].tolist())

    of = odd_path(ctx, case["i"], "mask_out_%d" % case["i"], ".em") if case["out_file"] else None
    R = removed_by(case["masks"], case["storage"], case["inplace"], "m", of)
    on_disk = any("_" in st for st in case["storage"])
    if R is None or case["big"]:
        return
    if (case["i"] // len(CLASSES)) % 3 == 1:
        # history: caller-owned mask arrays; call, invert them in place, call again, invert back, call again
        own = [m.astype(np.float32) for m in case["masks"]]
        for step in range(3):
            if step:
                for m_ in own:
                    m_[...] = 1 - m_
            ok, mo = ctx.call("Motl(df)", cm.Motl, case["df"].copy())
            if not ok:
                return
            ok, _ = ctx.call("clean_by_tomo_mask", mo.clean_by_tomo_mask, tl, own[0] if case["single"] else own,
                             inplace=bool(step % 2), output_file=(of[:-3] + "_h%d.em" % step) if of else None)
            if not ok:
                return
    if case["i"] % 3 == 2 and not on_disk:
        return
    # the complement is written to the SAME paths (call, rewrite the file, call again)
    arrs = ["f8"] * len(case["masks"])
    Rc = removed_by([1 - m for m in case["masks"]], case["storage"], not case["inplace"], "c", (of[:-3] + "_c.em") if of else None)
    R0 = removed_by([np.zeros_like(m) for m in case["masks"]], arrs, False, "z")
    R1 = removed_by([np.ones_like(m) for m in case["masks"]], arrs, True, "o")
    if Rc is None or R0 is None or R1 is None:
        return
    ctx.check("mask_complement", not (R & Rc) and (R | Rc) == R0 and not R1,
              {"removed_mask": len(R), "removed_complement": len(Rc), "removed_all_zero": len(R0), "removed_all_one": len(R1),
               "in_both": sorted(R & Rc)[:8], "zero_mask_minus_union": sorted(R0 - (R | Rc))[:8], "union_minus_zero_mask": sorted((R | Rc) - R0)[:8]})


# ---- flow: the four filters applied one after the other to ONE list object -----------------------------
FLOW_ORDERS = [("oob", "trim", "dist", "mask"), ("trim", "dist", "mask", "oob"), ("trim", "mask", "oob", "dist"), ("oob", "trim", "mask", "dist")]


def gen_flow(ctx, rng, cls, i):
    k = int(rng.integers(1, 4))
    n = n_particles(ctx, rng, lo=4)
    df, tl = base_table(rng, n, k)
    dims = rng.integers(40, 90, (k, 3)).astype(float)
    tomo = df["tomo_id"].to_numpy()
    own = np.array([dims[int(np.nonzero(tl == t)[0][0])] for t in tomo])
    c = np.round(rng.uniform(-4, 1, (n, 3)) * 8) / 8
    inside = rng.random((n, 3)) < 0.85
    c = np.where(inside, np.round(rng.uniform(0, 1, (n, 3)) * own * 8) / 8, np.where(rng.random((n, 3)) < 0.5, c, own + np.abs(c)))
    s = dy(rng, -0.875, 0.875, (n, 3))
    s[s == 0] = 0.25
    set_positions(df, c, s)
    plant_duplicates(rng, df, keep_ids_unique=True)
    mode = "center" if rng.random() < 0.5 else "whole"
    box = None if mode == "center" else int(rng.choice([2, 4, 5]))
    start = rng.integers(1, 7, 3).astype(float)
    end = dims.min(axis=0) - rng.integers(0, 10, 3)
    off = start - 1
    r = float(dy(rng, 1.5, 6.0))
    arr = O.table(df)
    pos = O.positions(arr)
    pts = []
    for j in rng.permutation(n)[:max(1, n // 3)]:
        v = rng.normal(size=3)
        v /= np.linalg.norm(v)
        pp = np.round((pos[j] - off + v * r * float(rng.choice([0.0, 0.5, 0.9, 1.2, 2.0]))) * 8) / 8
        pts.append([arr[j, O.ITOMO], pp[0], pp[1], pp[2]])
    shape = tuple(int(v) for v in np.maximum(4, end - start + 1 + rng.integers(-3, 4, 3)))
    mask = (rng.random(shape) < 0.6).astype(np.int8)
    lo, up, _, _ = O.oob_expected(arr, tl, dims, O.half_box(mode, box))
    f32 = bool(np.all(arr[:, [O.ISUB, O.ITOMO]].astype(np.float32) == arr[:, [O.ISUB, O.ITOMO]]))
    case = dict(kind="flow", df=df, ids=tl, dims=dims, mode=mode, box=box, start=start, end=end, P=np.array(pts, dtype=float).reshape(-1, 4),
                r=r, mask=mask, order=FLOW_ORDERS[(i // len(CLASSES)) % len(FLOW_ORDERS)], loaded=bool(f32 and rng.random() < 0.5),
                exp_kept=int((lo & up).sum()), n=n, int_ids=False, pts_cols=str(rng.choice(["bare", "shifts", "motl_order"])), pts_int_xyz=False,
                colperm=rng.permutation(5))
    case["summary"] = {"filter": "chain " + " > ".join(case["order"]), "n": n, "tomograms": k, "dims": dims.tolist(), "boundary_type": mode,
                       "box_size": box, "trim": [start.tolist(), end.tolist()], "points": len(pts), "radius": r, "mask_shape": list(shape),
                       "through_em_file_and_loader": case["loaded"], "positions_head": head(arr), "tomo_id_kind": df.attrs["ids"]}
    return case


def run_flow(ctx, case):
    """Objects produced by one anchored function are fed into the next: the list a loader returned, the list object as
    adapt_to_trimming / remove_out_of_bounds_particles left it (labels with gaps), the Motl returned by inplace=False calls.
    Every call is judged by the call monitors against the state the object has when the call is made."""
    cm = ctx.cm
    rng = ctx.rng(case["i"], 1)
    i = case["i"]
    ok, m = ctx.call("Motl(df)", cm.Motl, case["df"].copy())
    if not ok:
        return
    if case["loaded"]:
        path = odd_path(ctx, i, "flow_%d" % i, ".em")
        ok, _ = ctx.call("Motl.write_out", m.write_out, path)
        if not ok:
            return
        ok, m = ctx.call("Motl.load", cm.Motl.load, path)
        if not ok:
            return
    m.df.attrs["note"] = "carried along"
    m.provenance = "flow %d" % i
    tl_all = [float(t) for t in case["ids"]]
    for step, op in enumerate(case["order"]):
        if len(m.df) == 0:
            return
        if op == "oob":
            d = np.column_stack([case["ids"], case["dims"]])
            ok, _ = ctx.call("remove_out_of_bounds_particles", m.remove_out_of_bounds_particles, layout(d, i + step), case["mode"], as_num(i, case["box"]))
        elif op == "trim":
            ok, _ = ctx.call("adapt_to_trimming", m.adapt_to_trimming, [int(v) for v in case["start"]], case["end"].astype(np.int64))
        elif op == "dist":
            ret = (i + step) % 2 == 0
            ok, res = ctx.call("clean_by_distance_to_points", m.clean_by_distance_to_points, points_frame(case, case["P"], rng), case["r"],
                               inplace=not ret)
            if ok and ret:
                m = res
        else:
            ret = (i + step) % 2 == 1
            ok, res = ctx.call("clean_by_tomo_mask", m.clean_by_tomo_mask, tl_all, layout(case["mask"].astype(np.float32), i), inplace=not ret)
            if ok and ret:
                m = res
        if not ok:
            return


# ---- module interface -------------------------------------------------------------------------------
def gen(ctx, i, cls):
    rng = ctx.rng(i)
    fam = cls.split("_")[0]
    case = {"oob": gen_oob, "trim": gen_trim, "dist": gen_dist, "mask": gen_mask, "flow": gen_flow}[fam](ctx, rng, cls, i)
    case["i"] = i
    case["cls"] = cls
    shape_table(ctx.rng(i, 7), case)
    return case


def nontrivial(case):
    return case["n"] >= 2 and 0 < case["exp_kept"] < case["n"]


def run_case(ctx, case):
    {"oob": run_oob, "trim": run_trim, "dist": run_dist, "mask": run_mask, "flow": run_flow}[case["kind"]](ctx, case)


# ---- exhaustive sub-spaces (shard 0) ---------------------------------------------------------------
def _lattice_table(rng, pts, tomo_id):
    n = len(pts)
    df = gens.motl_table(rng, n, tomos=1)
    df["tomo_id"] = float(tomo_id)
    df["subtomo_id"] = np.arange(1, n + 1, dtype=float)
    set_positions(df, np.asarray(pts, dtype=float), nz_shift(rng, n))
    return df


def extra(ctx):
    cm = ctx.cm
    rng = ctx.rng(10 ** 6)
    D = np.array([17.0, 23.0, 12.0])
    # (1) out-of-bounds: every combination of face values on the three axes, both boundary types, odd and even box
    total = 0
    for mode, box in (("center", None), ("whole", 4), ("whole", 5)):
        b = O.half_box(mode, box)
        ax = [[b - 1.0, b - 0.125, b, b + 1.0, D[a] - b - 1, D[a] - b - 0.125, D[a] - b, D[a] - b + 1, float(int(D[a] // 2))] for a in range(3)]
        pts = [(x, y, z) for x in ax[0] for y in ax[1] for z in ax[2]]
        ok, m = ctx.call("Motl(df)", cm.Motl, _lattice_table(rng, pts, 7))
        if ok:
            ctx.call("remove_out_of_bounds_particles", m.remove_out_of_bounds_particles,
                     np.array([[3.0, 40, 41, 42], [7.0, D[0], D[1], D[2]]]), mode, box)
            total += len(pts)
    ctx.extra["oob_face_value_lattice_particles (9^3 x center/box4/box5)"] = total
    # (2) trimming: every combination of face values of the trim box
    s, e = np.array([4.0, 9.0, 2.0]), np.array([15.0, 9.0, 11.0])
    ax = [[s[a] - 1, s[a] - 0.125, s[a], s[a] + 0.125, e[a] - 0.125, e[a], e[a] + 0.125, e[a] + 1] for a in range(3)]
    pts = [(x, y, z) for x in ax[0] for y in ax[1] for z in ax[2]]
    df = _lattice_table(rng, pts, 5)
    for a, cx in enumerate(("x", "y", "z")):
        df[cx] = np.asarray(pts)[:, a]
    ok, m = ctx.call("Motl(df)", cm.Motl, df)
    if ok:
        ctx.call("adapt_to_trimming", m.adapt_to_trimming, s, e)
    ctx.extra["trim_face_value_lattice_particles (8^3)"] = len(pts)
    # (2b) the same lattice for a box that starts at (1,1,1) (no offset, only the far side is cut), in every argument form
    s, e = np.array([1.0, 1.0, 1.0]), np.array([6.0, 9.0, 4.0])
    ax = [[s[a] - 4, s[a] - 1, s[a] - 0.125, s[a], s[a] + 0.125, e[a] - 0.125, e[a], e[a] + 0.125, e[a] + 1, e[a] + 30] for a in range(3)]
    pts = [(x, y, z) for x in ax[0] for y in ax[1] for z in ax[2]]
    forms = ["list", "tuple", "array_i", "array_f"]
    for form in forms:
        df = _lattice_table(rng, pts, 5)
        for a, cx in enumerate(("x", "y", "z")):
            df[cx] = np.asarray(pts)[:, a]
        ok, m = ctx.call("Motl(df)", cm.Motl, df)
        if ok:
            ctx.call("adapt_to_trimming", m.adapt_to_trimming, _vecarg(s, form), _vecarg(e, form))
    ctx.extra["trim_start_111_lattice_particles (10^3 x list/tuple/int array/float array)"] = len(pts) * len(forms)
    # (3) mask: one particle in every voxel of a small volume and in the one-voxel shell around it
    sh = (6, 5, 4)
    mask = (rng.random(sh) < 0.5).astype(np.float32)
    pts = [(x + 0.5, y + 0.625, z + 0.875) for x in range(-2, sh[0] + 1) for y in range(-2, sh[1] + 1) for z in range(-2, sh[2] + 1)]
    pts = [p for p in pts if all(not (-1 < v < 0) for v in p)]
    ok, m = ctx.call("Motl(df)", cm.Motl, _lattice_table(rng, pts, 9))
    if ok:
        ctx.call("clean_by_tomo_mask", m.clean_by_tomo_mask, [9.0], mask)
    ctx.extra["mask_every_voxel_and_shell_particles"] = len(pts)

    # (4) documented refusals (not judged; they only make the refusing lines of the anchors observed)
    refused = 0
    ok, m = ctx.call("Motl(df)", cm.Motl, _lattice_table(rng, [(3.0, 3.0, 3.0), (5.0, 5.0, 5.0)], 7))
    if ok:
        for f, a in ((m.remove_out_of_bounds_particles, (np.array([[7.0, 10, 10, 10]]), "whole")),
                     (m.remove_out_of_bounds_particles, (np.array([[7.0, 10, 10, 10]]), "centre")),
                     (m.clean_by_tomo_mask, ([7.0, 8.0], [np.ones((4, 4, 4))]))):
            try:
                f(*a)
            except Exception:
                refused += 1
    ctx.extra["documented_refusals_observed (whole without box, unknown boundary type, mask count mismatch)"] = refused
