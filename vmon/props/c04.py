"""C04 - STOPGAP <-> cryoCAT conversion is a lossless renaming with parity half-sets.

Monitors (DESIGN.md 4/C04):
  sg_export          post(StopgapMotl.convert_to_sg_motl): the 14 renamed fields equal the input row by row (positional
                     order, whatever the row index), halfset A <=> even / B <=> odd subtomo number, motl_idx = subtomo
                     number, or 1..N when reset_index.
  sg_import          post(StopgapMotl.convert_to_motl): inverse copy of the 14 fields into self.df, same order.
  write_out_file     post(StopgapMotl.write_out(*.star)): the written file, tokenised independently, holds the object's
                     list (14 fields to STAR precision, halfset, motl_idx; update_coord form when requested).
  star_fields        driver: written .star (own tokenizer) vs the table handed over by the user: 14 fields within
                     0.5e-6 + 1e-12|x| (the 8 untouched fields when update_coord), same particle order.
  star_halfset_idx   driver: halfset / motl_idx tokens in the written file.
  update_coord       driver: after update_coord (file and in memory): complete position unchanged, orig_* integral,
                     |shift| <= 0.5.
  star_reload        driver: StopgapMotl(path) / Motl.load(path,'stopgap') / stopgap2emmotl(path[,update]) reproduce the
                     14 fields to STAR precision.
  inmem_roundtrip    driver: StopgapMotl(convert_to_sg_motl(df)).df equals df on the 14 fields exactly.
  converters         driver: objects RETURNED by emmotl2stopgap / relion2stopgap / stopgap2emmotl hold the 14 fields exactly
                     (update_coord form when update_coordinates=True), with and without an output path.
"""
import os

import numpy as np
import pandas as pd

from vmon import gens, monitors
from vmon.oracles import c04_oracle as O
from vmon.oracles import files

PROP = "C04"
RULE = ("cases = generated 20-field particle lists (stratified over id patterns, value classes, dtypes, column order, row "
        "index kinds, entry routes, foreign STOPGAP files) x reset_index x update_coord (all four combinations per class); "
        "non-trivial = N >= 2 and subtomogram numbers are not the sequence 1..N (so motl_idx, halfset and row order are "
        "distinguishable from the row number); distinct by digest of (N, class, route, flags, ids head, first row)")
ASSUMPTIONS = ["documented renaming: score, subtomo_id->subtomo_num, tomo_id->tomo_num, object_id->object, x/y/z->orig_x/y/z, "
               "shift_x/y/z->x/y/z_shift, phi, psi, theta->the, class",
               "STAR precision: |file - value| <= 0.5e-6 + 1e-12*|value|; generated field magnitudes < 1e6, subtomogram numbers are positive integers < 2**31 (duplicates allowed)",
               "subtomogram numbers are integral (parity is only defined for integers); field values finite (no NaN)",
               "particle order = positional row order of the table, whatever its row index",
               "particle tables typed float32/float16 are outside the quantifier (lead's ruling, round 6): not generated, and calls "
               "with such tables are counted out-of-domain by the call monitors; integer-typed columns are in",
               "after update_coord the comparison is on complete positions (x+shift), integral orig_*, |shift| <= 0.5; "
               "which integer a .5 tie goes to is not judged here (C05)"]

CLASSES = ["n1", "unsorted_ids", "sparse_ids", "single_parity", "duplicate_ids", "arbitrary_floats", "star_ties",
           "int_dtypes", "permuted_columns", "filtered_index", "object_after_filter", "foreign_star", "foreign_frame", "via_em_file",
           "half_integer_positions", "object_copy", "n300", "boundary_sizes", "mutation_history",
           "constant_columns", "layouts_dtypes", "chained_objects"]
CANON = gens.COLS
ROUTES = ["StopgapMotl(df).write_out", "StopgapMotl(StopgapMotl).write_out", "Motl.load(df,stopgap).write_out",
          "emmotl2stopgap(df,path)", "emmotl2stopgap(EmMotl,path)", "Motl(df).write_out(path,stopgap)"]


def plan(tier):
    # min_evals: core.py requires HALF of the stated figure.  For the three call monitors (sg_export, sg_import,
    # write_out_file) the stated figure is 1.6 x 80% of what the driver's own DIRECT calls produce with the monitors blind to
    # cryoCAT-internal callers (VERIF_BYPASS_INTERNAL=1: quick 1009-1010 / 1077-1080 / 1301-1310, thorough 18584 / 19906 / 23163), so
    # the floor holds whatever cryoCAT's internal call structure is.  Driver monitors: ~85% of the measured counts.
    if tier == "quick":
        return dict(n_cases=len(CLASSES) * 4 * 6, shards=4, classes=CLASSES, timeout_s=600,
                    min_evals={"sg_export": 1290, "sg_import": 1375, "write_out_file": 1665, "star_fields": 1465,
                               "star_halfset_idx": 1465, "update_coord": 1615, "star_reload": 1530, "inmem_roundtrip": 920,
                               "converters": 1520})
    return dict(n_cases=len(CLASSES) * 4 * 120, shards=16, classes=CLASSES, timeout_s=3000,
                min_evals={"sg_export": 23700, "sg_import": 25400, "write_out_file": 29600, "star_fields": 26600,
                           "star_halfset_idx": 26600, "update_coord": 29200, "star_reload": 29100, "inmem_roundtrip": 17000,
                           "converters": 27500})


# ---- call monitors (Layer A) ---------------------------------------------------------------------
def _in_domain(F):
    return F is not None and len(F["subtomo_id"]) >= 1 and O.all_finite(F) and O.integral_ids(F)


def _exp_applicable(A):
    df = A["motl_df"]
    return isinstance(df, pd.DataFrame) and not O.narrow_float(df) and _in_domain(O.em_fields(df))


def _exp_snapshot(A):
    return O.em_fields(A["motl_df"])


def _judge_sg_frame(sg, E, reset):
    """-> witness or None for a STOPGAP-form frame against the cryoCAT-form fields E."""
    if not isinstance(sg, pd.DataFrame):
        return {"what": "result is not a DataFrame", "type": type(sg).__name__}
    n = len(E["subtomo_id"])
    miss = [k for k in O.SG_CANON if k not in list(sg.columns)]
    if miss or len(sg) != n:
        return {"what": "columns / row count", "missing": miss, "rows": len(sg), "expected_rows": n}
    S = O.sg_fields(sg)
    if S is None:
        return {"what": "a renamed field is not numeric", "dtypes": {k: str(sg[k].dtype) for k in O.SG_KEYS}}
    w = O.cmp_plain(S, E, "exact")
    if w is not None:
        w["stopgap_field"] = O.EM2SG.get(w.get("field"))
        return w
    try:
        mi = np.asarray(sg["motl_idx"].to_numpy(), dtype=float)
    except Exception:
        return {"what": "motl_idx not numeric", "dtype": str(sg["motl_idx"].dtype)}
    return O.check_halfset_idx(list(sg["halfset"]), mi, E["subtomo_id"], reset)


def _exp_post(ctx, A, E, result):
    w = _judge_sg_frame(result, E, bool(A["reset_index"]))
    ctx.check("sg_export", w is None, w)


def _imp_applicable(A):
    sg, me = A["stopgap_df"], A["self"]
    if A.get("keep_halfsets") or not isinstance(sg, pd.DataFrame):
        return False               # keep_halfsets renumbers subtomo_id by design: outside the property
    cur = getattr(me, "df", None)
    if not isinstance(cur, pd.DataFrame) or len(cur) != 0:
        return False
    return not O.narrow_float(sg, sg=True) and _in_domain(O.sg_fields(sg))


def _imp_snapshot(A):
    return O.sg_fields(A["stopgap_df"])


def _imp_post(ctx, A, E, result):
    df = getattr(A["self"], "df", None)
    if not isinstance(df, pd.DataFrame):
        ctx.check("sg_import", False, {"what": "self.df is not a DataFrame"})
        return
    G = O.em_fields(df)
    if G is None:
        ctx.check("sg_import", False, {"what": "self.df lacks a numeric shared field", "columns": list(map(str, df.columns))})
        return
    ctx.check("sg_import", O.cmp_plain(G, E, "exact") is None, O.cmp_plain(G, E, "exact"))


def _wo_applicable(A):
    p = A["output_path"]
    df = getattr(A["self"], "df", None)
    return isinstance(p, str) and p.endswith(".star") and isinstance(df, pd.DataFrame) and not O.narrow_float(df) and _in_domain(O.em_fields(df))


def _wo_snapshot(A):
    return O.em_fields(A["self"].df)


def _judge_file(path, E, updated, reset, slack=1.0):
    """-> (w_fields, w_update, w_halfidx); None = clause holds.  E = list before write_out."""
    n = len(E["subtomo_id"])
    F, half, mi, err = O.parse_sg_star(path, n)
    if err is not None:
        return err, (err if updated else None), err
    w_f = O.cmp_plain(F, E, "star", O.OTHER8 if updated else None)
    w_u = O.cmp_positions_updated(F, E, "star", slack) if updated else None
    w_h = O.check_halfset_idx(half, mi, E["subtomo_id"], reset, star=True)
    return w_f, w_u, w_h


def _wo_post(ctx, A, E, result):
    w_f, w_u, w_h = _judge_file(A["output_path"], E, bool(A["update_coord"]), bool(A["reset_index"]))
    w = w_f or w_u or w_h
    ctx.check("write_out_file", w is None, w)


def setup(ctx):
    from cryocat import cryomotl
    ctx.cm = cryomotl
    SG = cryomotl.StopgapMotl
    f_exp = monitors.wrap(ctx, SG, "convert_to_sg_motl", "sg_export", _exp_post, _exp_applicable, _exp_snapshot)
    f_imp = monitors.wrap(ctx, SG, "convert_to_motl", "sg_import", _imp_post, _imp_applicable, _imp_snapshot)
    f_wo = monitors.wrap(ctx, SG, "write_out", "write_out_file", _wo_post, _wo_applicable, _wo_snapshot)
    ctx.declare("star_fields", "star_halfset_idx", "update_coord", "star_reload", "inmem_roundtrip", "converters")
    from cryocat import starfileio
    monitors.trace(ctx, [
        ("StopgapMotl.__init__", SG.__init__, {"from_object": "self.sg_df = input_motl.sg_df.copy()",
                                                "from_frame": "self.check_df_type(input_motl)",
                                                "from_path": "sg_df = self.read_in(input_motl)"}),
        ("StopgapMotl.read_in", SG.read_in, {"block_found": "stopgap_df = frames[sg_id]"}),
        ("StopgapMotl.convert_to_motl", f_imp, {"copy_pair": "self.df[em_key] = stopgap_df[star_key]",
                                                 "keep_halfsets(outside property)": "if stopgap_df[\"halfset\"].nunique() == 2"}),
        ("StopgapMotl.convert_to_sg_motl", f_exp, {"copy_pair": "stopgap_df[star_key] = motl_df[em_key]"}),
        ("StopgapMotl.sg_df_reset_index", SG.sg_df_reset_index, {"reset": "range(1, stopgap_df.shape[0] + 1)"}),
        ("StopgapMotl.write_out", f_wo, {"update_coord": "self.update_coordinates()", "star": "Starfile.write(",
                                         "em(not judged)": "super().write_out("}),
        ("emmotl2stopgap", cryomotl.emmotl2stopgap, {"update": "sg_motl.update_coordinates()", "write": "sg_motl.write_out("}),
        ("stopgap2emmotl", cryomotl.stopgap2emmotl, {"update": "em_motl.update_coordinates()", "write": "em_motl.write_out("}),
        ("relion2stopgap", cryomotl.relion2stopgap, {"update": "sg_motl.update_coordinates()", "write": "sg_motl.write_out("}),
        ("Motl.check_df_type", cryomotl.Motl.check_df_type, {"convert": "self.convert_to_motl(input_motl)"}),
        ("Motl.write_out", cryomotl.Motl.write_out, {"stopgap": "StopgapMotl(self.df).write_out(output_path)"}),
        ("Starfile.write", starfileio.Starfile.write), ("Starfile.read", starfileio.Starfile.read)])


# ---- generator -----------------------------------------------------------------------------------
def _ids(rng, n, style):
    sparse = rng.choice(np.arange(1, 12 * n + 60), n, replace=False)
    if style == "sequential":
        return np.arange(1, n + 1)
    if style == "perm_offset":
        return rng.permutation(np.arange(1, n + 1) + int(rng.integers(0, 50)))
    if style == "sparse":
        return sparse
    if style == "large":
        return sparse + int(rng.choice([rng.integers(10 ** 5, 9 * 10 ** 6), rng.integers(2 ** 24, 2 * 10 ** 9)]))
    if style == "descending":
        return np.sort(sparse)[::-1]
    if style == "even":
        return 2 * sparse
    if style == "odd":
        return 2 * sparse + 1
    if style == "dup":
        return rng.integers(1, max(2, n // 3 + 1), n)
    if style == "boundary":
        # adjacent integers around representability boundaries: just above 1e5 (np.isclose's default rtol merges neighbours),
        # 2**24 (float32), 2**31 (int32), just below 2**53 (float64 integers)
        start = int(rng.choice([100000, 2 ** 24 - n // 2, 2 ** 31 - n // 2, 2 ** 53 - n - 1]))
        return rng.permutation(np.arange(start, start + n))
    raise ValueError(style)


BELOW_HALF = float(np.nextafter(0.5, 0.0))          # 0.49999999999999994: |v| + 0.5 rounds to 1.0 in float arithmetic
FIRST_ROW_TEXT = [3e-06, 2e-05, 1e+16, -3e-06, 7e-05, -1e+16, 1e-05]      # 6-decimal text forms 3e-06 / 2e-05 / 1e+16 ...


def _plant(rng, df, n, fields_first_row=True):
    """Plant values a random generator practically never produces (all inside 'arbitrary finite field values'):
    position+shift an ulp below a rounding tie (+-nextafter(0.5,0), k+0.5-ulp), 1e-9..5e-7 below a tie, exact ties, odd
    integers >= 2**52, and first-row values whose 6-decimal STAR text is in exponent form.  Returns what was planted."""
    planted = []
    rows = rng.permutation(n)[:min(n, 6)]
    for r in rows:
        p, sh = [(a, b) for a, b in zip(O.POS, O.SHIFT)][int(rng.integers(0, 3))]
        kind = int(rng.integers(0, 9))
        sgn = float(rng.choice([-1.0, 1.0]))
        k = float(rng.choice([0, 1, 2, 7, 100, 4095, 65536]))
        if kind == 0:
            x, d = 0.0, sgn * BELOW_HALF                          # sum = +-nextafter(0.5, 0)
        elif kind == 1:
            x, d = sgn * 0.25, sgn * (0.25 - 2.0 ** -54)          # same sum, reached by an exact float addition
        elif kind == 2:
            x, d = sgn * float(np.nextafter(k + 0.5, 0.0)), 0.0   # k + 0.5 - ulp
        elif kind == 3:
            x, d = sgn * k, sgn * float(np.nextafter(0.5, 0.0)) if k == 0 else sgn * 0.5     # exact tie (k>0) / below-half (k=0)
        elif kind == 4:
            x, d = sgn * (k + 0.5 - float(rng.choice([1e-9, 3e-8, 3e-7, 5e-7]))), 0.0         # 1e-9..5e-7 below a tie
        elif kind == 5:
            x, d = sgn * float(2 ** 52 + int(rng.choice([1, 3, 1001]))), 0.0                   # odd integer >= 2**52
        elif kind == 6:
            x, d = sgn * float(2 ** 52), sgn * 1.0                                             # sum = odd integer 2**52 + 1
        elif kind == 7:
            x, d = sgn * float(2 ** 53 - 1), 0.0
        else:
            x, d = sgn * (k + 0.5), 0.0                                                        # exact tie, zero shift
        df.loc[r, p], df.loc[r, sh] = x, d
        planted.append([int(r), p, x, d])
    if fields_first_row:
        cand = ["score", "x", "y", "z", "shift_x", "shift_y", "shift_z", "phi", "psi", "theta", "tomo_id", "object_id", "class"]
        for c in cand:
            if rng.random() < 0.45:
                v = float(rng.choice(FIRST_ROW_TEXT))
                df.loc[0, c] = v
                planted.append([0, c, v])
    return planted


def _arbitrary(rng, n):
    v = rng.choice([-1.0, 1.0], n) * 10.0 ** rng.uniform(-9, 6, n)
    k = rng.integers(0, 8, n)
    v = np.where(k == 0, np.round(v, 3), v)
    v = np.where(k == 1, 0.0, v)
    v = np.where(k == 2, -0.0, v)
    v = np.where(k == 3, np.round(v), v)
    return v


def _ties(rng, n):
    """values at / one ulp either side of a 6-decimal rounding tie, and just below the 0.5e-6 resolution"""
    scale = rng.choice([1, 10 ** 3, 10 ** 6, 10 ** 9], n)
    k = rng.integers(-scale, scale + 1)
    v = k * 1e-6 + 0.5e-6
    j = rng.integers(0, 5, n)
    v = np.where(j == 1, np.nextafter(v, np.inf), v)
    v = np.where(j == 2, np.nextafter(v, -np.inf), v)
    v = np.where(j == 3, rng.choice([1e-7, -1e-7, 4.9999e-7, -4.9999e-7, 5.0001e-7, 9.999995e-1], n), v)
    return v


NONID = [k for k in O.EM_KEYS if k != "subtomo_id"]


def gen(ctx, i, cls):
    rng = ctx.rng(i)
    ncls = len(CLASSES)
    cfg = (i // ncls) % 4
    reset, upd = bool(cfg & 1), bool(cfg & 2)
    n = int(rng.choice([2, 3, 5, 9, 17, 33, 64, 150])) if rng.random() < 0.6 else int(rng.integers(2, 301))
    if cls == "n1":
        n = 1
    elif cls == "n300":
        n = 300
    elif cls == "boundary_sizes":       # block-boundary particle counts 2**k - 1, 2**k, 2**k + 1 and the largest allowed
        n = int(rng.choice([63, 64, 65, 127, 128, 129, 255, 256, 257, 299, 300]))
    elif cls == "mutation_history":
        n = int(rng.choice([2, 3, 8, 33, 65, 120]))
    elif cls == "constant_columns" and rng.random() < 0.3:
        n = 1
    df = gens.motl_table(rng, n, tomos=int(rng.integers(1, 5)), signed=bool(rng.integers(0, 2)))
    style = str(rng.choice(["perm_offset", "sparse", "large", "descending"]))
    if cls == "unsorted_ids":
        style = "perm_offset"
    elif cls == "sparse_ids":
        style = str(rng.choice(["sparse", "large", "descending"]))
    elif cls == "single_parity":
        style = ["even", "odd"][int(rng.integers(0, 2))]
    elif cls == "duplicate_ids":
        style = "dup"
    elif cls == "n1":
        style = str(rng.choice(["even", "odd", "large", "sequential"]))
    elif cls in ("n300", "object_copy") and rng.random() < 0.15:
        style = "sequential"
    if cls in ("sparse_ids", "boundary_sizes", "foreign_star", "foreign_frame", "mutation_history", "permuted_columns") and rng.random() < 0.5:
        style = "boundary"
    df["subtomo_id"] = _ids(rng, n, style).astype(float)
    if cls == "duplicate_ids" and n >= 2:
        # exact duplicates: whole rows repeated, and particles at exactly the same position with different scores
        src = rng.integers(0, n, max(1, n // 4))
        dst = rng.integers(0, n, len(src))
        for a, b in zip(src, dst):
            if rng.random() < 0.5:
                df.loc[b, :] = df.loc[a, :].to_numpy()
            else:
                for c in O.POS + O.SHIFT:
                    df.loc[b, c] = df.loc[a, c]
    values = "normal"
    if cls == "arbitrary_floats":
        values = "arbitrary"
        for c in NONID:
            df[c] = _arbitrary(rng, n)
    elif cls == "star_ties":
        values = "ties"
        for c in NONID:
            if rng.random() < 0.8:
                df[c] = _ties(rng, n)
    elif cls == "half_integer_positions":
        values = "half_integer"
        for p, s in zip(O.POS, O.SHIFT):
            base = rng.integers(-300, 300, n).astype(float)
            kind = rng.integers(0, 6, n)
            x = np.where(kind < 2, base, base + 0.25)
            sh = np.where(kind < 2, np.where(kind == 0, 0.5, -0.5), 0.25)     # x+shift = m +- 0.5 exactly
            sh = np.where(kind == 3, np.nextafter(0.25, 1.0), sh)                # one ulp above the tie
            sh = np.where(kind == 4, np.nextafter(0.25, 0.0), sh)                # one ulp below
            sh = np.where(kind == 5, rng.uniform(-3, 3, n), sh)
            df[p], df[s] = x, sh
    elif cls == "via_em_file":
        values = "float32"
        if style in ("large", "boundary"):
            df["subtomo_id"] = _ids(rng, n, "sparse").astype(float)
        if rng.random() < 0.5:          # float32 representability boundaries: max and the two values below it, subnormals
            f32 = np.array([3.4028234663852886e38, 3.4028232635611926e38, 3.4028230607370965e38, 1.401298464324817e-45,
                            1.1754942106924411e-38, -3.4028234663852886e38, -1.401298464324817e-45, 16777216.0, 16777215.0])
            for c in ("score", "x", "shift_y", "phi", "theta", "object_id"):
                m = rng.random(n) < 0.25
                df.loc[m, c] = rng.choice(f32, int(m.sum()))
            values = "float32+boundaries"
        df = df.astype(np.float32).astype(np.float64)
    planted = []
    if cls == "half_integer_positions" or (cls not in ("via_em_file", "int_dtypes", "n1") and rng.random() < 0.6):
        planted = _plant(rng, df, n, fields_first_row=(cls != "half_integer_positions" or rng.random() < 0.5))
    elif cls == "n1" and rng.random() < 0.6:
        planted = _plant(rng, df, 1)
    layout = None
    if cls == "layouts_dtypes":
        # the SHAPE of the table: backing-array layouts and narrow dtypes; expected values = the values the table holds.
        # float32-typed tables are outside the quantifier (lead's ruling, round 6; DESIGN.md records the two observations:
        # update_coordinates raises on Decimal(np.float32), Starfile.write rounds/prints float32 columns at float32 accuracy).
        opts = ["fortran", "transposed_view", "negative_stride", "noncontig_slice", "readonly", "int_positions", "int_angles", "int_all"]
        layout = str(rng.choice(opts))
        if layout in ("int_positions", "int_all"):
            for c in O.POS:
                df[c] = np.round(df[c])
        if layout in ("int_angles", "int_all"):
            for c in ("phi", "psi", "theta"):
                df[c] = rng.integers(-128, 128, n).astype(float)
        values = "layout:" + layout
    const = None
    if cls == "constant_columns":
        # value-specific semantics: columns that hold one value for EVERY particle (class 0 = never classified, score 0, ...)
        mode = str(rng.choice(["class0", "class0", "class0_score0", "shifts0", "all_zero", "single_value", "angles0_class0"]))
        cols = {"class0": ["class"], "class0_score0": ["class", "score"], "shifts0": list(O.SHIFT) + ["class"],
                "all_zero": list(NONID), "angles0_class0": ["phi", "psi", "theta", "class"],
                "single_value": [c for c in NONID if rng.random() < 0.5] or ["class"]}[mode]
        val = 0.0 if mode != "single_value" else float(rng.choice([0.0, 1.0, -0.0, 2.0, -1.0, 0.5]))
        for c in cols:
            df[c] = val
        const = {"mode": mode, "value": val, "columns": cols}
        values = "constant:" + mode
    elif cls not in ("via_em_file", "layouts_dtypes") and rng.random() < (0.5 if cls == "n1" else 0.15):
        df["class"] = 0.0              # unclassified list / single class-0 particle, in every other class too
        values += "+class0"
    order = list(CANON)
    if cls == "permuted_columns" or (cls in ("filtered_index", "object_after_filter", "int_dtypes") and rng.random() < 0.4):
        order = [CANON[k] for k in rng.permutation(20)]
    int_cols = []
    if cls == "int_dtypes":
        int_cols = [c for c in ["subtomo_id", "tomo_id", "object_id", "class", "geom2"] if rng.random() < 0.8] or ["subtomo_id"]
        if rng.random() < 0.3:
            df["x"], df["y"], df["z"] = np.round(df["x"]), np.round(df["y"]), np.round(df["z"])
            int_cols += ["x", "y", "z"]
    index_kind = "range"
    if cls == "filtered_index":
        index_kind = str(rng.choice(["odd", "dup", "shifted", "float", "concat", "concat", "reversed"]))
    elif cls in ("chained_objects", "constant_columns", "boundary_sizes") and rng.random() < 0.4:
        index_kind = str(rng.choice(["concat", "reversed", "dup"]))
    routes = list(range(len(ROUTES)))
    if cls == "object_copy":
        routes = [1, 4, 2]
    if cfg != 0:
        routes = [r for r in routes if r != 5]
    route = ROUTES[int(rng.choice(routes))]
    if cls == "via_em_file":
        route = "emmotl2stopgap(em_path,path)"
    foreign = None
    if cls in ("foreign_star", "foreign_frame"):
        # a list in STOPGAP form that cryoCAT did not produce: halfset letters need not follow the parity of subtomo_num
        # and motl_idx is in general unrelated to it (normal for lists written by STOPGAP itself)
        foreign = dict(order=[O.SG_CANON[k] for k in rng.permutation(16)] if rng.random() < 0.4 else list(O.SG_CANON),
                       nl=["\n", "\r\n"][int(rng.integers(0, 2))], sep=["\t", "  ", " \t "][int(rng.integers(0, 3))],
                       numbered=bool(rng.integers(0, 2)), fmt=["repr", "%.6f", "%.10g"][int(rng.integers(0, 3))],
                       int_tokens=bool(rng.integers(0, 2)), odd_tokens=bool(rng.integers(0, 2)),
                       halfset=str(rng.choice(["parity", "random", "random", "inverted", "all_A", "all_B"])),
                       motl_idx=str(rng.choice(["ids", "1..N", "shuffled", "offset", "unrelated"])))
        if cls == "foreign_star":
            route = "foreign file -> StopgapMotl(path).write_out"
        else:
            foreign["loader"] = str(rng.choice(["StopgapMotl(sg_frame)", "Motl.load(sg_frame,stopgap)", "StopgapMotl(StopgapMotl(sg_frame))"]))
            foreign["odd_labels"] = bool(rng.random() < 0.3)
            route = "foreign frame -> %s.write_out" % foreign["loader"]
    variant = None
    if cls == "object_after_filter":
        variant = str(rng.choice(["remove_feature", "bool_filter", "row_permutation", "static_nonrange_frame", "duplicate_labels"]))
        route = "StopgapMotl(df) then %s then write_out" % variant
    ids = df["subtomo_id"].to_numpy()
    case = {"i": i, "cls": cls, "df": df, "order": order, "int_cols": int_cols, "index_kind": index_kind, "route": route,
            "reset": reset, "upd": upd, "foreign": foreign, "variant": variant, "layout": layout,
            "flag_kind": ["py", "np", "np", "py", "py", "np"][(i // (4 * ncls)) % 6],
            "path_kind": ["plain", "ext_letters", "special", "nonascii", "subdir", "relative", "relative_subdir"][int(rng.integers(0, 7))],
            "attrs": bool(rng.random() < 0.3),
            "sequential": bool(np.array_equal(ids, np.arange(1, n + 1)))}
    case["summary"] = {"n": n, "class": cls, "route": route, "reset_index": reset, "update_coord": upd, "id_style": style,
                       "flag_kind": case["flag_kind"], "path_kind": case["path_kind"],
                       "values": values, "ids_head": [float(v) for v in ids[:6]], "index": index_kind,
                       "column_order": order[:6], "int_cols": int_cols, "foreign": foreign, "planted": planted[:8], "layout": layout, "constant": const,
                       "row0": {k: float(df[k].iloc[0]) for k in ("score", "x", "shift_x", "psi", "theta", "class")}}
    return case


def nontrivial(case):
    return len(case["df"]) >= 2 and not case["sequential"]


def build_input(case, rng):
    t = case["df"][case["order"]].copy()
    lay = case.get("layout")
    n = len(t)
    if lay in ("fortran", "transposed_view", "negative_stride", "noncontig_slice", "readonly"):
        arr = t.to_numpy(dtype=np.float64)
        if lay == "fortran":
            a = np.asfortranarray(arr)
        elif lay == "transposed_view":
            a = np.ascontiguousarray(arr.T).T
        elif lay == "negative_stride":
            a = arr[::-1].copy()[::-1]
        elif lay == "noncontig_slice":
            big = np.zeros((n, 2 * arr.shape[1]))
            big[:, ::2] = arr
            a = big[:, ::2]
        else:
            a = arr.copy()
            a.setflags(write=False)
        t = pd.DataFrame(a, columns=case["order"], copy=False)
    elif lay in ("int_positions", "int_angles", "int_all"):
        if lay != "int_angles":
            for c in O.POS:
                t[c] = t[c].astype([np.int16, np.int32, np.int64][int(rng.integers(0, 3))])
        if lay != "int_positions":
            for c in ("phi", "psi", "theta"):
                t[c] = t[c].astype([np.int8, np.int16][int(rng.integers(0, 2))])
            for c in ("tomo_id", "object_id", "class"):
                if np.all(np.abs(t[c]) < 128) and np.all(t[c] == np.round(t[c])):
                    t[c] = t[c].astype(np.int8)
    for c in case["int_cols"]:
        t[c] = t[c].astype(np.int64 if rng.random() < 0.6 else np.int32)
    k = case["index_kind"]
    if k == "odd":
        t.index = rng.permutation(n) * 3 + 7
    elif k == "dup":
        t.index = rng.integers(0, 3, n)
    elif k == "shifted":
        t.index = np.arange(n) + int(rng.integers(1, 50))
    elif k == "float":
        t.index = rng.permutation(n).astype(float) + 0.5
    elif k == "concat" and n >= 2:
        # what pd.concat of two lists without ignore_index leaves behind: labels 0..a-1 followed by 0..b-1
        a = int(rng.integers(1, n))
        t = pd.concat([t.iloc[:a].reset_index(drop=True), t.iloc[a:].reset_index(drop=True)])
    elif k == "reversed":
        t.index = np.arange(n)[::-1]
    if case.get("attrs"):
        t.attrs = {"source": "tomo_\u00e9.star", "pixel_size": 1.35, "note": [1, 2, 3]}
    return t


# ---- driver --------------------------------------------------------------------------------------
def _judge(ctx, monitor, got, E, updated, mode, slack=1.0, **extra):
    """One evaluation of `monitor`: the 14 fields of `got` against E (update_coord form when `updated`)."""
    if got is None:
        return ctx.check(monitor, False, dict(extra, what="a shared field is missing or not numeric", why=O.WHY[0]))
    w = O.cmp_plain(got, E, mode, O.OTHER8 if updated else None)
    if w is None and updated:
        w = O.cmp_positions_updated(got, E, mode, slack)
    return ctx.check(monitor, w is None, dict(w, **extra) if w else None)


def _check_file(ctx, path, E, updated, reset, stage):
    w_f, w_u, w_h = _judge_file(path, E, updated, reset)
    ctx.check("star_fields", w_f is None, dict(w_f, stage=stage) if w_f else None)
    if updated:
        ctx.check("update_coord", w_u is None, dict(w_u, stage=stage + " (file)") if w_u else None)
    ctx.check("star_halfset_idx", w_h is None, dict(w_h, stage=stage) if w_h else None)
    return w_f is None and w_u is None


def _fl(case, value):
    """The flag as the caller passes it: a Python bool or a NumPy bool (np.False_ / np.True_, what idioms such as
    df["subtomo_id"].duplicated().any() produce); both are in the quantifier reset_index / update_coord in {False, True}."""
    return np.bool_(bool(value)) if case.get("flag_kind") == "np" else bool(value)


def _path(ctx, case, rng, stem, ext=".star"):
    """Output path of varying shape: stems ending in the letters of an extension, [ ] * ? blanks, non-ASCII characters,
    a sub-directory, a path relative to the working directory (the shard's scratch directory)."""
    kind = case.get("path_kind", "plain")
    tag = "%s_%s" % (stem, case["i"])
    if kind == "ext_letters":
        name = tag + str(rng.choice(["_ribosomestar", "_frame.em", "_motl.star", "_listem", ".star.em"])) + ext
    elif kind == "special":
        name = tag + " a b [1] *?" + ext
    elif kind == "nonascii":
        name = tag + "_\u00dcn\u00ef_\u7c92\u5b50" + ext
    elif kind == "subdir":
        d = os.path.join(ctx.scratch, "sub dir", "x.star")
        os.makedirs(d, exist_ok=True)
        return os.path.join(d, tag + ext)
    elif kind == "relative":
        return tag + ext
    elif kind == "relative_subdir":
        os.makedirs(os.path.join(ctx.scratch, "rel"), exist_ok=True)
        return os.path.join("rel", tag + ext)
    else:
        name = tag + ext
    return os.path.join(ctx.scratch, name)


# ---- direct calls of the monitored public methods -------------------------------------------------
# The call monitors sg_export / sg_import / write_out_file are also reached through calls made INSIDE cryoCAT (constructors ->
# check_df_type -> convert_to_motl, write_out -> convert_to_sg_motl, emmotl2stopgap -> write_out, ...).  Their floors must not
# depend on that internal call structure: a behaviour-preserving refactoring may route those calls through private helpers,
# and the check must then still be conclusive.  So the driver itself calls every monitored function with in-quantifier
# inputs (fresh copies; positional and the documented keyword forms), and min_evals is set from these direct calls alone
# (tools/audit_call_structure.sh runs the check with the monitors blind to cryoCAT-internal callers).
def _direct_import(ctx, sg_df, E, monitor, mode, stage, kw, updated=False, slack=1.0):
    """StopgapMotl().convert_to_motl(frame) called by the driver; call monitor sg_import + a driver judgement."""
    cm = ctx.cm
    if not isinstance(sg_df, pd.DataFrame):
        return
    ok, m = ctx.call("StopgapMotl()", cm.StopgapMotl)
    if not ok:
        return
    frame = sg_df.copy()
    if kw:
        ok, _ = ctx.call("convert_to_motl(stopgap_df=,keep_halfsets=False)", m.convert_to_motl, stopgap_df=frame, keep_halfsets=False)
    else:
        ok, _ = ctx.call("convert_to_motl(frame)", m.convert_to_motl, frame)
    if ok:
        _judge(ctx, monitor, O.em_fields(m.df) if isinstance(getattr(m, "df", None), pd.DataFrame) else None, E, updated, mode, slack,
               stage=stage, loader=stage)


def _direct_export(ctx, df, reset, kw):
    """StopgapMotl.convert_to_sg_motl called by the driver on a fresh copy; judged by the call monitor sg_export."""
    cm = ctx.cm
    if kw:
        return ctx.call("convert_to_sg_motl(motl_df=,reset_index=)", cm.StopgapMotl.convert_to_sg_motl, motl_df=df.copy(), reset_index=reset)
    return ctx.call("convert_to_sg_motl(df,reset)", cm.StopgapMotl.convert_to_sg_motl, df.copy(), reset)


def _direct_write_out(ctx, m, E, updated, reset, tag, stage, case=None):
    """obj.write_out(output_path=, update_coord=False, reset_index=) called by the driver on an object a converter returned;
    `updated` says whether the object already is in update_coord form.  Call monitor write_out_file + the driver's file checks."""
    p = os.path.join(ctx.scratch, "direct_%s.star" % tag)
    ok, _ = ctx.call("obj.write_out(output_path=,update_coord=False,reset_index=)", m.write_out, output_path=p, update_coord=_fl(case or {}, False),
                     reset_index=_fl(case or {}, reset))
    if ok and os.path.exists(p):
        _check_file(ctx, p, E, updated, reset, stage + " -> write_out")
    elif ok:
        ctx.check("star_fields", False, {"what": "no file written", "route": stage + " -> write_out"})
    _rm(p)


def _reload(ctx, case, path, E, updated):
    """Two of the four loaders per case; `updated` says whether the file already is in update_coord form."""
    cm = ctx.cm
    loaders = [("StopgapMotl(path)", lambda: cm.StopgapMotl(path), False),
               ("stopgap2emmotl(path)", lambda: cm.stopgap2emmotl(path), False),
               ("Motl.load(path,stopgap)", lambda: cm.Motl.load(path, "stopgap"), False),
               ("stopgap2emmotl(path,update_coordinates=True)", lambda: cm.stopgap2emmotl(path, None, True), True)]
    k = case["i"] % 4
    for label, f, upd_again in (loaders[k:] + loaders[:k])[:2]:
        ok, back = ctx.call(label, f)
        if not ok:
            continue
        G = O.em_fields(back.df)
        # complete positions: one 6-decimal rounding per summand that was written un-updated
        slack = 1.0 if updated else 2.0
        _judge(ctx, "star_reload", G, E, updated or upd_again, "star", slack, loader=label)
        if upd_again:
            w = O.cmp_positions_updated(G, E, "star", slack) if G is not None else {"what": "missing field"}
            ctx.check("update_coord", w is None, dict(w, stage=label) if w else None)
    # the same file through the two public steps called directly (see "direct calls" above)
    ok, frame = ctx.call("StopgapMotl.read_in(path)", cm.StopgapMotl.read_in, path)
    if ok:
        _direct_import(ctx, frame, E, "star_reload", "star", "StopgapMotl.read_in(path) + StopgapMotl().convert_to_motl(frame)",
                       kw=bool(k % 2), updated=updated, slack=1.0 if updated else 2.0)


def _inmem(ctx, case, t, E, rng):
    """In-memory path: static export of the user's table, import of the result, converter on the result."""
    cm = ctx.cm
    ok, sg = ctx.call("convert_to_sg_motl(df)", cm.StopgapMotl.convert_to_sg_motl, t, _fl(case, case["reset"]))
    if not ok:
        return
    if rng.random() < 0.3 and isinstance(sg, pd.DataFrame):      # STOPGAP frame with permuted columns / odd row labels
        sg = sg[[sg.columns[k] for k in rng.permutation(len(sg.columns))]].copy()
        if rng.random() < 0.5:
            sg.index = rng.permutation(len(sg)) * 2 + 3 if rng.random() < 0.5 else rng.integers(0, 2, len(sg))   # odd / repeated labels
    _direct_import(ctx, sg, E, "inmem_roundtrip", "exact", "StopgapMotl().convert_to_motl(convert_to_sg_motl(df))", kw=bool(rng.integers(0, 2)))
    _direct_export(ctx, t, _fl(case, not case["reset"]), kw=True)
    ok, back = ctx.call("StopgapMotl(sg_df)", cm.StopgapMotl, sg)
    if ok:
        _judge(ctx, "inmem_roundtrip", O.em_fields(back.df), E, False, "exact", stage="StopgapMotl(convert_to_sg_motl(df)).df")
    pick = int(rng.integers(0, 4))
    if pick == 0:
        ok, em = ctx.call("stopgap2emmotl(sg_df)", cm.stopgap2emmotl, sg)
        if ok:
            _judge(ctx, "converters", O.em_fields(em.df), E, False, "exact", stage="stopgap2emmotl(sg_df)")
    elif pick == 2:                 # with an output path: the .em it writes is C01's subject, the returned list is ours
        pem = os.path.join(ctx.scratch, "out_%s.em" % case["i"])
        ok, em = ctx.call("stopgap2emmotl(sg_df,em_path)", cm.stopgap2emmotl, sg, pem)
        _rm(pem)
        if ok:
            _judge(ctx, "converters", O.em_fields(em.df), E, False, "exact", stage="stopgap2emmotl(sg_df, em_path)")
    elif pick == 3 and ok and back is not None:
        # an object built from a STOPGAP-form frame, exported unedited with the OPPOSITE reset flag: motl_idx in the file
        # has to follow the flag of this call, not the motl_idx the frame carried
        p3 = os.path.join(ctx.scratch, "reexport_%s.star" % case["i"])
        ok, _ = ctx.call("StopgapMotl(sg_df).write_out", back.write_out, p3, _fl(case, False), _fl(case, not case["reset"]))
        if ok and os.path.exists(p3):
            _check_file(ctx, p3, E, False, not case["reset"], "StopgapMotl(sg_df).write_out(reset_index=%s)" % (not case["reset"]))
        _rm(p3)
    elif pick == 1 and ok and back is not None:
        ok, em = ctx.call("stopgap2emmotl(StopgapMotl,update)", cm.stopgap2emmotl, back, None, True)
        if ok:
            _judge(ctx, "converters", O.em_fields(em.df), E, True, "exact", stage="stopgap2emmotl(StopgapMotl, update_coordinates=True)")
            w = O.cmp_positions_updated(O.em_fields(em.df), E, "exact")
            ctx.check("update_coord", w is None, dict(w, stage="stopgap2emmotl(obj, update) in memory") if w else None)


def _export_via_route(ctx, case, t, E, path):
    """Drive the chosen public route to a written .star; returns True when a file was written."""
    cm = ctx.cm
    route, reset, upd = case["route"], case["reset"], case["upd"]
    if route == ROUTES[0] or route == ROUTES[1] or route == ROUTES[2]:
        if route == ROUTES[0]:
            ok, m = ctx.call("StopgapMotl(df)", cm.StopgapMotl, t)
        elif route == ROUTES[1]:
            ok, m0 = ctx.call("StopgapMotl(df)", cm.StopgapMotl, t)
            if not ok:
                return False
            ok, m = ctx.call("StopgapMotl(StopgapMotl)", cm.StopgapMotl, m0)
        else:
            ok, m = ctx.call("Motl.load(df,stopgap)", cm.Motl.load, t, "stopgap")
        if not ok:
            return False
        _judge(ctx, "converters", O.em_fields(m.df), E, False, "exact", stage=route.split(".write_out")[0] + ".df")
        ok, _ = ctx.call("StopgapMotl.write_out", m.write_out, path, _fl(case, upd), _fl(case, reset))
        if ok and upd:
            w = O.cmp_positions_updated(O.em_fields(m.df), E, "exact")
            ctx.check("update_coord", w is None, dict(w, stage="object after write_out(update_coord=True)") if w else None)
        return ok
    if route in (ROUTES[3], ROUTES[4], "emmotl2stopgap(em_path,path)"):
        src = t
        if route == ROUTES[4]:
            ok, src = ctx.call("EmMotl(df)", cm.EmMotl, t)
            if not ok:
                return False
        elif route != ROUTES[3]:
            src = os.path.join(ctx.scratch, "in_%d.em" % case["i"])
            arr = np.stack([t[c].to_numpy(dtype=np.float64) for c in CANON])[:, :, None]      # [field, particle, 0]
            files.write_em_raw(src, arr, code=5)
        ok, m = ctx.call("emmotl2stopgap", cm.emmotl2stopgap, src, path, _fl(case, upd), _fl(case, reset))
        if isinstance(src, str):
            _rm(src)
        if not ok:
            return False
        _judge(ctx, "converters", O.em_fields(m.df), E, upd, "exact", stage="emmotl2stopgap(...).df")
        if upd:
            w = O.cmp_positions_updated(O.em_fields(m.df), E, "exact")
            ctx.check("update_coord", w is None, dict(w, stage="emmotl2stopgap(update_coordinates=True) in memory") if w else None)
        return True
    if route == ROUTES[5]:
        ok, m = ctx.call("Motl(df)", cm.Motl, t)
        if not ok:
            return False
        ok, _ = ctx.call("Motl.write_out(path,stopgap)", m.write_out, path, "stopgap")
        return ok
    raise core_error("unknown route " + route)


def core_error(msg):
    from vmon.core import HarnessError
    return HarnessError(msg)


def _rm(p):
    try:
        os.remove(p)
    except OSError:
        pass


def _returned_object(ctx, conv_name, conv, src, path, case, E, src_kind):
    """One converter call; the RETURNED object is judged whatever the output path is (None = in-memory conversion):
    update_coordinates=False -> the 14 fields exactly; True -> update_coord form (complete position unchanged, x,y,z
    integral, |shift| <= 0.5).  A written file is judged as well."""
    upd, reset = case["upd"], case["reset"]
    stage = "%s(%s, %s, update_coordinates=%s)" % (conv_name, src_kind, "path" if path else "None", upd)
    ok, m = ctx.call("%s(%s)" % (conv_name, "path" if path else "None"), conv, src, path, _fl(case, upd), _fl(case, reset))
    if not ok:
        return
    G = O.em_fields(getattr(m, "df", None)) if isinstance(getattr(m, "df", None), pd.DataFrame) else None
    _judge(ctx, "converters", G, E, upd, "exact", stage=stage)
    if upd:
        w = O.cmp_positions_updated(G, E, "exact")
        ctx.check("update_coord", w is None, dict(w, stage=stage + " returned object") if w else None)
    if path:
        if os.path.exists(path):
            _check_file(ctx, path, E, upd, reset, stage)
        else:
            ctx.check("star_fields", False, {"what": "no file written", "route": stage})
        _rm(path)
    elif hasattr(m, "write_out"):
        _direct_write_out(ctx, m, E, upd, reset, "%s_%s" % (conv_name, case["i"]), stage, case)


def _converter_matrix(ctx, case, t, E, rng):
    """emmotl2stopgap / relion2stopgap x output path in {None, file}; update_coordinates and reset_index come from the
    case's stratified flags, so every (update, path) combination of both converters is produced in every run."""
    cm = ctx.cm
    k = (case["i"] // (4 * len(CLASSES))) if isinstance(case["i"], int) else int(rng.integers(0, 4))
    p1 = _path(ctx, case, rng, "conv")
    # emmotl2stopgap always in memory here (the file form is one of the entry routes); relion2stopgap alternates
    if rng.random() < 0.5:
        src, kind = t, "df"
    else:
        ok, src = ctx.call("EmMotl(df)", cm.EmMotl, t)
        kind = "EmMotl"
        if not ok:
            src, kind = t, "df"
    _returned_object(ctx, "emmotl2stopgap", cm.emmotl2stopgap, src, None, case, E, kind)
    if rng.random() < 0.5:
        src, kind = t, "df"
    else:
        ok, src = ctx.call("RelionMotl(df)", cm.RelionMotl, t)
        kind = "RelionMotl"
        if not ok:
            src, kind = t, "df"
    _returned_object(ctx, "relion2stopgap", cm.relion2stopgap, src, p1 if k % 2 else None, case, E, kind)


def _standard(ctx, case, t, E, rng):
    path = _path(ctx, case, rng, "sg")
    _inmem(ctx, case, t, E, rng)
    _converter_matrix(ctx, case, t, E, rng)
    if _export_via_route(ctx, case, t, E, path):
        if os.path.exists(path):
            _check_file(ctx, path, E, case["upd"], case["reset"], case["route"])
            _reload(ctx, case, path, E, case["upd"])
        else:
            ctx.check("star_fields", False, {"what": "no file written", "route": case["route"]})
    _rm(path)


def _foreign(ctx, case, t, E, rng):
    """A list in STOPGAP form that cryoCAT did not write (file from the oracle's writer, or an in-memory STOPGAP-form
    frame) -> particle list -> exported UNEDITED through write_out(.star).  The halfset / motl_idx the loaded list carried
    are arbitrary; the export has to follow the parity rule and motl_idx = subtomo_num (or 1..N)."""
    cm = ctx.cm
    fo = case["foreign"]
    ids = E["subtomo_id"]
    half = O.foreign_halfset(rng, ids, fo["halfset"])
    midx = O.foreign_motl_idx(rng, ids, fo["motl_idx"])
    if case["cls"] == "foreign_star":
        p1 = os.path.join(ctx.scratch, "foreign_%s.star" % case["i"])
        O.write_sg_star(p1, E, half, midx, order=fo["order"], nl=fo["nl"], sep=fo["sep"], numbered=fo["numbered"],
                        fmt=fo["fmt"], int_tokens=fo["int_tokens"], odd_tokens=fo["odd_tokens"])
        # the reference for reading this file is what the file's own tokens say (the foreign writer may use fewer digits
        # than the table holds: '%.10g'), parsed by the oracle's tokenizer
        F1, _, _, err = O.parse_sg_star(p1, len(ids))
        if err is not None:
            from vmon.core import HarnessError
            raise HarnessError("the oracle cannot parse its own foreign file: %s" % err)
        _reload(ctx, case, p1, F1, False)
        ok, m = ctx.call("StopgapMotl(path)", cm.StopgapMotl, p1)
        _rm(p1)
        if not ok:
            return
        E2 = O.em_fields(m.df)
        if not _judge(ctx, "star_reload", E2, F1, False, "star", loader="StopgapMotl(foreign path)"):
            return
    else:
        sgf = O.sg_frame(E, half, midx, fo["order"], fo["int_tokens"])
        if fo["odd_labels"]:
            sgf.index = rng.permutation(len(sgf)) * 2 + 11
        if fo["loader"] == "Motl.load(sg_frame,stopgap)":
            ok, m = ctx.call(fo["loader"], cm.Motl.load, sgf, "stopgap")
        else:
            ok, m = ctx.call("StopgapMotl(sg_frame)", cm.StopgapMotl, sgf)
            if ok and fo["loader"] == "StopgapMotl(StopgapMotl(sg_frame))":
                ok, m = ctx.call("StopgapMotl(StopgapMotl)", cm.StopgapMotl, m)
        if not ok:
            return
        E2 = O.em_fields(m.df)
        if not _judge(ctx, "converters", E2, E, False, "exact", stage=fo["loader"] + ".df"):
            return
    # second generation: the list the object now holds is the reference (exact in memory)
    ok, sg = ctx.call("convert_to_sg_motl(obj.df)", cm.StopgapMotl.convert_to_sg_motl, m.df, _fl(case, case["reset"]))
    if ok:
        ok, back = ctx.call("StopgapMotl(sg_df)", cm.StopgapMotl, sg)
        if ok:
            _judge(ctx, "inmem_roundtrip", O.em_fields(back.df), E2, False, "exact", stage="foreign -> df -> sg -> df")
    p2 = _path(ctx, case, rng, "sg")
    ok, _ = ctx.call("StopgapMotl.write_out", m.write_out, p2, _fl(case, case["upd"]), _fl(case, case["reset"]))
    if ok and os.path.exists(p2):
        _check_file(ctx, p2, E2, case["upd"], case["reset"], case["route"])
        _reload(ctx, case, p2, E2, case["upd"])
    elif ok:
        ctx.check("star_fields", False, {"what": "no file written", "route": case["route"]})
    _rm(p2)


def _mutate_in_place(df, rng):
    """Modify a caller-owned table IN PLACE: parities flip, rows 0 and N-1 exchange their content, positions move, psi and
    theta exchange their values.  Works for cryoCAT-form and STOPGAP-form frames (names looked up in both)."""
    n = len(df)
    cols = set(map(str, df.columns))

    def name(em):
        return em if em in cols else O.EM2SG[em]
    ids = name("subtomo_id")
    df[ids] = df[ids].to_numpy() + rng.integers(0, 2, n).astype(df[ids].to_numpy().dtype)
    df[name("x")] = df[name("x")].to_numpy() + 7.25
    a, b = df[name("psi")].to_numpy().copy(), df[name("theta")].to_numpy().copy()
    df[name("psi")], df[name("theta")] = b, a
    if n >= 2:
        first, last = df.iloc[0].copy(), df.iloc[n - 1].copy()
        df.iloc[0], df.iloc[n - 1] = last, first


def _history(ctx, case, t, E, rng):
    """Three-step histories with in-place mutation of a caller-owned argument between the calls; every call is judged
    against the values the argument holds at that moment (a cached / aliased earlier state would show)."""
    cm = ctx.cm
    reset, upd = case["reset"], case["upd"]
    path = os.path.join(ctx.scratch, "hist_%s.star" % case["i"])
    A = t                                                   # caller-owned table, handed over WITHOUT copying
    # step 1
    ok, sg1 = ctx.call("convert_to_sg_motl(A)", cm.StopgapMotl.convert_to_sg_motl, A, _fl(case, reset))
    if ok:
        w = _judge_sg_frame(sg1, E, reset)
        ctx.check("inmem_roundtrip", w is None, dict(w, stage="history step 1: convert_to_sg_motl(A)") if w else None)
    ok, m = ctx.call("StopgapMotl(A)", cm.StopgapMotl, A)
    if not ok:
        return
    ok, _ = ctx.call("StopgapMotl.write_out", m.write_out, path, _fl(case, False), _fl(case, reset))
    if ok and os.path.exists(path):
        _check_file(ctx, path, E, False, reset, "history step 1: StopgapMotl(A).write_out")
    # step 2: A modified in place; the static converter sees the new values, the object built before keeps its own list
    _mutate_in_place(A, rng)
    EA = O.em_fields(A)
    ok, sg2 = ctx.call("convert_to_sg_motl(A)", cm.StopgapMotl.convert_to_sg_motl, A, _fl(case, not reset))
    if ok:
        w = _judge_sg_frame(sg2, EA, not reset)
        ctx.check("inmem_roundtrip", w is None, dict(w, stage="history step 2: convert_to_sg_motl(A) after A was modified in place") if w else None)
    _judge(ctx, "converters", O.em_fields(m.df), E, False, "exact", stage="history step 2: object built before A was modified")
    # ... then the object's own list is modified in place and exported again, with the other flags
    _mutate_in_place(m.df, rng)
    Em = O.em_fields(m.df)
    ok, _ = ctx.call("StopgapMotl.write_out", m.write_out, path, _fl(case, upd), _fl(case, not reset))
    if ok and os.path.exists(path):
        _check_file(ctx, path, Em, upd, not reset, "history step 2: write_out after obj.df was modified in place")
        _reload(ctx, case, path, Em, upd)
    # step 3: object built from a caller-owned STOPGAP-form frame S; S modified in place afterwards (fields, halfset, motl_idx)
    if isinstance(sg2, pd.DataFrame) and EA is not None:
        S = sg2
        ok, m2 = ctx.call("StopgapMotl(sg_df)", cm.StopgapMotl, S)
        if ok:
            E2 = O.em_fields(m2.df)
            _judge(ctx, "inmem_roundtrip", E2, EA, False, "exact", stage="history step 3: StopgapMotl(S).df")
            kind = int(rng.integers(0, 3))
            if kind in (0, 2):
                S["halfset"] = ["A" if h == "B" else "B" for h in S["halfset"]]
                S["motl_idx"] = np.arange(len(S), 0, -1)
            if kind in (1, 2):
                _mutate_in_place(S, rng)
            Enow = O.em_fields(m2.df)              # the list the object holds NOW is what it has to export
            ok, _ = ctx.call("StopgapMotl.write_out", m2.write_out, path, _fl(case, upd), _fl(case, reset))
            if ok and os.path.exists(path) and Enow is not None:
                _check_file(ctx, path, Enow, upd, reset, "history step 3: write_out after the source frame S was modified in place")
            # and the modified S itself converts to what it holds now
            _direct_import(ctx, S, O.sg_fields(S), "inmem_roundtrip", "exact", "history step 3: convert_to_motl(S modified)", kw=True)
    _rm(path)


def _chained(ctx, case, t, E, rng):
    """FLOW between the anchor functions: the very objects one of them returned are fed into the next one - a table derived
    from a loaded list with its columns permuted (attrs and extra attributes carried along), the frame read_in returned, the
    EmMotl stopgap2emmotl returned - and judged like fresh inputs holding the same values."""
    cm = ctx.cm
    reset, upd = case["reset"], case["upd"]
    p1 = _path(ctx, case, rng, "chain1")
    ok, m = ctx.call("StopgapMotl(df)", cm.StopgapMotl, t)
    if not ok:
        return
    ok, _ = ctx.call("StopgapMotl.write_out", m.write_out, p1, _fl(case, False), _fl(case, reset))
    if not (ok and os.path.exists(p1)):
        return
    _check_file(ctx, p1, E, False, reset, "chain step 1: write_out")
    ok, L = ctx.call("StopgapMotl(path)", cm.StopgapMotl, p1)
    ok2, frame = ctx.call("StopgapMotl.read_in(path)", cm.StopgapMotl.read_in, p1)
    _rm(p1)
    if not ok:
        return
    EL = O.em_fields(L.df)
    if not _judge(ctx, "star_reload", EL, E, False, "star", loader="chain step 2: StopgapMotl(path)"):
        return
    # (a) a table derived from the loaded list: columns permuted, attrs set, the loader's object decorated
    cols = [L.df.columns[k] for k in rng.permutation(len(L.df.columns))]
    t2 = L.df[cols]
    t2.attrs = {"derived_from": "loaded", "n": len(t2)}
    L.note = "decorated"
    src = t2
    kind = int(rng.integers(0, 3))
    if kind == 1:
        ok, src = ctx.call("stopgap2emmotl(StopgapMotl)", cm.stopgap2emmotl, L)      # the EmMotl another anchor returns
        if not ok:
            return
        _judge(ctx, "converters", O.em_fields(src.df), EL, False, "exact", stage="chain: stopgap2emmotl(loaded object)")
    elif kind == 2:
        src = L.df                                                                   # the loader's own table, not a copy
    p2 = _path(ctx, case, rng, "chain2")
    _returned_object(ctx, "emmotl2stopgap", cm.emmotl2stopgap, src, p2 if case["i"] % 2 else None, case, EL,
                     ["derived table", "EmMotl from stopgap2emmotl", "loaded .df"][kind])
    # (b) the frame read_in returned (STOPGAP form), columns permuted -> object -> exported unedited
    if ok2 and isinstance(frame, pd.DataFrame):
        f2 = frame[[frame.columns[k] for k in rng.permutation(len(frame.columns))]]
        f2.attrs = {"specifier": "data_stopgap_motivelist"}
        ok, m3 = ctx.call("StopgapMotl(sg_df)", cm.StopgapMotl, f2)
        if ok:
            E3 = O.em_fields(m3.df)
            if _judge(ctx, "inmem_roundtrip", E3, EL, False, "exact", stage="chain: StopgapMotl(read_in frame, permuted)"):
                p3 = _path(ctx, case, rng, "chain3")
                ok, _ = ctx.call("StopgapMotl.write_out", m3.write_out, p3, _fl(case, upd), _fl(case, not reset))
                if ok and os.path.exists(p3):
                    _check_file(ctx, p3, E3, upd, not reset, "chain: read_in frame -> object -> write_out")
                    _reload(ctx, case, p3, E3, upd)
                _rm(p3)


def _filtered_object(ctx, case, t, E, rng):
    """A list whose row index is not 0..N-1 when it reaches the exporter (after cryoCAT's own remove_feature, a boolean
    row filter, a row permutation, duplicate labels; or a non-range frame handed to the static converter)."""
    cm = ctx.cm
    v = case["variant"]
    n = len(t)
    path = os.path.join(ctx.scratch, "sg_%s.star" % case["i"])
    if v == "static_nonrange_frame":
        keep = np.sort(rng.choice(n, max(1, int(rng.integers(1, n + 1))), replace=False)) if rng.random() < 0.5 else rng.permutation(n)
        sub = t.iloc[keep]
        Es = O.em_fields(sub)
        ok, sg = ctx.call("convert_to_sg_motl(df.iloc[subset])", cm.StopgapMotl.convert_to_sg_motl, sub, _fl(case, case["reset"]))
        if ok:
            ok, back = ctx.call("StopgapMotl(sg_df)", cm.StopgapMotl, sg)
            if ok:
                _judge(ctx, "inmem_roundtrip", O.em_fields(back.df), Es, False, "exact", stage="static converter on a non-range frame")
        ok, m = ctx.call("StopgapMotl(df)", cm.StopgapMotl, t)
        if not ok:
            return
        m.df = m.df.iloc[keep]
    else:
        ok, m = ctx.call("StopgapMotl(df)", cm.StopgapMotl, t)
        if not ok:
            return
        if v == "remove_feature":
            tomos = np.unique(E["tomo_id"])
            if len(tomos) < 2:
                m.df = m.df[np.arange(n) != int(rng.integers(0, n))] if n > 1 else m.df
                m.df.index = m.df.index + 5
            else:
                ok, _ = ctx.call("remove_feature", m.remove_feature, "tomo_id", [float(tomos[int(rng.integers(0, len(tomos)))])])
                if not ok:
                    return
        elif v == "bool_filter":
            mask = rng.random(n) < 0.6
            mask[int(rng.integers(0, n))] = True
            if n > 1 and mask.all():
                mask[0] = False
            m.df = m.df[mask]
        elif v == "row_permutation":
            m.df = m.df.iloc[rng.permutation(n)]
        elif v == "duplicate_labels":
            m.df.index = rng.integers(0, 3, n)
    Es = O.em_fields(m.df)          # the list the object holds when it is exported (positional order)
    if Es is None or len(Es["score"]) < 1:
        ctx.ood("star_fields")
        return
    ok, _ = ctx.call("StopgapMotl.write_out", m.write_out, path, _fl(case, case["upd"]), _fl(case, case["reset"]))
    if ok and os.path.exists(path):
        _check_file(ctx, path, Es, case["upd"], case["reset"], case["route"])
        _reload(ctx, case, path, Es, case["upd"])
    elif ok:
        ctx.check("star_fields", False, {"what": "no file written", "route": case["route"]})
    _rm(path)


def run_case(ctx, case):
    rng = ctx.rng(case["i"], 1)
    t = build_input(case, rng)
    E = O.em_fields(t)
    if case["cls"] in ("foreign_star", "foreign_frame"):
        _foreign(ctx, case, t, E, rng)
    elif case["cls"] == "object_after_filter":
        _filtered_object(ctx, case, t, E, rng)
    elif case["cls"] == "mutation_history":
        _history(ctx, case, t, E, rng)
    elif case["cls"] == "chained_objects":
        _chained(ctx, case, t, E, rng)
    else:
        _standard(ctx, case, t, E, rng)
    if case["i"] % 16 == 5:          # reach the .em branch of StopgapMotl.write_out; what it writes is C01's subject
        try:
            ctx.active = False
            p = os.path.join(ctx.scratch, "branch_%d.em" % case["i"])
            ctx.cm.StopgapMotl(t).write_out(p)
            _rm(p)
        except Exception:
            pass
        finally:
            ctx.active = True


def extra(ctx):
    """Exhaustive small sub-space: every N in 1..K x reset_index x update_coord through the object path."""
    K = 24 if ctx.tier == "quick" else 64
    cnt = 0
    for n in range(1, K + 1):
        for cfg in range(4):
            rng = ctx.rng(10 ** 6 + n, cfg)
            df = gens.motl_table(rng, n, tomos=2, signed=True)
            df["subtomo_id"] = _ids(rng, n, "sparse").astype(float)
            case = {"i": "x%d_%d" % (n, cfg), "cls": "exhaustive", "route": ROUTES[0], "reset": bool(cfg & 1), "upd": bool(cfg & 2),
                    "flag_kind": ["py", "np"][(n + cfg // 2) % 2]}
            E = O.em_fields(df)
            path = os.path.join(ctx.scratch, "x.star")
            if _export_via_route(ctx, case, df, E, path) and os.path.exists(path):
                _check_file(ctx, path, E, case["upd"], case["reset"], "exhaustive n=%d" % n)
                ok, back = ctx.call("StopgapMotl(path)", ctx.cm.StopgapMotl, path)
                if ok:
                    _judge(ctx, "star_reload", O.em_fields(back.df), E, case["upd"], "star", 1.0 if case["upd"] else 2.0, loader="exhaustive")
            _rm(path)
            _returned_object(ctx, "emmotl2stopgap", ctx.cm.emmotl2stopgap, df, None, case, E, "df")
            ok, sg = _direct_export(ctx, df, _fl(case, case["reset"]), kw=bool(cfg & 2))
            if ok:
                _direct_import(ctx, sg, E, "inmem_roundtrip", "exact", "exhaustive: convert_to_motl(convert_to_sg_motl(df))", kw=bool(cfg & 1))
            cnt += 1
    ctx.extra["N=1..%d x reset_index x update_coord (object path, file, reload)" % K] = cnt
