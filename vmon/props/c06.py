"""C06 - Rotation geometry primitives agree with SO(3) ground truth.

Call monitors (attached in place on cryocat.geom, DESIGN.md 4/C06); every expected value comes from hand-written
matrices (vmon.oracles.so3 / c06_oracle), never from scipy or cryoCAT:
  angdist       post(angular_distance): one finite angle per pair, in [0,180], = rotation angle of R1^T R2
  cone          post(cone_distance): = angle between the third columns (images of the z-axis), in [0,180]
  inplane       post(inplane_distance): one finite value per pair, in [0,180]; <= 1e-4 where the two orientations are equal
                (own matrices agree to 1e-12) - for every input form that arrives (Rotation objects or Euler arrays)
  cone_inplane  post(cone_inplane_distance): (cone, inplane) with the two clauses above (Euler arrays and Rotations)
  compare       post(compare_rotations): every returned component satisfies its clause (all four rotation_type values)
  e2n           post(euler_angles_to_normals): one unit row per orientation = third column of R
  n2e           post(normals_to_euler_angles): z-axis of the returned orientation = normalised input (zxz and zzx order)
  viz           post(visualize_rotations / visualize_angles): = radius * image of the z-axis
Relational oracles (driver, on results of real calls):
  symmetry      d(A,B) = d(B,A)
  zero_equal    d(A,A) = 0 (same object and re-encoded equal rotation); inplane(A,A) = 0; in-plane distance of two DIFFERENT
                Euler triples of the same rotation (+-360 shifts, phi/psi trade-off at gimbal lock) = 0 through inplane_distance,
                cone_inplane_distance and compare_rotations, passed as arrays, Rotation objects and mixed
  invariance    d(QA,QB) = d(A,B) = d(AQ,BQ)
  triangle      d(A,C) <= d(A,B) + d(B,C)
  dispatch      compare_rotations(rotation_type=t) returns the distance named t (= the direct call on the same input)
  n2e_roundtrip euler_angles_to_normals(normals_to_euler_angles(v)) = v/|v|
  history       three-step histories: call with caller-owned ndarray A (and B); A updated IN PLACE (same object); call again -
                angular_distance, cone_inplane_distance, compare_rotations, visualize_angles, euler_angles_to_normals,
                normals_to_euler_angles (ndarray and DataFrame): the third step must equal the call on fresh copies of the current
                values / the ground truth of the current values (the call monitors judge every step against the current content
                too); new objects that may reuse the id of a freed array / Rotation (cone_distance, inplane_distance)
"""
import numpy as np

from vmon import monitors
from vmon.oracles import so3
from vmon.oracles import c06_oracle as O

PROP = "C06"
RULE = ("cases = (a) triples of rotation batches A,B,C (n = 1..500) plus one common rotation Q, stratified over random, "
        "identical, near-identical (1e-9..1e-3 deg), antipodal (180 deg), gimbal lock / near gimbal lock, the 24 cube rotations, "
        "the 45-degree Euler lattice, q/-q double cover, wide Euler angles, geodesic triples (triangle equality), single "
        "rotations and big batches, passed as scipy Rotation objects (from own matrices / own quaternions) or Euler arrays; "
        "(b) batches of normals (random, axis-aligned, +-z, y = 0 or x = 0 exactly, lengths 1e-150..1e150, DataFrame, "
        "integer dtype, representability-boundary components); planted in every run: theta outside [0,180] and phi/psi outside "
        "[-180,180], gimbal lock +- 1 ulp / 1e-9..5e-7, batch sizes 2**k-1, 2**k, 2**k+1 and 499/500, float32 / int64 Euler arrays, "
        "exact duplicate rows, +-z rows in every kind of normals batch; non-trivial = not all of A,B,C are the identity (a) / some normal not parallel to +z (b); "
        "distinct by digest of (class, n, input forms, Q kind, first rows of the inputs)")
ASSUMPTIONS = [
    "orientation of an Euler triple (phi,theta,psi), convention 'zxz' in degrees, is R = Rz(psi).Rx(theta).Rz(phi) (DESIGN.md section 3)",
    "a scipy Rotation handed over by the driver is identified with the hand-written matrix/quaternion it was built from; "
    "a Rotation created elsewhere (inside cryoCAT) is read with Rotation.as_matrix() - input reading only, the expected "
    "value is then computed with own numpy code",
    "angle tolerance: min(1e-4, 1e-9 + 1e-9/dist_to_0_or_180) degrees (acos conditioning; measured error of the current code "
    "<= 4.2e-6 deg at the ends, <= 1e-11 deg mid-range); 'zero for equal rotations' is judged as <= 1e-4 deg",
    "vector clauses (unit length, z-axis image) are judged to 1e-9 absolute per component (measured error 1e-15)",
    "normals: every row finite, non-zero, largest component in [1e-150, 1e150] (squares representable in IEEE double); float64 or "
    "integer arrays / numeric DataFrame columns (a float32 array is processed by numpy in float32 and cannot meet the 1e-9 vector tolerance: not judged)",
    "calls with c_symmetry != 1, convention != 'zxz', degrees != True or unequal batch sizes are outside the property (counted, not judged)",
]

ROT_CLASSES = ["random", "identical", "near_identical", "antipodal", "gimbal", "near_gimbal", "cube24", "lattice45",
               "double_cover", "wide_euler", "noncanonical_euler", "boundary_euler", "geodesic", "single", "big_batch"]
NRM_CLASSES = ["normals_random", "normals_axis", "normals_pmz", "normals_y0", "normals_scaled", "normals_df", "normals_int",
               "normals_boundary"]
CLASSES = ROT_CLASSES + NRM_CLASSES          # 23 classes

# planted values (round 5): gimbal lock and its floating-point neighbours, values 1e-9..5e-7 away from a special angle, angles whose
# text form is unusual, adjacent integers just above 1e5, full turns
_NA = np.nextafter
THETA_POOL = np.array([0.0, -0.0, 180.0, _NA(180.0, 0.0), _NA(180.0, 360.0), _NA(0.0, 1.0), 1e-9, 1e-7, 5e-7, 3e-06, 1e-5,
                       180.0 - 1e-7, 180.0 - 5e-7, 179.999999, 90.0, _NA(90.0, 0.0), 360.0, -180.0, 540.0, -90.0, 270.0, 45.0, 0.5])
PHI_POOL = np.array([0.0, -0.0, 180.0, -180.0, _NA(180.0, 0.0), _NA(-180.0, 0.0), _NA(180.0, 360.0), 360.0, -360.0, 1e-9, 3e-06,
                     5e-7, 45.0, 90.0, 270.0, 100001.0, 100002.0, 16777217.0, 0.5, 179.9999995, -179.9999995])
BLOCK_SIZES = [63, 64, 65, 127, 128, 129, 255, 256, 257, 499, 500]      # 2**k-1, 2**k, 2**k+1 up to the largest batch of the quantifier

VEC_TOL = 1e-9
ZERO_TOL = 1e-4
LOSSY = 1e-7          # a re-encoded input that moved by more than this (degrees) is not the intended rotation: not judged

_S = {"ctx": None, "srot": None, "reg": {}}


def plan(tier):
    # Floors: vmon/core.py requires HALF of the stated figure.  Every figure below is 1.6 x the evaluations that the DRIVER'S OWN
    # direct calls produce (measured with VERIF_BYPASS_INTERNAL=1, i.e. with the monitors blind to calls made from inside the cryocat
    # package), so the effective floor is ~80% of the driver-only count and holds whatever cryoCAT's internal call structure is.
    if tier == "quick":
        return dict(n_cases=1150, shards=1, classes=CLASSES, timeout_s=900,
                    min_evals={"angdist": 18300, "cone": 9700, "inplane": 11000, "cone_inplane": 12000, "compare": 15700,
                               "e2n": 7300, "n2e": 2570, "viz": 9600, "symmetry": 1230, "zero_equal": 14300, "invariance": 2450,
                               "triangle": 1230, "dispatch": 4950, "n2e_roundtrip": 1280, "history": 9000})
    return dict(n_cases=16000, shards=16, classes=CLASSES, timeout_s=3000,
                min_evals={"angdist": 251000, "cone": 133000, "inplane": 150000, "cone_inplane": 166000, "compare": 216000,
                           "e2n": 101000, "n2e": 35500, "viz": 134000, "symmetry": 16700, "zero_equal": 198000,
                           "invariance": 33000, "triangle": 16700, "dispatch": 66900, "n2e_roundtrip": 17700, "history": 125000})


# ---- reading the inputs of an observed call ----------------------------------------------------------
def _num_array(x):
    if isinstance(x, np.ndarray) and x.dtype.kind in "fiu" and x.size > 0 and x.ndim in (1, 2) and x.shape[-1] == 3:
        xf = np.asarray(x, dtype=float)
        if np.all(np.isfinite(xf)):
            return xf
    return None


def _mats(x, convention="zxz", degrees=True):
    """matrices (n,3,3) of an argument of a geom function, or None when it is outside the property's quantifier."""
    srot = _S["srot"]
    if isinstance(x, np.ndarray):
        if convention != "zxz" or degrees is not True:
            return None
        xf = _num_array(x)
        return None if xf is None else so3.zxz_rows(xf)
    if isinstance(x, srot):
        r = _S["reg"].get(id(x))
        if r is not None and r[0] is x:
            return r[1]
        try:
            M = np.asarray(x.as_matrix(), dtype=float)
        except Exception:
            return None
        if M.ndim == 2:
            M = M[None]
        if M.ndim != 3 or M.shape[1:] != (3, 3) or len(M) == 0 or not np.all(np.isfinite(M)):
            return None
        return M
    return None


def _pair(a, b, convention="zxz", degrees=True):
    M1, M2 = _mats(a, convention, degrees), _mats(b, convention, degrees)
    if M1 is None or M2 is None or len(M1) != len(M2):
        return None
    return M1, M2


def _row_desc(M1, M2, j):
    return {"euler1_phi_theta_psi": O.mats_to_euler(M1[j:j + 1])[0].round(9).tolist(),
            "euler2_phi_theta_psi": O.mats_to_euler(M2[j:j + 1])[0].round(9).tolist()}


def _angle_verdict(got, exp, n, what):
    """(ok, witness) for an array of angles against ground truth: shape, finite, [0,180], value within tol_angle."""
    try:
        g = np.asarray(got, dtype=float)
    except Exception:
        return False, {"what": what, "problem": "not numeric", "type": type(got).__name__}
    if g.shape != (n,):
        return False, {"what": what, "problem": "shape", "got_shape": list(g.shape), "expected_shape": [n]}
    nonfin = ~np.isfinite(g)
    rng_bad = ~nonfin & ((g < 0.0) | (g > 180.0 + 1e-9))
    val_bad = np.zeros(n, bool) if exp is None else (~nonfin & (np.abs(g - exp) > O.tol_angle(exp)))
    bad = nonfin | rng_bad | val_bad
    if not bad.any():
        return True, None
    j = O.first_bad(bad)
    kind = "non-finite" if nonfin[j] else ("outside [0,180]" if rng_bad[j] else "value")
    w = {"what": what, "problem": kind, "row": j, "n": n, "got": float(g[j]), "n_bad_rows": int(bad.sum())}
    if exp is not None:
        w.update(expected=float(exp[j]), tol=float(O.tol_angle(exp[j])))
    return False, w


# ---- call monitors ------------------------------------------------------------------------------------
def _ad_snapshot(A):
    return _pair(A["input_rot1"], A["input_rot2"], A["convention"], A["degrees"])


def _ad_applicable(A):
    return A["c_symmetry"] == 1 and _ad_snapshot(A) is not None


def _ad_post(ctx, A, OLD, result):
    M1, M2 = OLD
    n = len(M1)
    if not (isinstance(result, tuple) and len(result) == 2):
        ctx.check("angdist", False, {"problem": "result is not (angle, dist)", "type": type(result).__name__})
        return
    exp = O.rel_angle(M1, M2)
    ok, w = _angle_verdict(result[0], exp, n, "angular_distance")
    if not ok and "row" in w:
        w.update(_row_desc(M1, M2, w["row"]))
    ctx.check("angdist", ok, w)


def _rot_only(A):
    srot = _S["srot"]
    return isinstance(A["input_rot1"], srot) and isinstance(A["input_rot2"], srot)


def _cone_snapshot(A):
    return _pair(A["input_rot1"], A["input_rot2"])


def _cone_applicable(A):
    return _rot_only(A) and _cone_snapshot(A) is not None


def _cone_post(ctx, A, OLD, result):
    M1, M2 = OLD
    ok, w = _angle_verdict(result, O.cone_angle(M1, M2), len(M1), "cone_distance")
    if not ok and "row" in w:
        w.update(_row_desc(M1, M2, w["row"]))
    ctx.check("cone", ok, w)


def _plain(A):
    return A["convention"] == "zxz" and A["degrees"] is True and A["c_symmetry"] == 1


EQ_TOL = 1e-12        # two orientations are "equal" when their hand-written matrices agree to this, entry-wise


def equal_rows(M1, M2):
    """rows holding the same rotation (own matrices) whose in-plane angle is well defined numerically: exact gimbal lock
    (sin(theta) <= 1e-9) or sin(theta) >= 1e-3; strictly in between the first Euler angle is ill-conditioned: not judged."""
    eq = np.max(np.abs(M1 - M2).reshape(len(M1), 9), axis=1) <= EQ_TOL
    st = np.sqrt(M1[:, 0, 2] ** 2 + M1[:, 1, 2] ** 2)
    return eq & ((st <= 1e-9) | (st >= 1e-3))


def _inplane_verdict(got, M1, M2, what):
    """in-plane clause: one finite value per pair, in [0,180], and <= ZERO_TOL where the two orientations are equal"""
    n = len(M1)
    ok, w = _angle_verdict(got, None, n, what)
    if ok:
        rows = equal_rows(M1, M2)
        if rows.any():
            g = np.asarray(got, dtype=float)
            bad = rows & ~(np.abs(g) <= ZERO_TOL)
            if bad.any():
                j = O.first_bad(bad)
                ok, w = False, {"what": what, "problem": "does not vanish for equal orientations", "row": j, "n": n, "got": float(g[j]),
                                "expected": 0.0, "tol": ZERO_TOL, "n_bad_rows": int(bad.sum()),
                                "max_matrix_difference": float(np.max(np.abs(M1[j] - M2[j])))}
    return ok, w


def _arg_desc(A, k1, k2, j):
    """the raw arguments of row j (Euler triple as passed, or 'Rotation')"""
    out = {}
    for name, k in (("arg1", k1), ("arg2", k2)):
        x = A.get(k)
        if isinstance(x, np.ndarray):
            out[name] = np.atleast_2d(x)[j].tolist()
        else:
            out[name] = type(x).__name__
    return out


def _ip_applicable(A):
    return _plain(A) and _ad_snapshot(A) is not None


def _ip_post(ctx, A, OLD, result):
    M1, M2 = OLD
    ok, w = _inplane_verdict(result, M1, M2, "inplane_distance")
    if not ok and "row" in w:
        w.update(_arg_desc(A, "input_rot1", "input_rot2", w["row"]))
        w.update(_row_desc(M1, M2, w["row"]))
    ctx.check("inplane", ok, w)


def _cip_applicable(A):
    return _plain(A) and _ad_snapshot(A) is not None


def _cip_post(ctx, A, OLD, result):
    M1, M2 = OLD
    n = len(M1)
    if not (isinstance(result, tuple) and len(result) == 2):
        ctx.check("cone_inplane", False, {"problem": "result is not (cone, inplane)", "type": type(result).__name__})
        return
    ok, w = _angle_verdict(result[0], O.cone_angle(M1, M2), n, "cone_inplane_distance[0] (cone)")
    if ok:
        ok, w = _inplane_verdict(result[1], M1, M2, "cone_inplane_distance[1] (inplane)")
        if not ok and "row" in w:
            w.update(_arg_desc(A, "input_rot1", "input_rot2", w["row"]))
    if not ok and "row" in w:
        w.update(_row_desc(M1, M2, w["row"]))
    ctx.check("cone_inplane", ok, w)


RTYPES = ["all", "angular_distance", "cone_distance", "in_plane_distance"]


def _cmp_snapshot(A):
    return _pair(A["angles1"], A["angles2"])


def _cmp_applicable(A):
    return A["c_symmetry"] == 1 and A["rotation_type"] in RTYPES and _cmp_snapshot(A) is not None


def _cmp_post(ctx, A, OLD, result):
    M1, M2 = OLD
    n = len(M1)
    t = A["rotation_type"]
    exp = {"angular_distance": O.rel_angle(M1, M2), "cone_distance": O.cone_angle(M1, M2), "in_plane_distance": None}
    if t == "all":
        if not (isinstance(result, tuple) and len(result) == 3):
            ctx.check("compare", False, {"problem": "rotation_type='all' did not return three distances", "type": type(result).__name__})
            return
        parts = list(zip(RTYPES[1:], result))
    else:
        parts = [(t, result)]
    ok, w = True, None
    for name, got in parts:
        what = "compare_rotations(rotation_type=%r) component %s" % (t, name)
        ok, w = _inplane_verdict(got, M1, M2, what) if name == "in_plane_distance" else _angle_verdict(got, exp[name], n, what)
        if not ok:
            if "row" in w:
                w.update(_arg_desc(A, "angles1", "angles2", w["row"]))
                w.update(_row_desc(M1, M2, w["row"]))
            break
    ctx.check("compare", ok, w)


def _angles_arg(x):
    if isinstance(x, (list, tuple)):
        try:
            x = np.asarray(x)
        except Exception:
            return None
    return _num_array(x)


def _e2n_applicable(A):
    return _angles_arg(A["angles"]) is not None


def _e2n_snapshot(A):
    return np.atleast_2d(_angles_arg(A["angles"])).copy()


def _vec_verdict(got, exp, what, scale=1.0, unit=False):
    try:
        g = np.asarray(got, dtype=float)
    except Exception:
        return False, {"what": what, "problem": "not numeric", "type": type(got).__name__}
    if g.shape != exp.shape:
        return False, {"what": what, "problem": "shape", "got_shape": list(g.shape), "expected_shape": list(exp.shape)}
    nonfin = ~np.all(np.isfinite(g), axis=1)
    with np.errstate(invalid="ignore"):
        val_bad = ~nonfin & (np.max(np.abs(g - exp), axis=1) > VEC_TOL * scale)
        len_bad = ~nonfin & (np.abs(np.sqrt(np.sum(g * g, axis=1)) - 1.0) > VEC_TOL) if unit else np.zeros(len(g), bool)
    bad = nonfin | val_bad | len_bad
    if not bad.any():
        return True, None
    j = O.first_bad(bad)
    kind = "non-finite" if nonfin[j] else ("not unit length" if len_bad[j] else "value")
    return False, {"what": what, "problem": kind, "row": j, "n": len(g), "got": g[j].tolist(), "expected": exp[j].tolist(),
                   "got_length": float(np.sqrt(np.sum(g[j] * g[j]))), "n_bad_rows": int(bad.sum())}


def _e2n_post(ctx, A, E, result):
    Z = O.z_image(so3.zxz_rows(E))
    ok, w = _vec_verdict(result, Z, "euler_angles_to_normals", unit=True)
    if not ok and "row" in w:
        w["euler_phi_theta_psi"] = E[w["row"]].tolist()
    ctx.check("e2n", ok, w)


def _normals_arg(x):
    """(n,3) float array of the normals cryoCAT will use, or None when outside the quantifier."""
    try:
        import pandas as pd
    except Exception:
        pd = None
    if pd is not None and isinstance(x, pd.DataFrame):
        if not all(c in x.columns for c in ("x", "y", "z")) or len(x) == 0 or x.columns.duplicated().any():
            return None
        try:
            v = x.loc[:, ["x", "y", "z"]].to_numpy(dtype=float)
        except Exception:
            return None
    elif (isinstance(x, np.ndarray) and x.ndim == 2 and x.shape[1] == 3 and len(x) > 0
          and (x.dtype == np.float64 or x.dtype.kind in "iu")):      # float32/float16 arrays: numpy computes in that precision, not judged
        v = np.asarray(x, dtype=float)
    else:
        return None
    if not np.all(np.isfinite(v)):
        return None
    m = np.max(np.abs(v), axis=1)
    if np.any(m < 1e-150) or np.any(m > 1e150):
        return None
    return v


def _n2e_applicable(A):
    return A["output_order"] in ("zxz", "zzx") and _normals_arg(A["input_normals"]) is not None


def _n2e_snapshot(A):
    return _normals_arg(A["input_normals"]).copy()


def decode_order(angles, order):
    a = np.asarray(angles, dtype=float)
    return a if order == "zxz" else a[:, [0, 2, 1]]          # zzx rows are (phi, psi, theta)


def _n2e_post(ctx, A, V, result):
    n = len(V)
    order = A["output_order"]
    try:
        a = np.asarray(result, dtype=float)
    except Exception:
        ctx.check("n2e", False, {"problem": "result not numeric", "type": type(result).__name__})
        return
    if a.shape != (n, 3):
        ctx.check("n2e", False, {"problem": "shape", "got_shape": list(a.shape), "expected_shape": [n, 3], "output_order": order})
        return
    if not np.all(np.isfinite(a)):
        j = O.first_bad(~np.all(np.isfinite(a), axis=1))
        ctx.check("n2e", False, {"problem": "non-finite angles", "row": j, "normal": V[j].tolist(), "angles": a[j].tolist(), "output_order": order})
        return
    e = decode_order(a, order)
    Z = O.z_image(so3.zxz_rows(e))
    U = O.unit_rows(V)
    ok, w = _vec_verdict(Z, U, "z-axis of normals_to_euler_angles(output_order=%r)" % order)
    if not ok and "row" in w:
        j = w["row"]
        w.update(normal=V[j].tolist(), returned_angles=a[j].tolist(), angle_off_deg=float(so3.angle_between(Z[j], U[j])))
        w["got_z_axis"], w["expected_z_axis"] = w.pop("got"), w.pop("expected")
    ctx.check("n2e", ok, w)


def _radius_ok(r):
    return isinstance(r, (int, float, np.integer, np.floating)) and not isinstance(r, bool) and np.isfinite(r) and r != 0


def _vr_applicable(A):
    return isinstance(A["rotations"], _S["srot"]) and _radius_ok(A["radius"]) and _mats(A["rotations"]) is not None


def _vr_snapshot(A):
    return _mats(A["rotations"])


def _vr_post(ctx, A, M, result):
    r = float(A["radius"])
    ok, w = _vec_verdict(result, O.z_image(M) * r, "visualize_rotations(radius=%r)" % r, max(1.0, abs(r)))
    if not ok and "row" in w:
        w["euler_phi_theta_psi"] = O.mats_to_euler(M[w["row"]:w["row"] + 1])[0].round(9).tolist()
    ctx.check("viz", ok, w)


def _va_post(ctx, A, E, result):
    ok, w = _vec_verdict(result, O.z_image(so3.zxz_rows(E)), "visualize_angles")
    if not ok and "row" in w:
        w["euler_phi_theta_psi"] = E[w["row"]].tolist()
    ctx.check("viz", ok, w)


def setup(ctx):
    from cryocat import geom
    from scipy.spatial.transform import Rotation as srot
    from cryocat.exceptions import UserInputError
    ctx.geom, ctx.srot, ctx.UserInputError = geom, srot, UserInputError
    _S.update(ctx=ctx, srot=srot, reg={})
    f_ad = monitors.wrap(ctx, geom, "angular_distance", "angdist", _ad_post, _ad_applicable, _ad_snapshot)
    f_cd = monitors.wrap(ctx, geom, "cone_distance", "cone", _cone_post, _cone_applicable, _cone_snapshot)
    f_ip = monitors.wrap(ctx, geom, "inplane_distance", "inplane", _ip_post, _ip_applicable, _ad_snapshot)
    f_ci = monitors.wrap(ctx, geom, "cone_inplane_distance", "cone_inplane", _cip_post, _cip_applicable, _ad_snapshot)
    f_cr = monitors.wrap(ctx, geom, "compare_rotations", "compare", _cmp_post, _cmp_applicable, _cmp_snapshot)
    f_en = monitors.wrap(ctx, geom, "euler_angles_to_normals", "e2n", _e2n_post, _e2n_applicable, _e2n_snapshot)
    f_ne = monitors.wrap(ctx, geom, "normals_to_euler_angles", "n2e", _n2e_post, _n2e_applicable, _n2e_snapshot)
    f_vr = monitors.wrap(ctx, geom, "visualize_rotations", "viz", _vr_post, _vr_applicable, _vr_snapshot)
    f_va = monitors.wrap(ctx, geom, "visualize_angles", "viz", _va_post, _e2n_applicable, _e2n_snapshot)
    ctx.declare("symmetry", "zero_equal", "invariance", "triangle", "dispatch", "n2e_roundtrip", "history")
    monitors.trace(ctx, [
        ("angular_distance", f_ad, {"euler_in1": "rot1 = srot.from_euler(convention, input_rot1", "rot_in1": "rot1 = input_rot1",
                                    "euler_in2": "rot2 = srot.from_euler(convention, input_rot2", "rot_in2": "rot2 = input_rot2",
                                    "c_symmetry": "sym_div = 360.0 / c_symmetry", "size_mismatch": "The size of input rotations differ"}),
        ("cone_distance", f_cd),
        ("inplane_distance", f_ip, {"c_symmetry": "sym_div = 360.0 / c_symmetry"}),
        ("cone_inplane_distance", f_ci, {"euler_in1": "rot1 = srot.from_euler(convention, input_rot1", "rot_in1": "rot1 = input_rot1",
                                         "euler_in2": "rot2 = srot.from_euler(convention, input_rot2", "rot_in2": "rot2 = input_rot2"}),
        ("compare_rotations", f_cr, {"all": ("return dist_degrees", 0), "angular_distance": ("return dist_degrees", 1),
                                     "cone_distance": ("return dist_degrees", 2), "in_plane_distance": ("return dist_degrees", 3),
                                     "unsupported": "raise UserInputError"}),
        ("euler_angles_to_normals", f_en),
        ("normals_to_euler_angles", f_ne, {"dataframe_in": "input_normals.loc", "ndarray_in": ("normals = input_normals", 1),
                                           "refuse": "raise UserInputError", "pm_z_rows": "psi[b_idx] = 0",
                                           "order_zzx": "np.column_stack((phi, psi, theta))", "order_zxz": "np.column_stack((phi, theta, psi))"}),
        ("visualize_rotations", f_vr, {"plot": "fig = plt.figure()", "plot_no_cmap": ("ax.scatter(", 0), "plot_cmap": ("ax.scatter(", 1)}),
        ("visualize_angles", f_va),
    ])


# ---- generator ----------------------------------------------------------------------------------------
def _rand_axes(rng, n):
    a = rng.normal(size=(n, 3))
    a[np.linalg.norm(a, axis=1) < 1e-6] = [0.0, 0.0, 1.0]
    return a


def _triple(rng, kind, n):
    """-> dict name -> {"M": (n,3,3), "E": native Euler (n,3) or None, "q": native quaternions or None}"""
    def X(M=None, E=None, q=None):
        if M is None:
            M = so3.zxz_rows(E) if E is not None else O.quat_to_mats(q)
        return {"M": M, "E": E, "q": q}
    R = lambda: so3.random_rotations(rng, n)
    if kind == "random":
        return X(R()), X(R()), X(R())
    if kind == "identical":
        A = R()
        C = R()
        same = rng.random(n) < 0.5
        C[same] = A[same]
        return X(A), X(A.copy()), X(C)
    if kind == "near_identical":
        A = R()
        B = A @ O.axis_angle_rows(_rand_axes(rng, n), 10.0 ** rng.uniform(-9, -3, n))
        C = B @ O.axis_angle_rows(_rand_axes(rng, n), 10.0 ** rng.uniform(-9, -3, n))
        return X(A), X(B), X(C)
    if kind == "antipodal":
        A = R()
        ang = np.where(rng.random(n) < 0.6, 180.0, 180.0 - 10.0 ** rng.uniform(-9, -3, n))
        B = A @ O.axis_angle_rows(_rand_axes(rng, n), ang)
        C = np.where((rng.random(n) < 0.5)[:, None, None], B @ O.axis_angle_rows(_rand_axes(rng, n), np.full(n, 180.0)), R())
        return X(A), X(B), X(C)
    if kind == "gimbal":
        return tuple(X(E=so3.random_euler(rng, n, "gimbal")) for _ in range(3))
    if kind == "near_gimbal":
        res = []
        for _ in range(3):
            E = so3.random_euler(rng, n, "random")
            E[:, 1] = rng.choice([0.0, 180.0], n) + rng.choice([-1.0, 1.0], n) * 10.0 ** rng.uniform(-9, -4, n)
            res.append(X(E=E))
        return tuple(res)
    if kind == "cube24":
        G = O.cube_mats()
        return tuple(X(G[rng.integers(0, 24, n)].copy()) for _ in range(3))
    if kind == "lattice45":
        return tuple(X(E=rng.integers(-8, 9, (n, 3)) * 45.0) for _ in range(3))
    if kind == "double_cover":
        q = rng.normal(size=(n, 4))
        q /= np.linalg.norm(q, axis=1, keepdims=True)
        q2 = rng.normal(size=(n, 4))
        q2 /= np.linalg.norm(q2, axis=1, keepdims=True)
        flip = rng.random(n) < 0.6
        qb = np.where(flip[:, None], -q, q2)
        q3 = rng.normal(size=(n, 4))
        q3 /= np.linalg.norm(q3, axis=1, keepdims=True)
        q3 *= np.where(q3[:, 3:4] > 0, -1.0, 1.0)       # scalar part negative
        return X(q=q), X(q=qb), X(q=q3)
    if kind == "wide_euler":
        return tuple(X(E=rng.uniform(-720, 720, (n, 3))) for _ in range(3))
    if kind == "noncanonical_euler":        # theta outside [0,180] (negative, 180..360, below -180), phi/psi outside [-180,180]
        res = []
        for _ in range(3):
            th = np.where(rng.random(n) < 0.5, rng.uniform(-180.0, 0.0, n), rng.uniform(180.0, 360.0, n))
            far = rng.random(n) < 0.25
            th = np.where(far, rng.uniform(-360.0, -180.0, n), th)
            E = np.column_stack([rng.choice([-1.0, 1.0], n) * rng.uniform(180.0, 720.0, n), th,
                                 rng.choice([-1.0, 1.0], n) * rng.uniform(180.0, 720.0, n)])
            res.append(X(E=E))
        return tuple(res)
    if kind == "boundary_euler":
        res = []
        for k in range(3):
            E = np.column_stack([rng.choice(PHI_POOL, n), rng.choice(THETA_POOL, n), rng.choice(PHI_POOL, n)])
            if k and n > 1:                     # half of the rows of B, C: the row of A with ONE component moved to a pool neighbour
                m = rng.random(n) < 0.5
                E[m] = res[0]["E"][m]
                col = rng.integers(0, 3, n)
                for j in np.flatnonzero(m):
                    E[j, col[j]] = rng.choice(THETA_POOL if col[j] == 1 else PHI_POOL)
            res.append(X(E=E))
        return tuple(res)
    if kind == "geodesic":
        A = R()
        ax = _rand_axes(rng, n)
        total = np.where(rng.random(n) < 0.2, 180.0, rng.uniform(0.0, 180.0, n))
        t = rng.uniform(0.0, 1.0, n)
        return X(A), X(A @ O.axis_angle_rows(ax, t * total)), X(A @ O.axis_angle_rows(ax, total))
    raise ValueError(kind)


MIX_KINDS = ["random", "identical", "near_identical", "antipodal", "gimbal", "near_gimbal", "cube24", "lattice45", "wide_euler",
             "noncanonical_euler", "boundary_euler", "geodesic"]


def _mixed_triple(rng, n):
    kinds = rng.integers(0, len(MIX_KINDS), n)
    out = [np.empty((n, 3, 3)) for _ in range(3)]
    for k, name in enumerate(MIX_KINDS):
        m = kinds == k
        if m.any():
            tr = _triple(rng, name, int(m.sum()))
            for j in range(3):
                out[j][m] = tr[j]["M"]
    return tuple({"M": M, "E": None, "q": None} for M in out)


def _pick_n(rng, cls, tier):
    if cls == "single":
        return 1
    if cls == "big_batch":
        return int(rng.integers(300, 501))
    u = rng.random()
    if u < 0.2:
        return int(rng.choice(BLOCK_SIZES))
    if u < 0.55:
        return int(rng.choice([1, 2, 3, 5, 8, 17, 64, 150] if tier == "quick" else [1, 2, 4, 9, 33, 128, 257, 500]))
    return int(rng.integers(1, 61 if tier == "quick" else 201))


def _gen_rot(ctx, rng, i, cls):
    n = _pick_n(rng, cls, ctx.tier)
    if cls == "big_batch":
        tr = _mixed_triple(rng, n)
    elif cls == "single":
        sub = str(rng.choice(["random", "identical", "antipodal", "gimbal", "lattice45", "near_identical", "cube24"]))
        tr = _triple(rng, sub, 1)
    else:
        tr = _triple(rng, cls, n)
    # Euler encoding of every batch: native angles where the class is defined by them, else own inverse + 360-degree aliases
    for X in tr:
        if X["E"] is None:
            E = O.mats_to_euler(X["M"])
            E = E + 360.0 * rng.integers(-1, 2, E.shape) * (rng.random(E.shape) < 0.3)
            # the same rotation written with theta outside [0,180]: (phi+180, -theta, psi+180) or (phi+180, 360-theta, psi+180)
            alt = rng.random(len(E)) < 0.3
            neg = rng.random(len(E)) < 0.5
            E[alt, 0] += 180.0
            E[alt, 2] += 180.0
            E[alt, 1] = np.where(neg[alt], -E[alt, 1], 360.0 - E[alt, 1])
            X["E_derived"] = E
    # exact duplicates: one row repeated inside the batch (same row pair in A, B and C)
    if n >= 2 and rng.random() < 0.4:
        j0, j1 = (int(v) for v in rng.choice(n, 2, replace=False))
        for X in tr:
            for key in ("M", "E", "q", "E_derived"):
                if X.get(key) is not None:
                    X[key][j1] = X[key][j0]
    # dtype of Euler arrays handed to cryoCAT (the expected value is computed from the cast values)
    edt = str(rng.choice(["float64", "float64", "float64", "float32", "int64"]))
    for X in tr:
        X["dtype"] = edt
    qk = str(rng.choice(["haar", "haar", "cube", "tiny", "pi", "to_identity", "gimbal"]))
    if qk == "haar":
        Q = so3.random_rotations(rng, 1)[0]
    elif qk == "cube":
        Q = O.cube_mats()[int(rng.integers(0, 24))].copy()
    elif qk == "tiny":
        Q = O.axis_angle_rows(_rand_axes(rng, 1), [10.0 ** rng.uniform(-8, -2)])[0]
    elif qk == "pi":
        Q = O.axis_angle_rows(_rand_axes(rng, 1), [180.0])[0]
    elif qk == "gimbal":
        Q = so3.zxz_rows(so3.random_euler(rng, 1, "gimbal"))[0]
    else:
        Q = tr[0]["M"][0].T.copy()
    if cls == "single":
        forms = [str(rng.choice(["single_rot", "single_euler", "single_quat"])) for _ in range(3)]
    elif cls == "double_cover":
        forms = ["quat"] * 3
    elif cls in ("gimbal", "near_gimbal", "lattice45", "wide_euler", "noncanonical_euler", "boundary_euler"):
        forms = [str(rng.choice(["euler", "euler", "rot", "quat"])) for _ in range(3)]
    else:
        forms = [str(rng.choice(["rot", "euler", "quat"])) for _ in range(3)]
    radius = float(rng.choice([1.0, 0.5, 2.0, 37.5, 1e-3, 1e3, float(rng.uniform(0.1, 10))]))
    ident = all(np.allclose(X["M"], np.eye(3), atol=1e-9) for X in tr)
    e0 = [(X["E"] if X["E"] is not None else X["E_derived"])[:2].round(6).tolist() for X in tr]
    return {"kind": "rot", "cls": cls, "i": i, "n": n, "tr": tr, "Q": Q, "q_kind": qk, "forms": forms, "radius": radius,
            "nontrivial": not ident,
            "summary": {"class": cls, "n": n, "forms": forms, "Q": qk, "radius": radius, "euler_dtype": edt, "A_euler_head": e0[0], "B_euler_head": e0[1],
                        "C_euler_head": e0[2]}}


def _gen_normals(ctx, rng, i, cls):
    n = _pick_n(rng, "x", ctx.tier)
    df_meta = None
    if cls == "normals_random":
        v = rng.normal(size=(n, 3)) * 10.0 ** rng.uniform(-3, 3, (n, 1))
    elif cls == "normals_axis":
        pool = np.array([[1, 0, 0], [-1, 0, 0], [0, 1, 0], [0, -1, 0], [0, 0, 1], [0, 0, -1], [1, 1, 0], [1, -1, 0], [-1, 1, 0],
                         [-1, -1, 0], [1, 0, 1], [-1, 0, 1], [1, 0, -1], [-1, 0, -1], [0, 1, 1], [0, -1, 1], [0, 1, -1], [0, -1, -1]], float)
        v = pool[rng.integers(0, len(pool), n)] * rng.choice([1.0, 2.0, 0.5, 1e3, 1e-3, 7.25], (n, 1))
    elif cls == "normals_pmz":
        v = np.zeros((n, 3))
        v[:, 2] = rng.choice([-1.0, 1.0], n) * rng.choice([1.0, 3.0, 1e-6, 1e6, 0.25], n)
        v[:, 0] = np.where(rng.random(n) < 0.5, -0.0, 0.0)
        v[:, 1] = np.where(rng.random(n) < 0.5, -0.0, 0.0)
    elif cls == "normals_y0":
        v = rng.normal(size=(n, 3)) * 10.0 ** rng.uniform(-2, 2, (n, 1))
        which = rng.integers(0, 4, n)                       # 0/1: y = 0 exactly, 2: x = 0 exactly, 3: y = 0 and z = 0
        v[which <= 1, 1] = np.where(rng.random(int((which <= 1).sum())) < 0.5, -0.0, 0.0)
        v[which == 2, 0] = np.where(rng.random(int((which == 2).sum())) < 0.5, -0.0, 0.0)
        v[which == 3, 1] = 0.0
        v[which == 3, 2] = 0.0
    elif cls == "normals_scaled":
        u = O.unit_rows(rng.normal(size=(n, 3)) + 1e-3)
        v = u * 10.0 ** rng.uniform(-148, 148, (n, 1))
    elif cls == "normals_int":
        v = rng.integers(-4, 5, (n, 3))
        v[np.all(v == 0, axis=1)] = [0, 0, 1]
        v = v.astype([np.int64, np.int32, np.int16][int(rng.integers(0, 3))])
    elif cls == "normals_boundary":      # representability boundaries as component values (all exactly representable doubles)
        f32 = np.finfo(np.float32)
        top = np.float32(f32.max)
        pool = np.array([0.0, -0.0, 1.0, 100001.0, 100002.0, 2.0 ** 24, 2.0 ** 24 + 1, 2.0 ** 31, 2.0 ** 53, float(top),
                         float(np.nextafter(top, np.float32(0))), float(np.nextafter(np.nextafter(top, np.float32(0)), np.float32(0))),
                         1e-40, 1.4e-45, float(f32.tiny), 3e-06, 1e+16, 0.5, float(np.nextafter(0.5, 0.0)), 1e-9, 5e-7, 2.5, 1e5])
        v = rng.choice(pool, (n, 3)) * rng.choice([-1.0, 1.0], (n, 3))
        m = rng.random(n) < 0.4                    # rows of comparable components (direction matters, not only the largest entry)
        v[m] = rng.choice([100001.0, 100002.0, 2.0 ** 24, 2.0 ** 24 + 1, 1e5], (int(m.sum()), 3)) * rng.choice([-1.0, 1.0], (int(m.sum()), 3))
    else:  # normals_df
        v = rng.normal(size=(n, 3)) * 10.0 ** rng.uniform(-2, 2, (n, 1))
        k = rng.integers(0, 5, n)
        v[k == 1, 1] = 0.0
        v[k == 2, 0] = 0.0
        v[k == 3, :2] = 0.0
        df_meta = {"order": [str(c) for c in rng.permutation(["x", "y", "z", "score", "tomo_id"])],
                   "index": "odd" if rng.random() < 0.5 else "range"}
    if n >= 2 and rng.random() < 0.5:                    # planted: a normal exactly parallel to +z / -z inside every kind of batch
        j = int(rng.integers(0, n))
        L = rng.choice([1, 2, 3]) if v.dtype.kind in "iu" else rng.choice([1.0, 0.25, 1e3, 1e-6])
        v[j] = np.array([0, 0, L * rng.choice([-1, 1])], dtype=v.dtype)
    if n >= 2 and rng.random() < 0.4:                    # planted: exact duplicate rows
        j0, j1 = (int(k) for k in rng.choice(n, 2, replace=False))
        v[j1] = v[j0]
    bad = ~(np.max(np.abs(np.asarray(v, float)), axis=1) > 0)
    if bad.any():                                        # regenerate excluded (zero) rows
        v[bad] = np.array([0, 0, 1], dtype=v.dtype)
    vf = np.asarray(v, float)
    nontriv = bool(np.any((vf[:, 0] != 0) | (vf[:, 1] != 0) | (vf[:, 2] < 0)))
    return {"kind": "normals", "cls": cls, "i": i, "n": n, "v": v, "df_meta": df_meta, "nontrivial": nontriv,
            "summary": {"class": cls, "n": n, "dtype": str(v.dtype), "df": df_meta, "head": vf[:3].tolist()}}


def gen(ctx, i, cls):
    rng = ctx.rng(i)
    return _gen_rot(ctx, rng, i, cls) if cls in ROT_CLASSES else _gen_normals(ctx, rng, i, cls)


def nontrivial(case):
    return case["nontrivial"]


# ---- driver -------------------------------------------------------------------------------------------
def _reg(obj, M):
    _S["reg"][id(obj)] = (obj, M)
    return obj


def present(ctx, X, form, rng):
    """-> (object handed to cryoCAT, the hand-written matrices (n,3,3) of exactly that object)"""
    srot = ctx.srot
    M = X["M"]
    base = form.replace("single_", "")
    if base == "rot":
        Mu = M
        obj = srot.from_matrix(M[0]) if form.startswith("single_") else srot.from_matrix(M)
        return _reg(obj, Mu), Mu
    if base == "quat":
        q = X.get("q")
        if q is None:
            q = O.mats_to_quat(M) * rng.choice([-1.0, 1.0], (len(M), 1))
        Mu = O.quat_to_mats(q)
        obj = srot.from_quat(q[0]) if form.startswith("single_") else srot.from_quat(q)
        return _reg(obj, Mu), Mu
    E = X.get("E")
    if E is None:
        E = X.get("E_derived")
    if E is None:
        E = O.mats_to_euler(M)
    E = np.array(E, dtype=float)
    dt = X.get("dtype", "float64")
    if dt == "float32":
        E = E.astype(np.float32)
    elif dt == "int64" and np.all(E == np.round(E)) and np.all(np.abs(E) < 2.0 ** 53):
        E = E.astype(np.int64)
    Mu = so3.zxz_rows(np.asarray(E, dtype=float))           # the matrices of exactly the values handed over
    return (E[0].copy() if form.startswith("single_") else E), Mu


def as_rotation(ctx, Mu, single=False):
    return _reg(ctx.srot.from_matrix(Mu[0]) if single else ctx.srot.from_matrix(Mu), Mu)


def _ang(ctx, label, a, b):
    ok, r = ctx.call(label, ctx.geom.angular_distance, a, b)
    if not ok or not isinstance(r, tuple):
        return None
    try:
        d = np.asarray(r[0], dtype=float)
    except Exception:
        return None
    return d


def _cmp_arrays(got, ref, n, tol):
    try:
        g, r = np.asarray(got, float), np.asarray(ref, float)
    except Exception:
        return False, {"problem": "not numeric"}
    if g.shape != (n,) or r.shape != (n,):
        return False, {"problem": "shape", "got_shape": list(g.shape), "ref_shape": list(r.shape)}
    with np.errstate(invalid="ignore"):
        bad = ~(np.abs(g - r) <= tol)
    if not bad.any():
        return True, None
    j = O.first_bad(bad)
    return False, {"row": j, "n": n, "got": float(g[j]), "reference": float(r[j]), "tol": float(np.broadcast_to(tol, (n,))[j]),
                   "n_bad_rows": int(bad.sum())}


def alias_euler(E, rng):
    """another Euler triple of the same rotation for every row: any component +-360; at gimbal lock additionally
    theta = 0: (phi+d, theta, psi-d), theta = 180: (phi+d, theta, psi+d) with d random or a multiple of 45 degrees."""
    E = np.atleast_2d(np.asarray(E, dtype=float))
    n = len(E)
    th = np.radians(E[:, 1])
    lock = np.abs(np.sin(th)) <= 1e-9
    d = np.where(rng.random(n) < 0.5, rng.uniform(-360.0, 360.0, n), rng.integers(-8, 9, n) * 45.0)
    d = np.where(lock, d, 0.0)
    E2 = E.copy()
    E2[:, 0] += d
    E2[:, 2] += np.where(np.cos(th) > 0, -1.0, 1.0) * d
    E2 += 360.0 * rng.integers(-1, 2, E.shape)
    return E2


def equal_orientation_suite(ctx, E1, E2, single=False, label="alias"):
    """E1, E2: (n,3) Euler triples.  Rows whose own matrices coincide are equal orientations: the in-plane distance must
    vanish there whatever the encoding (arrays, Rotation objects, mixed) and whatever the entry point."""
    g = ctx.geom
    M1, M2 = so3.zxz_rows(E1), so3.zxz_rows(E2)
    rows = equal_rows(M1, M2)
    n = len(M1)
    differ = rows & np.any(E1 != E2, axis=1)
    if not rows.any():
        ctx.ood("zero_equal")
        return 0
    arr = lambda E: (E[0].copy() if single else E.copy())
    rot = lambda M: as_rotation(ctx, M, single)
    calls = [("cone_inplane_distance(array,array)", lambda: g.cone_inplane_distance(arr(E1), arr(E2)), 1),
             ("cone_inplane_distance(Rotation,array)", lambda: g.cone_inplane_distance(rot(M1), arr(E2)), 1),
             ("cone_inplane_distance(array,Rotation)", lambda: g.cone_inplane_distance(arr(E1), rot(M2)), 1),
             ("cone_inplane_distance(Rotation,Rotation)", lambda: g.cone_inplane_distance(rot(M1), rot(M2)), 1),
             ("inplane_distance(Rotation,Rotation)", lambda: g.inplane_distance(rot(M1), rot(M2)), None),
             ("compare_rotations(array,array)", lambda: g.compare_rotations(arr(E1), arr(E2)), 2),
             ("compare_rotations(array,Rotation,in_plane_distance)",
              lambda: g.compare_rotations(arr(E1), rot(M2), rotation_type="in_plane_distance"), None),
             ("compare_rotations(Rotation,array,in_plane_distance)",
              lambda: g.compare_rotations(rot(M1), arr(E2), rotation_type="in_plane_distance"), None)]
    for name, f, idx in calls:
        ok, r = ctx.call(name, f)
        if not ok:
            continue
        try:
            v = np.asarray(r if idx is None else r[idx], dtype=float)
            good = v.shape == (n,) and bool(np.all(np.abs(v[rows]) <= ZERO_TOL))
            w = None
            if not good:
                j = O.first_bad(rows & ~(np.abs(v) <= ZERO_TOL)) if v.shape == (n,) else None
                w = {"clause": "in-plane distance of two Euler triples of the same rotation", "call": name, "shape": list(v.shape)}
                if j is not None:
                    w.update(row=j, n=n, got=float(v[j]), expected=0.0, tol=ZERO_TOL, triple1=E1[j].tolist(), triple2=E2[j].tolist(),
                             max_matrix_difference=float(np.max(np.abs(M1[j] - M2[j]))))
        except Exception as e:
            good, w = False, {"call": name, "problem": "result not usable: %s" % type(e).__name__}
        ctx.check("zero_equal", good, w)
    ctx.call("angular_distance(array,array)", g.angular_distance, arr(E1), arr(E2))     # judged by the angdist monitor (0 expected)
    ctx.call("cone_distance(Rotation,Rotation)", g.cone_distance, rot(M1), rot(M2))      # direct call: cone monitor (0 expected)
    return int(differ.sum())


MUTATIONS = ["assign_all", "theta_shift", "one_row", "swap_rows", "make_equal", "psi_shift", "phi_tiny"]


def mutate_in_place(A, B, new, kind, rng):
    """Modifies the caller-owned array A IN PLACE (same object, same id); returns True when its content changed."""
    before = A.copy()
    if A.ndim == 1 and kind in ("one_row", "swap_rows"):
        kind = "assign_all"
    if kind == "swap_rows" and len(A) < 2:
        kind = "assign_all"
    if kind == "assign_all":
        A[...] = new
    elif kind == "theta_shift":
        A[..., 1] += 10
    elif kind == "psi_shift":
        A[..., 2] -= 37
    elif kind == "phi_tiny":
        A[..., 0] += (1 if A.dtype.kind in "iu" else 0.125)
    elif kind == "one_row":
        j = int(rng.integers(0, len(A)))
        A[j] = new[j]
    elif kind == "swap_rows":
        j, k = (int(v) for v in rng.choice(len(A), 2, replace=False))
        A[[j, k]] = A[[k, j]]
    elif kind == "make_equal":
        A[...] = B
    return not np.array_equal(before, A)


def _flat(r):
    if isinstance(r, tuple):
        return np.concatenate([np.ravel(np.asarray(x, dtype=float)) for x in r])
    return np.ravel(np.asarray(r, dtype=float))


def history_suite(ctx, rng, E1, E2, E3, single, case_i):
    """Three-step histories on caller-owned Euler arrays: call with A (and B); modify A (or B, or both) IN PLACE; call again with
    the same objects.  Every call is judged by the call monitors against the values the arrays hold at that moment; the driver
    additionally requires the third step to equal the same call on fresh copies of the current content (monitor `history`)."""
    g = ctx.geom
    cut = (lambda E: E[0].copy()) if single else (lambda E: E.copy())
    rt = RTYPES[case_i % 4]
    pair_fns = [("angular_distance", lambda A, B: g.angular_distance(A, B)),
                ("cone_inplane_distance", lambda A, B: g.cone_inplane_distance(A, B)),
                ("compare_rotations", lambda A, B: g.compare_rotations(A, B)),
                ("compare_rotations(%s)" % rt, lambda A, B: g.compare_rotations(A, B, rotation_type=rt)),
                ("angular_distance->cone_inplane_distance", None)]
    for k, (name, f) in enumerate(pair_fns):
        A, B, new = cut(E1), cut(E2), cut(E3)
        kind = MUTATIONS[(case_i + k) % len(MUTATIONS)]
        which = (case_i + k) % 3                      # 0: first argument, 1: second, 2: both
        f1 = f if f is not None else (lambda A, B: g.angular_distance(A, B))
        f3 = f if f is not None else (lambda A, B: g.cone_inplane_distance(A, B))
        ok1, _ = ctx.call(name + " [history 1]", f1, A, B)
        changed = False
        if which in (0, 2):
            changed |= mutate_in_place(A, B, new, kind, rng)
        if which in (1, 2):
            changed |= mutate_in_place(B, A, new[::-1].copy() if new.ndim == 2 else new, "assign_all" if kind == "make_equal" and which == 2 else kind, rng)
        ok3, r3 = ctx.call(name + " [history 3]", f3, A, B)
        okf, rf = ctx.call(name + " [fresh copies]", f3, A.copy(), B.copy())
        if not (ok1 and ok3 and okf):
            continue
        if not changed:
            ctx.ood("history")
            continue
        try:
            v3, vf = _flat(r3), _flat(rf)
            good = v3.shape == vf.shape and bool(np.all(np.abs(v3 - vf) <= 1e-9))
            w = None
            if not good:
                j = int(np.flatnonzero(~(np.abs(v3 - vf) <= 1e-9))[0]) if v3.shape == vf.shape else None
                w = {"call": name, "mutation": kind, "mutated": ["first", "second", "both"][which], "n": len(np.atleast_2d(A)),
                     "clause": "result after an in-place update of the argument differs from the result for a fresh copy of the same values",
                     "flat_index": j, "after_update": None if j is None else float(v3[j]), "fresh_copy": None if j is None else float(vf[j])}
        except Exception as e:
            good, w = False, {"call": name, "problem": "result not usable: %s" % type(e).__name__}
        ctx.check("history", good, w)
    # unary functions on an Euler array
    for k, (name, f) in enumerate([("visualize_angles", lambda A: g.visualize_angles(A, False)),
                                   ("euler_angles_to_normals", lambda A: g.euler_angles_to_normals(A))]):
        A, B, new = cut(E1), cut(E2), cut(E3)
        kind = MUTATIONS[(case_i + k + 3) % len(MUTATIONS)]
        ok1, _ = ctx.call(name + " [history 1]", f, A)
        changed = mutate_in_place(A, B, new, kind, rng)
        ok3, r3 = ctx.call(name + " [history 3]", f, A)
        if not (ok1 and ok3):
            continue
        if not changed:
            ctx.ood("history")
            continue
        Z = O.z_image(so3.zxz_rows(np.asarray(A, dtype=float)))
        good, w = _vec_verdict(r3, Z, name + " after an in-place update of its argument (%s)" % kind)
        ctx.check("history", good, w)
    # a NEW object that may reuse the id of a freed one (arrays, and Rotation objects for the Rotation-only functions)
    A, B = cut(E1), cut(E2)
    ctx.call("angular_distance [id reuse 1]", g.angular_distance, A, B)
    del A
    A = cut(E3)
    ctx.call("angular_distance [id reuse 2]", g.angular_distance, A, B)
    M1, M2, M3 = so3.zxz_rows(np.asarray(E1, float)), so3.zxz_rows(np.asarray(E2, float)), so3.zxz_rows(np.asarray(E3, float))
    mk = (lambda M: ctx.srot.from_matrix(M[0])) if single else (lambda M: ctx.srot.from_matrix(M))
    for name, f in (("cone_distance", g.cone_distance), ("inplane_distance", g.inplane_distance)):
        r1, r2 = mk(M1), mk(M2)                    # not registered: the monitor reads these objects themselves
        ctx.call(name + " [id reuse 1]", f, r1, r2)
        del r1
        r1 = mk(M3)
        ctx.call(name + " [id reuse 2]", f, r1, r2)


def pair_suite(ctx, rng, XA, XB, XC, Q, forms, radius=1.0, tag="", light=False, case_i=0):
    """All relational oracles on one triple of batches.  Value clauses are judged by the call monitors on the same calls."""
    g = ctx.geom
    single = forms[0].startswith("single_")
    a, Ma = present(ctx, XA, forms[0], rng)
    b, Mb = present(ctx, XB, forms[1], rng)
    c, Mc = present(ctx, XC, forms[2], rng)
    n = len(Ma)
    o_ab, o_bc, o_ac = O.rel_angle(Ma, Mb), O.rel_angle(Mb, Mc), O.rel_angle(Ma, Mc)
    d_ab = _ang(ctx, "angular_distance", a, b)
    if d_ab is None or d_ab.shape != (n,):
        return
    desc = lambda w, M1, M2: dict(w, **_row_desc(M1, M2, w["row"])) if w and "row" in w else w
    # symmetry
    d_ba = _ang(ctx, "angular_distance", b, a)
    if d_ba is not None:
        ok, w = _cmp_arrays(d_ba, d_ab, n, 2 * O.tol_angle(o_ab))
        ctx.check("symmetry", ok, desc(dict(w or {}, clause="d(B,A) vs d(A,B)", forms=forms[:2]), Ma, Mb) if not ok else None)
    # zero for equal rotations: the same object, and an equal rotation in another encoding
    d_aa = _ang(ctx, "angular_distance", a, a)
    if d_aa is not None:
        ok, w = _cmp_arrays(d_aa, np.zeros(n), n, ZERO_TOL)
        ctx.check("zero_equal", ok, desc(dict(w or {}, clause="d(A,A), same object", form=forms[0]), Ma, Ma) if not ok else None)
    other = {"rot": "quat", "quat": "euler", "euler": "rot"}[forms[0].replace("single_", "")]
    a2, Ma2 = present(ctx, {"M": Ma}, ("single_" if single else "") + other, rng)
    drift = O.rel_angle(Ma, Ma2)
    if np.all(drift <= LOSSY):
        d_aa2 = _ang(ctx, "angular_distance", a, a2)
        if d_aa2 is not None:
            ok, w = _cmp_arrays(d_aa2, np.zeros(n), n, ZERO_TOL + drift)
            ctx.check("zero_equal", ok, desc(dict(w or {}, clause="d(A,A'), A' = A re-encoded", forms=[forms[0], other]), Ma, Ma2) if not ok else None)
    else:
        ctx.ood("zero_equal")
    ra, rb = as_rotation(ctx, Ma, single), as_rotation(ctx, Mb, single)
    ok_c, ip_aa = ctx.call("inplane_distance", g.inplane_distance, ra, ra)
    if ok_c:
        ok, w = _cmp_arrays(ip_aa, np.zeros(n), n, 1e-9)
        ctx.check("zero_equal", ok, desc(dict(w or {}, clause="inplane(A,A), same object"), Ma, Ma) if not ok else None)
    # equal orientation, separately built object; near (not at) gimbal lock the in-plane angle is ill-conditioned: rows skipped
    st = np.sqrt(Ma[:, 0, 2] ** 2 + Ma[:, 1, 2] ** 2)
    well = (st >= 1e-3) | (st <= 1e-9)
    ra2 = _reg(ctx.srot.from_quat((O.mats_to_quat(Ma) * rng.choice([-1.0, 1.0], (n, 1)))[0 if single else slice(None)]), Ma)
    ok_c, ip_aa2 = ctx.call("inplane_distance", g.inplane_distance, ra, ra2)
    if ok_c:
        if well.any():
            try:
                v = np.asarray(ip_aa2, float)
                ok = v.shape == (n,) and bool(np.all(np.abs(v[well]) <= ZERO_TOL))
                w = None if ok else {"clause": "inplane(A,A''), A'' = equal rotation built from the quaternion of either sign",
                                     "got_max": float(np.nanmax(np.abs(v[well]))) if v.shape == (n,) else None, "shape": list(v.shape)}
            except Exception:
                ok, w = False, {"problem": "not numeric"}
            ctx.check("zero_equal", ok, w)
        else:
            ctx.ood("zero_equal")
    # cone / in-plane on Rotation objects (judged by the call monitors), pair and dispatch.
    # These public functions are called DIRECTLY by the driver on every pairing of the triple (fresh Rotation objects, positional and
    # documented keyword forms): the floors of the cone / inplane monitors must be reached by the driver's own calls and must not
    # depend on cone_inplane_distance / compare_rotations happening to route through them (tools/audit_call_structure.sh).
    rc = as_rotation(ctx, Mc, single)
    ctx.call("cone_distance", g.cone_distance, ra, rb)
    ctx.call("cone_distance", g.cone_distance, as_rotation(ctx, Mb, single), as_rotation(ctx, Ma, single))
    ctx.call("cone_distance", g.cone_distance, input_rot1=ra, input_rot2=rc)
    ctx.call("cone_distance", g.cone_distance, rb, rc)
    ctx.call("cone_distance", g.cone_distance, ra, ra2)
    ok_i, ip_ab = ctx.call("inplane_distance", g.inplane_distance, ra, rb)
    ctx.call("inplane_distance", g.inplane_distance, as_rotation(ctx, Mb, single), as_rotation(ctx, Ma, single))
    ctx.call("inplane_distance", g.inplane_distance, input_rot1=ra, input_rot2=rc, convention="zxz", degrees=True, c_symmetry=1)
    ctx.call("inplane_distance", g.inplane_distance, rb, rc, "zxz", True)
    ok_ci, ci_ab = ctx.call("cone_inplane_distance", g.cone_inplane_distance, a, b)
    if ok_ci and isinstance(ci_ab, tuple) and len(ci_ab) == 2:
        direct = {"angular_distance": d_ab, "cone_distance": ci_ab[0], "in_plane_distance": ci_ab[1]}
        for t in RTYPES:
            ok_t, r = ctx.call("compare_rotations", g.compare_rotations, a, b, rotation_type=t)
            if not ok_t:
                continue
            if t == "all":
                good = isinstance(r, tuple) and len(r) == 3
                w = None if good else {"problem": "rotation_type='all' did not return three distances"}
                if good:
                    for name, part in zip(RTYPES[1:], r):
                        good, w = _cmp_arrays(part, direct[name], n, 1e-9)
                        if not good:
                            w = dict(w, component=name)
                            break
            else:
                good, w = _cmp_arrays(r, direct[t], n, 1e-9)
            ctx.check("dispatch", good, desc(dict(w or {}, rotation_type=t, clause="compare_rotations vs the direct call of the named distance",
                                                  forms=forms[:2]), Ma, Mb) if not good else None)
    # invariance under a common rotation on either side
    for side in ("left", "right"):
        MA2, MB2 = (Q @ Ma, Q @ Mb) if side == "left" else (Ma @ Q, Mb @ Q)
        qa, Mqa = present(ctx, {"M": MA2}, forms[0], rng)
        qb, Mqb = present(ctx, {"M": MB2}, forms[1], rng)
        o2 = O.rel_angle(Mqa, Mqb)
        if np.any(np.abs(o2 - o_ab) > LOSSY):
            ctx.ood("invariance")            # the composed input could not be re-encoded faithfully (Euler angles next to gimbal lock)
            continue
        d2 = _ang(ctx, "angular_distance", qa, qb)
        if d2 is None:
            continue
        ok, w = _cmp_arrays(d2, d_ab, n, O.tol_angle(o_ab) + O.tol_angle(o2) + np.abs(o2 - o_ab))
        ctx.check("invariance", ok, desc(dict(w or {}, clause="d(QA,QB) vs d(A,B)" if side == "left" else "d(AQ,BQ) vs d(A,B)",
                                              forms=forms[:2], Q_euler=O.mats_to_euler(Q[None])[0].round(9).tolist()), Ma, Mb) if not ok else None)
    # triangle inequality
    d_bc, d_ac = _ang(ctx, "angular_distance", b, c), _ang(ctx, "angular_distance", a, c)
    if d_bc is not None and d_ac is not None and d_bc.shape == (n,) and d_ac.shape == (n,):
        slack = O.tol_angle(o_ab) + O.tol_angle(o_bc) + O.tol_angle(o_ac)
        with np.errstate(invalid="ignore"):
            bad = ~(d_ac <= d_ab + d_bc + slack)
        w = None
        if bad.any():
            j = O.first_bad(bad)
            w = {"row": j, "n": n, "d_AC": float(d_ac[j]), "d_AB": float(d_ab[j]), "d_BC": float(d_bc[j]), "n_bad_rows": int(bad.sum()),
                 "A_euler": O.mats_to_euler(Ma[j:j + 1])[0].tolist(), "B_euler": O.mats_to_euler(Mb[j:j + 1])[0].tolist(),
                 "C_euler": O.mats_to_euler(Mc[j:j + 1])[0].tolist()}
        ctx.check("triangle", not bad.any(), w)
    if light:
        return
    # z-axis images
    EA, MEA = present(ctx, XA, "euler", rng)
    # equal orientations written as different Euler triples (360-degree shifts; phi/psi trade-off at gimbal lock)
    equal_orientation_suite(ctx, EA, alias_euler(EA, rng), single)
    # call / in-place update of the same array / call again
    history_suite(ctx, rng, EA, present(ctx, XB, "euler", rng)[0], present(ctx, XC, "euler", rng)[0], single, case_i)
    ctx.call("euler_angles_to_normals", g.euler_angles_to_normals, EA)
    ctx.call("euler_angles_to_normals(3,)", g.euler_angles_to_normals, EA[int(rng.integers(0, n))].copy())
    ctx.call("visualize_angles", g.visualize_angles, EA, plot_rotations=False)
    ctx.call("visualize_rotations", g.visualize_rotations, ra, plot_rotations=False, radius=radius)
    ctx.call("visualize_rotations", g.visualize_rotations, rb, False, None, 20, 1.0, 1.0)
    # direct calls on the other two batches as well (the viz floor must not rest on euler_angles_to_normals -> visualize_angles ->
    # visualize_rotations being the route inside cryoCAT)
    EB, _ = present(ctx, XB, "euler", rng)
    EC, _ = present(ctx, XC, "euler", rng)
    ctx.call("visualize_angles", g.visualize_angles, EB.copy(), False)
    ctx.call("visualize_angles", g.visualize_angles, angles=EC.copy(), plot_rotations=False, color_map=None)
    ctx.call("visualize_rotations", g.visualize_rotations, rotations=rc, plot_rotations=False, radius=radius)
    ctx.call("euler_angles_to_normals", g.euler_angles_to_normals, angles=EB.copy())


def run_rot(ctx, case):
    rng = ctx.rng(case["i"], 1)
    g = ctx.geom
    XA, XB, XC = case["tr"]
    pair_suite(ctx, rng, XA, XB, XC, case["Q"], case["forms"], case["radius"], case_i=case["i"])
    n = case["n"]
    i = case["i"]
    # paths outside the property's quantifier, driven for anchor coverage only (counted as out-of-domain by the monitors)
    if i % 7 == 3 and n >= 2:
        EA, _ = present(ctx, XA, "euler", rng)
        EB, _ = present(ctx, XB, "euler", rng)
        try:
            g.compare_rotations(EA, EB, c_symmetry=int(rng.choice([2, 3, 6])))
        except Exception:
            pass
        try:
            g.angular_distance(EA, EB[:-1])                # unequal batch sizes: documented print + None
        except Exception:
            pass
    if i % 11 == 5:
        a, _ = present(ctx, XA, case["forms"][0], rng)
        try:
            g.compare_rotations(a, a, rotation_type="everything")
            ctx.notes.append("compare_rotations accepted an unsupported rotation_type")
        except ctx.UserInputError:
            pass
        except Exception:
            pass
    if i % 41 == 9:                                        # plotting branch: the returned points are judged as usual
        import matplotlib.pyplot as plt
        ra = as_rotation(ctx, XA["M"][:50])
        ctx.call("visualize_rotations(plot)", g.visualize_rotations, ra, True, None if i % 2 else np.linspace(0, 1, len(XA["M"][:50])),
                 10, 0.5, case["radius"])
        E, _ = present(ctx, {"M": XB["M"][:20]}, "euler", rng)
        ctx.call("visualize_angles(plot)", g.visualize_angles, E, True)
        plt.close("all")


def run_normals(ctx, case):
    import pandas as pd
    rng = ctx.rng(case["i"], 1)
    g = ctx.geom
    v = case["v"]
    n = len(v)
    if case["df_meta"] is not None:
        cols = {"x": v[:, 0], "y": v[:, 1], "z": v[:, 2], "score": rng.random(n), "tomo_id": rng.integers(1, 9, n).astype(float)}
        arg = pd.DataFrame({c: cols[c] for c in case["df_meta"]["order"]})
        if case["df_meta"]["index"] == "odd":
            arg.index = rng.permutation(n) * 2 + 5
    else:
        arg = v.copy()
    U = O.unit_rows(np.asarray(v, float))
    for order in ("zxz", "zzx"):
        ok, ang = (ctx.call("normals_to_euler_angles", g.normals_to_euler_angles, arg) if order == "zxz" and case["i"] % 2 else
                   ctx.call("normals_to_euler_angles", g.normals_to_euler_angles, arg, output_order=order))
        if not ok:
            continue
        try:
            e = decode_order(ang, order)
            usable = e.shape == (n, 3) and bool(np.all(np.isfinite(e)))
        except Exception:
            usable = False
        if not usable:
            ctx.check("n2e_roundtrip", False, {"problem": "angles not usable", "output_order": order})
            continue
        ok2, back = ctx.call("euler_angles_to_normals", g.euler_angles_to_normals, e)
        if ok2:
            good, w = _vec_verdict(back, U, "euler_angles_to_normals(normals_to_euler_angles(v, %r))" % order, unit=True)
            if not good and "row" in w:
                w["normal"] = np.asarray(v, float)[w["row"]].tolist()
            ctx.check("n2e_roundtrip", good, w)
    # three-step history: call; update the caller-owned normals IN PLACE; call again with the same object
    V = arg.copy()
    is_df = case["df_meta"] is not None
    order = ("zxz", "zzx")[case["i"] % 2]
    cur = (lambda: V.loc[:, ["x", "y", "z"]].to_numpy(dtype=float)) if is_df else (lambda: np.asarray(V, dtype=float))
    ok1, _ = ctx.call("normals_to_euler_angles [history 1]", g.normals_to_euler_angles, V, order)
    before = cur().copy()
    kind = ["negate", "cycle_columns", "roll_rows", "one_row"][(case["i"] // 2) % 4]
    if kind == "negate":
        newv = -before
    elif kind == "cycle_columns":
        newv = before[:, [2, 0, 1]]
    elif kind == "roll_rows":
        newv = np.roll(before, 1, axis=0) * np.array([1.0, -1.0, 1.0])
    else:
        newv = before.copy()
        j = int(rng.integers(0, n))
        newv[j] = -before[j][::-1]
    if is_df:
        for k, c in enumerate(["x", "y", "z"]):
            V.loc[:, c] = newv[:, k]
    else:
        V[...] = newv.astype(V.dtype)
    ok3, ang3 = ctx.call("normals_to_euler_angles [history 3]", g.normals_to_euler_angles, V, order)
    if ok1 and ok3:
        now = cur()
        if np.array_equal(now, before):
            ctx.ood("history")
        else:
            try:
                e3 = decode_order(ang3, order)
                good, w = _vec_verdict(O.z_image(so3.zxz_rows(e3)), O.unit_rows(now),
                                       "z-axis of normals_to_euler_angles(%r) after an in-place update (%s) of its argument" % (order, kind))
            except Exception as e:
                good, w = False, {"problem": "result not usable: %s" % type(e).__name__}
            ctx.check("history", good, w)
    if case["i"] % 13 == 4:                                # documented refusal, not part of the property: coverage only
        try:
            g.normals_to_euler_angles([[0.0, 0.0, 1.0]])
        except ctx.UserInputError:
            pass
        except Exception:
            pass


def run_case(ctx, case):
    _S["reg"].clear()
    if case["kind"] == "rot":
        run_rot(ctx, case)
    else:
        run_normals(ctx, case)


# ---- exhaustive sub-spaces ----------------------------------------------------------------------------
def extra(ctx):
    _S["reg"].clear()
    g = ctx.geom
    rng = ctx.rng(10 ** 6, 7)
    G = O.cube_mats()
    ia, ib = np.repeat(np.arange(24), 24), np.tile(np.arange(24), 24)
    # all 576 ordered pairs of cube rotations; third = every cube rotation in turn -> all 13 824 triples; Q = every cube rotation
    for k in range(24):
        XA, XB, XC = {"M": G[ia]}, {"M": G[ib]}, {"M": G[(ib + ia + k) % 24]}
        forms = [["rot", "euler", "quat"][(k + s) % 3] for s in range(3)]
        pair_suite(ctx, rng, XA, XB, XC, G[k], forms, tag="cube", light=k > 2, case_i=k)
        _S["reg"].clear()
    ctx.extra["cube_rotation_pairs_all"] = 576
    ctx.extra["cube_rotation_pairs_x_common_cube_rotation"] = 576 * 24
    # triangle over all 24^3 triples: C index runs over all 24 for every (A,B)
    tri = set()
    for k in range(24):
        tri.update(zip(ia.tolist(), ib.tolist(), ((ib + ia + k) % 24).tolist()))
    ctx.extra["cube_rotation_triples_distinct"] = len(tri)
    # the full 45-degree Euler lattice (8 x 5 x 8 = 320 orientations): images of the z-axis, then all 320 x 320 pairs
    L = O.euler_lattice()
    ctx.call("euler_angles_to_normals", g.euler_angles_to_normals, L.copy())
    ctx.call("visualize_angles", g.visualize_angles, L.copy(), False)
    ML = so3.zxz_rows(L)
    ctx.call("visualize_rotations", g.visualize_rotations, as_rotation(ctx, ML), False, radius=2.5)
    ctx.extra["euler_lattice_orientations"] = len(L)
    npairs = 0
    shifts = range(len(L)) if ctx.tier == "thorough" else [0, 1, 7, 8, 39, 40, 41, 64, 160, 161, 200, 319]
    for s in shifts:
        j = (np.arange(len(L)) + s) % len(L)
        ea, eb = L.copy(), L[j].copy()
        ctx.call("angular_distance", g.angular_distance, ea, eb)
        ctx.call("cone_inplane_distance", g.cone_inplane_distance, ea, eb)
        if s % 3 == 0:
            ctx.call("compare_rotations", g.compare_rotations, as_rotation(ctx, ML), as_rotation(ctx, ML[j]))
        npairs += len(L)
        _S["reg"].clear()
    ctx.extra["euler_lattice_pairs"] = npairs
    # all pairs of the lattice's gimbal-lock rows (theta in {0,180}: 128 triples, 16 rotations): equal rotations written
    # with different triples must have in-plane distance 0 in every input form
    Lg = L[(L[:, 1] == 0.0) | (L[:, 1] == 180.0)]
    ja, jb = np.repeat(np.arange(len(Lg)), len(Lg)), np.tile(np.arange(len(Lg)), len(Lg))
    ndiff = equal_orientation_suite(ctx, Lg[ja], Lg[jb], label="lattice")
    _S["reg"].clear()
    ctx.extra["euler_lattice_gimbal_pairs"] = len(ja)
    ctx.extra["euler_lattice_gimbal_pairs_same_rotation_different_triples"] = ndiff
    # normals: every vector with components in {-1,0,1} (26) x a set of lengths, both output orders
    import itertools
    V = np.array([p for p in itertools.product([-1.0, 0.0, 1.0], repeat=3) if any(p)])
    for scale in (1.0, 1e-150, 1e150, 3.0, 1e-7):
        for order in ("zxz", "zzx"):
            ctx.call("normals_to_euler_angles", g.normals_to_euler_angles, V * scale, order)
    ctx.extra["sign_pattern_normals"] = len(V)
