"""C07 - Score-ranked distance suppression keeps a separated, dominating set.

Call monitors (DESIGN.md 4/C07), attached in place:
  post(Motl.clean_by_distance), table snapshotted before the call
    cbd_rows        the result consists of original rows, each used at most once, all 20 fields unaltered
    cbd_separated   within each group no two survivors are closer than d (brute-force distances of x+shift)
    cbd_dominated   every removed row has a survivor of its own group within d whose metric is equal or better
                    (>= for keep_greater, <= otherwise)
    cbd_isolation   the result restricted to one group equals the result of a second real call on that group alone
  post(tmana.scores_extract_particles), maps/lists parsed independently (struct byte parsers, own CSV reader)
    sx_threshold    None is returned iff no voxel exceeds the threshold; every peak is a distinct voxel of the map,
                    reported 1-based, whose map value exceeds the threshold
    sx_score        score column == map value at voxel (x-1, y-1, z-1)
    sx_angles       phi/theta/psi == angle-list row  angle_map[voxel] - numbering  (file: zxz -> phi,theta,psi columns;
                    zzx -> phi,psi,theta columns; arrays are taken as phi,theta,psi)
    sx_separated    pairwise peak distance > diameter (exact integer lattice arithmetic)
    sx_dominated    every supra-threshold voxel has a peak within the diameter with an equal or higher score
Driver-side relational oracles:
  cbd_metamorphic   the surviving particle ids do not change under: row permutation (+ odd index), rigid motion of all
                    positions (re-split into x/shift), relabelling of groups, negated metric with flipped direction,
                    arbitrary perturbation (move / re-score / delete / duplicate) of the OTHER groups
  sx_relational     same peaks from files and from arrays; axis permutation + flips of the maps permute the peaks;
                    exact scaling of the scores by 2 keeps positions and angles
"""
import itertools
import os
import re

import numpy as np
import pandas as pd

from vmon import gens, monitors
from vmon.oracles import files, so3
from vmon.oracles import c07_oracle as O

PROP = "C07"
RULE = ("cases = (a) clustered particle tables (1-400 rows, 1-4 groups by tomo_id/object_id/class, metric score/geom1, "
        "both directions, non-zero shifts, d on the cluster scale; chains, overlapping groups, shift-decisive, near-tie, "
        "extreme d, odd labels, repeated scores, float32-collapsing metrics, exact-position duplicates, block-boundary list and group "
        "sizes (2**k-1, 2**k, 2**k+1, 400), adjacent labels / coordinates at 1e5, 2**24, 2**31, 2**53; subtomo_id unique / restarting per "
        "group / repeated; three-step histories on one table modified in place) and (b) plateau-free score maps (blobs/noise, cubic and non-cubic, "
        "arrays and EM/MRC files, scores/sigma threshold incl. exactly 0 on mixed-sign maps, integer and generic diameters, numbering 0/1, "
        "zxz/zzx lists of 1-70000 rows incl. 2**k +- 1 rows and unusual number texts; exact supra-threshold counts 2**k-1, 2**k, 2**k+1, "
        "m*4096+1; three-step histories on caller-owned arrays modified in place); "
        "non-trivial = list with >= 1 conflicting pair inside a group, or map with >= 2 supra-threshold voxels of which "
        ">= 1 lies within the diameter of a better one; distinct by digest of sizes, parameters and leading values")
ASSUMPTIONS = [
    "complete position = (x,y,z)+(shift_x,shift_y,shift_z); 'closer than d' means dist < d, 'within d' means dist <= d; pairs with "
    "|dist-d| < 1e-9 and equal metric values among conflicting particles are outside the quantifier (regenerated / not judged)",
    "score maps are indexed [x,y,z] (cryomap.read convention); voxel distances are exact integers squared, so 'farther apart "
    "than the diameter' (dist^2 > d^2) and 'within the diameter' (dist^2 <= d^2) are judged literally also for integer diameters",
    "sigma threshold = mean + sigma*std(ddof=1); a map with a voxel inside the float accumulation band around that value is not judged",
    "angle list passed as an array is taken as phi,theta,psi columns whatever angles_order is (repository's own test says so)",
    "angle-map entries are integral and point inside the list after subtracting the numbering; symmetry c1, no cluster_size, "
    "no n_particles, no tomo_mask (outside the statement)",
]
COLS = gens.COLS
# order: list (cheap) and map (expensive) classes interleaved so that every shard (case index mod 2, 4, 16) gets both kinds
CLASSES = ["cbd_clusters", "sx_blobs", "sx_faces", "cbd_lower_geom1", "sx_noise_dense", "cbd_overlapping_groups", "cbd_chain",
           "sx_files", "cbd_shift_decisive", "sx_integer_diameter", "sx_noncubic", "cbd_extreme_d", "sx_negative", "cbd_near_tie",
           "cbd_small_n", "sx_sigma", "cbd_odd_labels", "sx_extreme_diameter", "sx_few_supra", "cbd_equal_scores_apart",
           "sx_zero_threshold", "sx_big_angle_list", "cbd_float32_collapse", "sx_exact_supra_count", "cbd_representability",
           "cbd_exact_duplicates", "cbd_block_sizes"]
# block-boundary counts (off-by-one errors of batched / blocked rewrites only show there)
BLOCK_COUNTS = sorted({2 ** k + e for k in range(6, 14) for e in (-1, 0, 1)})
LIST_BLOCK_COUNTS = [32767, 32768, 32769, 65535, 65536, 65537]
SX_COLS = ["x", "y", "z", "score", "phi", "theta", "psi"]
ANGLE_TOL = 1e-9        # degrees: pandas' CSV float parser is not correctly rounded (1 ulp off on 17-digit decimals)


# one worker thread per shard: the shards are the parallelism (BLAS/OpenMP pools of 16 threads per shard only fight)
ENV = {"OMP_NUM_THREADS": "1", "OPENBLAS_NUM_THREADS": "1", "MKL_NUM_THREADS": "1", "NUMEXPR_NUM_THREADS": "1"}


def plan(tier):
    if tier == "quick":
        return dict(n_cases=540, shards=2, classes=CLASSES, timeout_s=600, env=ENV,
                    min_evals={"cbd_rows": 800, "cbd_separated": 800, "cbd_dominated": 800, "cbd_isolation": 1400,
                               "cbd_metamorphic": 300, "sx_threshold": 1200, "sx_score": 1200, "sx_angles": 1200,
                               "sx_separated": 1200, "sx_dominated": 1200, "sx_relational": 250})
    return dict(n_cases=4320, shards=16, classes=CLASSES, timeout_s=3000, env=ENV,
                min_evals={"cbd_rows": 8000, "cbd_separated": 8000, "cbd_dominated": 8000, "cbd_isolation": 12000,
                           "cbd_metamorphic": 2200, "sx_threshold": 8000, "sx_score": 8000, "sx_angles": 8000,
                           "sx_separated": 8000, "sx_dominated": 8000, "sx_relational": 1800})


# =====================================================================================================
# call monitor: Motl.clean_by_distance
# =====================================================================================================
def _values(df):
    return np.array(df[COLS].to_numpy(dtype=np.float64), dtype=np.float64, copy=True)


def _cbd_applicable(A):
    df = getattr(A["self"], "df", None)
    if A.get("dist_mask") is not None or not isinstance(df, pd.DataFrame):
        return False
    if sorted(map(str, df.columns)) != sorted(COLS) or len(df) < 1:
        return False
    f, m = A.get("feature_id"), A.get("metric_id")
    if not (isinstance(f, str) and isinstance(m, str) and f in COLS and m in COLS):
        return False
    if not isinstance(A.get("keep_greater"), (bool, np.bool_)):
        return False
    try:
        V = _values(df)
    except Exception:
        return False
    ok, why = O.cbd_domain(V, COLS.index(f), COLS.index(m), A["distance_in_voxels"], COLS)
    if not ok:
        return False
    A["_c07"] = {"V": V, "fi": COLS.index(f), "mi": COLS.index(m), "d": float(A["distance_in_voxels"]),
                 "kg": bool(A["keep_greater"]), "df": df.copy(deep=True), "feature": f, "metric": m}
    return True


def _cbd_snapshot(A):
    return A["_c07"]


def _cbd_post(ctx, A, S, result):
    new = getattr(A["self"], "df", None)
    V, fi, mi, d, kg = S["V"], S["fi"], S["mi"], S["d"], S["kg"]
    n = len(V)
    if not isinstance(new, pd.DataFrame) or sorted(map(str, new.columns)) != sorted(COLS) or len(new) > n:
        ctx.check("cbd_rows", False, {"reason": "result is not a table of the 20 fields with <= N rows",
                                      "type": type(new).__name__, "shape": getattr(new, "shape", None), "n_in": n})
        return
    try:
        NV = _values(new)
    except Exception as e:
        ctx.check("cbd_rows", False, {"reason": "result not numeric: " + str(e)[:120]})
        return
    orig, w = O.match_rows(V, NV)
    if w is not None and "differing_columns" in w:
        w["differing_fields"] = [COLS[c] for c in w.pop("differing_columns")]
    ctx.check("cbd_rows", orig is not None, w)
    if orig is None:
        return
    kept = np.zeros(n, dtype=bool)
    kept[orig] = True
    P = O.complete_positions(V, COLS)
    lab, met = V[:, fi], V[:, mi]
    base = {"n": n, "d": d, "feature": S["feature"], "metric": S["metric"], "keep_greater": kg, "n_kept": int(kept.sum())}
    w = O.cbd_separated(P, lab, kept, d)
    ctx.check("cbd_separated", w is None, dict(base, **w) if w else None)
    w = O.cbd_dominated(P, lab, met, kept, d, kg)
    ctx.check("cbd_dominated", w is None, dict(base, **w) if w else None)
    groups = O.groups_of(lab)
    if len(groups) < 2:
        ctx.ood("cbd_isolation")
        return
    Motl = type(A["self"])
    for g, idx in list(groups.items())[:6]:
        sub = S["df"].iloc[idx].reset_index(drop=True)
        try:
            m2 = Motl(sub)
            m2.clean_by_distance(A["distance_in_voxels"], S["feature"], metric_id=S["metric"], keep_greater=A["keep_greater"])
            alone, w2 = O.match_rows(V[idx], _values(m2.df))
        except Exception as e:
            ctx.check("cbd_isolation", False, dict(base, group=float(g), reason="group alone raised %s: %s" % (type(e).__name__, str(e)[:160])))
            continue
        if alone is None:
            ctx.check("cbd_isolation", False, dict(base, group=float(g), reason="group alone returned altered rows", **w2))
            continue
        a = np.zeros(len(idx), dtype=bool)
        a[alone] = True
        t = kept[idx]
        ok = bool(np.array_equal(a, t))
        ctx.check("cbd_isolation", ok, None if ok else dict(
            base, group=float(g), group_size=int(len(idx)), kept_alone=int(a.sum()), kept_together=int(t.sum()),
            rows_kept_only_alone=[int(x) for x in idx[a & ~t][:6]], rows_kept_only_together=[int(x) for x in idx[t & ~a][:6]]))


# =====================================================================================================
# call monitor: tmana.scores_extract_particles
# =====================================================================================================
_MRC = re.compile(r"\.(mrc|ali|rec|st)(\.\d+)?$")


def _load_map(x):
    if isinstance(x, np.ndarray):
        return np.array(x)
    if isinstance(x, str) and os.path.exists(x):
        r = files.parse_em(x) if x.endswith(".em") else (files.parse_mrc(x) if _MRC.search(x) else None)
        if r is None or "error" in r:
            return None
        return np.array(r["data"])
    return None


def _load_list(x, order):
    """-> (N,3) array whose columns are phi, theta, psi"""
    if isinstance(x, np.ndarray):
        return np.array(x, dtype=np.float64) if x.ndim == 2 and x.shape[1] == 3 else None
    if isinstance(x, str) and os.path.exists(x):
        try:
            L = O.parse_angle_csv(x)
        except Exception:
            return None
        if L.ndim != 2 or L.shape[1] != 3:
            return None
        return L[:, [0, 2, 1]] if order == "zzx" else L
    return None


def _sx_applicable(A):
    sym = A.get("symmetry")
    if not (isinstance(sym, str) and re.fullmatch(r"[cC]0*1", sym)):
        return False
    if A.get("n_particles") is not None or A.get("tomo_mask") is not None:
        return False
    if A.get("cluster_size") is not None and A["cluster_size"] > 1:
        return False
    if A.get("angles_order") not in ("zxz", "zzx") or A.get("angles_numbering") not in (0, 1):
        return False
    dia = A.get("particle_diameter")
    if isinstance(dia, np.ndarray) and dia.ndim == 0:
        dia = dia[()]
    if not (isinstance(dia, (int, float, np.integer, np.floating)) and np.isfinite(dia) and dia > 0):
        return False
    if A.get("scores_threshold") is None and A.get("sigma_threshold") is None:
        return False                                  # triangle threshold: not part of the statement's workload
    Sm, Am = _load_map(A["scores_map"]), _load_map(A["angles_map"])
    L = _load_list(A["angles_list"], A["angles_order"])
    if Sm is None or Am is None or L is None or Sm.ndim != 3 or Sm.shape != Am.shape or Sm.size < 2 or max(Sm.shape) > 64:
        return False
    if Sm.dtype.kind != "f" or not np.all(np.isfinite(Sm)) or not np.all(np.isfinite(L)):
        return False
    if len(np.unique(Sm)) != Sm.size:
        return False                                  # plateau
    Ai = np.asarray(Am, dtype=np.float64)
    idx = Ai - A["angles_numbering"]
    if not np.all(Ai == np.round(Ai)) or idx.min() < 0 or idx.max() > len(L) - 1:
        return False
    thr, band = O.threshold_of(Sm, A.get("scores_threshold"), A.get("sigma_threshold"))
    if not np.isfinite(thr) or (band > 0 and np.any(np.abs(Sm.astype(np.float64) - thr) <= band)):
        return False
    A["_c07"] = {"S": Sm, "idx": idx.astype(np.int64), "L": L, "thr": thr, "dia": float(dia)}
    return True


def _sx_snapshot(A):
    return A["_c07"]


def _sx_post(ctx, A, Z, result):
    Sm, idx, L, thr, dia = Z["S"], Z["idx"], Z["L"], Z["thr"], Z["dia"]
    S64 = Sm.astype(np.float64)
    supra = np.argwhere(S64 > thr)
    base = {"shape": list(Sm.shape), "threshold": thr, "diameter": dia, "n_supra": int(len(supra))}
    if result is None or len(supra) == 0:
        ok = result is None and len(supra) == 0
        ctx.check("sx_threshold", ok, None if ok else dict(base, returned=type(result).__name__,
                                                           reason="None must be returned iff no voxel exceeds the threshold"))
        return
    df = getattr(result, "df", None)
    if not isinstance(df, pd.DataFrame) or not set(SX_COLS) <= set(df.columns) or len(df) < 1:
        ctx.check("sx_threshold", False, dict(base, reason="no particle table returned", type=type(result).__name__))
        return
    T = df[SX_COLS].to_numpy(dtype=np.float64)
    pos = T[:, :3]
    vox = np.round(pos).astype(np.int64) - 1
    inside = np.all(pos == np.round(pos), axis=1) & np.all(vox >= 0, axis=1) & np.all(vox < np.array(Sm.shape), axis=1)
    base["n_peaks"] = int(len(T))
    if not inside.all():
        q = int(np.nonzero(~inside)[0][0])
        ctx.check("sx_threshold", False, dict(base, reason="peak position is not a 1-based voxel of the map", row=q, xyz=pos[q].tolist()))
        return
    lin = np.ravel_multi_index(vox.T, Sm.shape)
    if len(np.unique(lin)) != len(lin):
        ctx.check("sx_threshold", False, dict(base, reason="a voxel is reported twice"))
        return
    pv = S64[vox[:, 0], vox[:, 1], vox[:, 2]]
    bad = np.nonzero(~(pv > thr) | ~(T[:, 3] > thr))[0]
    ctx.check("sx_threshold", len(bad) == 0, None if len(bad) == 0 else dict(
        base, row=int(bad[0]), xyz=pos[bad[0]].tolist(), map_value=float(pv[bad[0]]), reported_score=float(T[bad[0], 3])))
    bad = np.nonzero(T[:, 3] != pv)[0]
    ctx.check("sx_score", len(bad) == 0, None if len(bad) == 0 else dict(
        base, row=int(bad[0]), xyz=pos[bad[0]].tolist(), reported_score=float(T[bad[0], 3]), map_value_at_xyz_minus_1=float(pv[bad[0]]),
        n_wrong=int(len(bad))))
    exp = L[idx[vox[:, 0], vox[:, 1], vox[:, 2]]]
    neq = np.abs(T[:, 4:7] - exp) > ANGLE_TOL
    bad = np.nonzero(neq.any(axis=1))[0]
    ctx.check("sx_angles", len(bad) == 0, None if len(bad) == 0 else dict(
        base, row=int(bad[0]), xyz=pos[bad[0]].tolist(), list_row=int(idx[tuple(vox[bad[0]])]), numbering=A["angles_numbering"],
        order=A["angles_order"], list_is_file=isinstance(A["angles_list"], str),
        got_phi_theta_psi=T[bad[0], 4:7].tolist(), expected_phi_theta_psi=exp[bad[0]].tolist(), n_wrong=int(len(bad))))
    w = O.peaks_separated(vox, dia)
    ctx.check("sx_separated", w is None, dict(base, **w) if w else None)
    w = O.peaks_dominate(supra, S64[supra[:, 0], supra[:, 1], supra[:, 2]], vox, pv, dia)
    ctx.check("sx_dominated", w is None, dict(base, **w) if w else None)


def setup(ctx):
    from cryocat import cryomotl, tmana, geom, ioutils, cryomap
    ctx.cm, ctx.tm = cryomotl, tmana
    # scores_extract_particles calls gc.collect() on every call (35 ms with sklearn/skimage/lmfit loaded); moving the
    # import-time objects to the permanent generation makes that call cheap without touching cryoCAT's behaviour
    import gc
    gc.collect()
    gc.freeze()
    f1 = monitors.wrap(ctx, cryomotl.Motl, "clean_by_distance", "cbd_rows", _cbd_post, _cbd_applicable, _cbd_snapshot)
    f2 = monitors.wrap(ctx, tmana, "scores_extract_particles", "sx_threshold", _sx_post, _sx_applicable, _sx_snapshot)
    ctx.declare("cbd_separated", "cbd_dominated", "cbd_isolation", "cbd_metamorphic",
                "sx_score", "sx_angles", "sx_separated", "sx_dominated", "sx_relational")
    monitors.trace(ctx, [
        ("Motl.clean_by_distance", f1, {"sort_descending": "np.argsort(temp_scores)[::-1]",
                                         "sort_ascending": ("sort_idx = np.argsort(temp_scores)", 1),
                                         "survivor_scans_neighbours": "geom.point_pairwise_dist(pos[j, :], pos)",
                                         "dist_mask_path": "nn_stats = nnana.get_nn_stats_within_radius",
                                         "per_group_append": "cleaned_df = pd.concat("}),
        ("geom.point_pairwise_dist", geom.point_pairwise_dist, {"tile_single_row": "np.tile(coord_1"}),
        ("tmana.scores_extract_particles", f2, {"direct_threshold": "threshold = scores_threshold",
                                                 "sigma_threshold": "threshold = score_mean + sigma_threshold",
                                                 "triangle_threshold": "compute_scores_map_threshold_triangle(scores_map)",
                                                 "nothing_above_threshold": "return None",
                                                 "already_suppressed": ("continue", 0),
                                                 "suppress_neighbour": "remaining_coords.remove(nearby_coord_tuple)",
                                                 "symmetry_random_phi": "np.random.choice(add_phi",
                                                 "n_particles_cut": "rpos = rpos[0 : min("}),
        ("ioutils.rot_angles_load", ioutils.rot_angles_load, {"csv_zzx": 'angles.columns = ["phi", "psi", "theta"]',
                                                              "csv_zxz": 'angles.columns = ["phi", "theta", "psi"]',
                                                              "array": "input_angles.copy()"}),
        ("cryomap.read", cryomap.read, {"mrc": "mrcfile.open(input_map)", "em": "emfile.read(input_map)",
                                        "array": "data = np.array(input_map)"}),
    ])


# =====================================================================================================
# generators: particle lists
# =====================================================================================================
def _split_positions(rng, df, P, shift_scale=3.0):
    """write complete positions P as x/y/z + shift_x/y/z with non-zero shifts"""
    s = rng.uniform(-shift_scale, shift_scale, P.shape)
    xyz = P - s
    df["x"], df["y"], df["z"] = xyz[:, 0], xyz[:, 1], xyz[:, 2]
    df["shift_x"], df["shift_y"], df["shift_z"] = s[:, 0], s[:, 1], s[:, 2]


def _unique_metric(rng, n, lo, hi):
    return lo + (hi - lo) * (rng.permutation(n) + rng.uniform(0.05, 0.95, n)) / n


def _cluster_positions(rng, n, sigma):
    ncl = max(1, n // int(rng.integers(3, 12)))
    box = sigma * (ncl ** (1.0 / 3.0)) * rng.uniform(3, 9) + 1
    c = rng.uniform(1, 1 + box, (ncl, 3))
    return c[rng.integers(0, ncl, n)] + rng.normal(0, sigma, (n, 3))


def _build_cbd(rng, cls, big):
    nmax = 400
    n = int(rng.choice([2, 5, 12, 40, 120, 400])) if rng.random() < 0.4 else int(rng.integers(2, nmax + 1))
    if not big and n > 250 and rng.random() < 0.5:
        n = int(rng.integers(20, 250))
    if rng.random() < 0.3:
        n = int(rng.choice([63, 64, 65, 127, 128, 129, 255, 256, 257, 399, 400]))      # block-boundary list sizes, largest size
    ng = int(rng.integers(1, 5))
    feature = str(rng.choice(["tomo_id", "object_id", "class"]))
    metric = "score" if rng.random() < 0.6 else "geom1"
    kg = bool(rng.random() < 0.5)
    sigma = float(rng.uniform(1.0, 6.0))
    d = sigma * float(rng.uniform(0.4, 3.0))
    info = {}
    if cls == "cbd_lower_geom1":
        metric, kg = "geom1", False
    if cls == "cbd_small_n":
        n = int(rng.choice([1, 1, 2, 2, 3]))
        ng = int(rng.integers(1, 3))
    if cls in ("cbd_overlapping_groups", "cbd_representability"):
        ng = int(rng.integers(2, 5))
    sizes = None
    if cls == "cbd_block_sizes":
        # every GROUP has a block-boundary size (or the whole list has the largest size the quantifier allows)
        if rng.random() < 0.25:
            sizes = [int(rng.choice([399, 400]))]
        else:
            sizes = []
            for _ in range(int(rng.integers(1, 5))):
                cand = [v for v in (63, 64, 65, 127, 128, 129, 255, 256, 257) if sum(sizes) + v <= 400]
                if cand:
                    sizes.append(int(rng.choice(cand)))
        n, ng = int(sum(sizes)), len(sizes)
        sigma = float(rng.uniform(1.0, 4.0))
        d = sigma * float(rng.uniform(0.8, 2.5))
    df = gens.motl_table(rng, n, tomos=int(rng.integers(1, 4)))
    df["score"] = _unique_metric(rng, n, 0.0, 1.0)
    df["geom1"] = _unique_metric(rng, n, -5.0, 5.0)
    pool = rng.choice(np.arange(1, 60), ng, replace=False).astype(float)
    lab = rng.choice(pool, n)
    P = _cluster_positions(rng, n, sigma)

    if cls == "cbd_overlapping_groups":
        nb = max(1, n // ng)
        B = _cluster_positions(rng, nb, sigma)
        src = rng.integers(0, nb, n)
        src[:min(nb, n)] = np.arange(min(nb, n))
        lab = pool[np.arange(n) % ng]
        mode = str(rng.choice(["exact_copies", "tiny_jitter", "mixed"]))
        jit = rng.uniform(-1, 1, (n, 3)) * 0.3 * d
        if mode == "exact_copies":
            jit[:] = 0
        elif mode == "mixed":
            jit[rng.random(n) < 0.5] = 0
        first = np.zeros(n, dtype=bool)
        first[:min(nb, n)] = True
        jit[first] = 0
        P = B[src] + jit
        # rows sitting on the same base point must differ in group or in position (identical rows would be a score-free tie)
        seen = {}
        for r in range(n):
            k = (int(src[r]), float(lab[r]), tuple(jit[r]))
            if k in seen:
                P[r] = P[r] + rng.uniform(0.05, 0.3, 3) * d
            seen[k] = r
        info["overlap_mode"] = mode
    elif cls == "cbd_chain":
        P = np.zeros((n, 3))
        lab = np.zeros(n)
        sc = np.zeros(n)
        start = 0
        cmode = str(rng.choice(["increasing", "decreasing", "random", "zigzag"]))
        gmode = str(rng.choice(["chain_one_group", "alternate_groups", "random_groups"]))
        c_id = 0
        while start < n:
            ln = int(min(n - start, rng.integers(2, 40)))
            u = rng.normal(size=3)
            u /= np.linalg.norm(u)
            steps = rng.uniform(0.55, 0.98, ln) * d
            t = np.cumsum(steps)
            base = rng.uniform(0, 60, 3) + c_id * np.array([0.0, 0.0, 40.0 + 4 * d])
            P[start:start + ln] = base + t[:, None] * u[None, :] + rng.normal(0, 0.01 * d, (ln, 3))
            j = np.arange(ln)
            if cmode == "increasing":
                s = j.astype(float)
            elif cmode == "decreasing":
                s = -j.astype(float)
            elif cmode == "zigzag":
                s = (j % 2) * 1000.0 + j
            else:
                s = rng.permutation(ln).astype(float)
            sc[start:start + ln] = s + c_id * 0.001 + rng.uniform(0, 1e-4, ln)
            if gmode == "chain_one_group":
                lab[start:start + ln] = pool[c_id % ng]
            elif gmode == "alternate_groups":
                lab[start:start + ln] = pool[(j + c_id) % ng]
            else:
                lab[start:start + ln] = rng.choice(pool, ln)
            start += ln
            c_id += 1
        df[metric] = sc
        info.update(chain_scores=cmode, chain_groups=gmode)
    elif cls == "cbd_shift_decisive":
        mode = str(rng.choice(["lattice_far_shifts_close", "same_voxel_shifts_apart"]))
        info["shift_mode"] = mode
        if mode == "lattice_far_shifts_close":
            Lstep = float(np.ceil(1.3 * d) + 1)
            side = int(np.ceil(n ** (1 / 3.0))) + 1
            sites = np.array(list(itertools.product(range(side), repeat=3)))
            xyz = sites[rng.permutation(len(sites))[:n]] * Lstep + 1.0
            s = rng.uniform(-0.6, 0.6, (n, 3)) * Lstep
        else:
            nv = max(1, n // int(rng.integers(2, 9)))
            vox = np.round(rng.uniform(1, 80, (nv, 3)))
            xyz = vox[rng.integers(0, nv, n)]
            s = rng.uniform(-1.5, 1.5, (n, 3)) * d
        df["x"], df["y"], df["z"] = xyz[:, 0], xyz[:, 1], xyz[:, 2]
        df["shift_x"], df["shift_y"], df["shift_z"] = s[:, 0], s[:, 1], s[:, 2]
        P = None
    elif cls == "cbd_near_tie":
        P = np.zeros((n, 3))
        grid = rng.permutation(int(np.ceil(n / 2.0)) + 3)
        lab = np.repeat(rng.choice(pool, (n + 1) // 2), 2)[:n]
        for q in range(0, n, 2):
            a = np.array([grid[q // 2] * 3.7 * d, rng.uniform(0, 0.5) * d, rng.uniform(0, 0.5) * d]) + rng.uniform(1, 50)
            P[q] = a
            if q + 1 < n:
                u = rng.normal(size=3)
                u /= np.linalg.norm(u)
                delta = 10 ** rng.uniform(-7, -4) * rng.choice([-1, 1])
                P[q + 1] = a + u * d * (1 + delta)
        perm = rng.permutation(n)
        P, lab = P[perm], lab[perm]
    elif cls == "cbd_small_n":
        P = rng.uniform(1, 10, (n, 3))
        d = float(rng.choice([0.5, 3.0, 8.0, 40.0])) * float(rng.uniform(0.8, 1.2))
    elif cls == "cbd_odd_labels":
        odd = np.array([0.0, -7.0, 1e6, 2.5, 3.0, 1e-3, -0.5, 65537.0, 12.0])
        pool = rng.choice(odd, ng, replace=False)
        lab = rng.choice(pool, n)
    elif cls == "cbd_block_sizes":
        lab = np.repeat(pool[:ng], sizes)[rng.permutation(n)]
        info["group_sizes"] = sizes
    elif cls == "cbd_representability":
        # adjacent integer labels at representability boundaries (np.isclose / float32 / int32 would merge or wrap them),
        # groups interleaved in space so that a merge of two groups changes the survivors
        basel = float(rng.choice([100000.0, 100000.0, 100001.0, 2.0 ** 24 - 1, 2.0 ** 24, 2.0 ** 31 - 1, 2.0 ** 31, 2.0 ** 53]))
        step = 2.0 if basel >= 2.0 ** 53 else 1.0
        pool = basel + step * np.arange(ng)
        if rng.random() < 0.3:
            pool = -pool
        nb = max(1, n // ng)
        B = _cluster_positions(rng, nb, sigma)
        lab = pool[np.arange(n) % ng]
        P = B[rng.integers(0, nb, n)] + rng.uniform(-1, 1, (n, 3)) * 0.4 * d
        info["label_base"] = basel
    elif cls == "cbd_exact_duplicates":
        pass                                   # positions are written below (dyadic values, exact sums)
    elif cls == "cbd_float32_collapse":
        # metrics distinct in float64 but equal (or mis-ordered) once rounded to float32; rank order != row order
        metric = str(rng.choice(["score", "geom1", "subtomo_id", "geom3", "geom4"]))
        fmode = str(rng.choice(["close_floats", "big_integers", "float32_extremes"], p=[0.4, 0.4, 0.2])) if metric != "subtomo_id" else "big_integers"
        rank = rng.permutation(n).astype(np.float64)
        if fmode == "close_floats":
            v0 = float(rng.choice([1.0, -1.0])) * float(10 ** rng.uniform(-1, 3))
            df[metric] = v0 * (1.0 + rank * float(10 ** rng.uniform(-9, -7.3)))
        elif fmode == "float32_extremes":
            # float32 max and the values just below it, float32 subnormals, their negatives: all distinct
            f32 = np.float32(3.4028234663852886e38)
            tops = [float(f32)]
            for _ in range(3):
                f32 = np.nextafter(f32, np.float32(0))
                tops.append(float(f32))
            vals = tops + [-v for v in tops] + [float(j) * 2.0 ** -149 for j in range(1, n + 1)] + [-float(j) * 2.0 ** -149 for j in range(1, 6)]
            df[metric] = np.array(vals)[rng.permutation(len(vals))[:n]]
        else:
            basev = float(rng.choice([2 ** 24, 2 ** 25 + 1, 2 ** 26 - 200, 3 * 2 ** 24, 2 ** 30])) * (1.0 if metric == "subtomo_id" else float(rng.choice([1.0, -1.0])))
            df[metric] = basev + rank * float(rng.choice([1, 1, 2]))
        d = sigma * float(rng.uniform(1.0, 3.0))
        info["float32_mode"] = fmode
    if cls == "cbd_exact_duplicates":
        # several particles at EXACTLY the same complete position (same group and other groups) with different scores:
        # bit-identical x/shift, or another split of the same dyadic sum
        nsite = max(1, n // int(rng.integers(2, 6)))
        site_p = np.round(_cluster_positions(rng, nsite, sigma) * 8) / 8
        site_s = np.round(rng.uniform(-3, 3, (nsite, 3)) * 8) / 8
        src = rng.integers(0, nsite, n)
        sh = site_s[src].copy()
        alt = rng.random(n) < 0.3
        sh[alt] += np.round(rng.uniform(-4, 4, (int(alt.sum()), 3)) * 4) / 4
        xyz = site_p[src] - sh
        df["x"], df["y"], df["z"] = xyz[:, 0], xyz[:, 1], xyz[:, 2]
        df["shift_x"], df["shift_y"], df["shift_z"] = sh[:, 0], sh[:, 1], sh[:, 2]
        if rng.random() < 0.5:                 # rows identical in every field but metric / tag / id
            for ccol in COLS:
                if ccol not in ("x", "y", "z", "shift_x", "shift_y", "shift_z", "score", "geom1", "subtomo_id", feature):
                    df[ccol] = df[ccol].to_numpy()[0]
        info["sites"] = int(nsite)
        if rng.random() < 0.5:                 # ... and the co-located particles' metrics differ only beyond float32 precision
            df[metric] = float(rng.choice([0.61234567, -3.25, 812.5])) * (1.0 + rng.permutation(n) * float(10 ** rng.uniform(-9, -7.5)))
            info["metric_spacing"] = "sub-float32"
        P = None
    if P is not None:
        _split_positions(rng, df, P, shift_scale=float(rng.choice([0.5, 3.0, 10.0])))
    if cls == "cbd_representability" or (cls in ("cbd_clusters", "cbd_chain", "cbd_block_sizes") and rng.random() < 0.2):
        # coordinates just above 1e5 / 2**24 (a float32 or %g detour of the coordinates would merge neighbours)
        if rng.random() < 0.6:
            off = np.array([float(rng.choice([1e5, 2.0 ** 24, -2.0 ** 24, 1e5 + 0.5])) for _ in range(3)]) * (rng.random(3) < 0.7)
            for k, ccol in enumerate(("x", "y", "z")):
                df[ccol] = df[ccol].to_numpy(dtype=float) + off[k]
            info["coordinate_offset"] = off.tolist()
    if len(np.unique(lab)) == 1 and rng.random() < 0.3:
        lab = np.zeros(n)                       # a single group whose label is 0 (class 0 / tomo 0 everywhere)
    df[feature] = lab
    if cls == "cbd_representability" and np.all(np.abs(lab) < 2.0 ** 62) and rng.random() < 0.5:
        df[feature] = df[feature].astype(np.int64)
    if cls == "cbd_extreme_d":
        Pc = gens.positions(df)
        D = O.dist_matrix(Pc)
        D[np.diag_indices(n)] = np.nan
        if n > 1:
            d = float(np.nanmin(D) * rng.uniform(0.2, 0.9)) if rng.random() < 0.5 else float(np.nanmax(D) * rng.uniform(1.1, 3.0))
            info["extreme"] = "below_min" if d < np.nanmin(D) else "above_max"
        d = max(d, 1e-3)
    if cls == "cbd_equal_scores_apart":
        Pc = gens.positions(df)
        levels = np.round(rng.uniform(-1, 1, int(rng.integers(3, 12))), 2)
        levels = np.unique(levels)
        val = np.full(n, np.nan)
        D = O.dist_matrix(Pc)
        same = lab[:, None] == lab[None, :]
        for r in rng.permutation(n):
            nb = np.nonzero(same[r] & (D[r] < d * 1.0000001) & ~np.isnan(val))[0]
            free = [v for v in levels if v not in set(val[nb].tolist())]
            val[r] = float(rng.choice(free)) if free else float(rng.uniform(2, 3))
        df[metric] = val
        info["score_levels"] = int(len(np.unique(val)))
    if cls == "cbd_odd_labels":
        if np.all(lab == np.round(lab)) and rng.random() < 0.6:
            df[feature] = df[feature].astype(np.int64)
        if rng.random() < 0.5:
            df["score"] = df["score"].astype(np.float32)
        df.index = rng.permutation(n) * 3 + 11
        info["index"] = "shuffled_odd"
    # ---- presentation of the table (round 6): integer-typed columns, all-zero columns, row labels
    if cls not in ("cbd_exact_duplicates", "cbd_near_tie", "cbd_representability") and rng.random() < 0.25:
        Pc = gens.positions(df)
        it = str(rng.choice(["int64", "int32"]))
        for k, (cx, cs) in enumerate((("x", "shift_x"), ("y", "shift_y"), ("z", "shift_z"))):
            xi = np.round(df[cx].to_numpy(dtype=float))
            df[cs] = Pc[:, k] - xi
            df[cx] = xi.astype(it)
        info["xyz_dtype"] = it
    if rng.random() < 0.2:
        for ccol in ("phi", "theta", "psi"):
            df[ccol] = np.round(df[ccol].to_numpy(dtype=float)).astype(np.int32)
        info["euler_dtype"] = "int32"
    if rng.random() < 0.15:
        for ccol in ("class", "object_id", "tomo_id", "score", "geom1", "geom2"):
            if ccol not in (feature, metric):
                df[ccol] = 0.0
        info["zero_columns"] = True
    if cls != "cbd_odd_labels":
        imode = str(rng.choice(["range", "range", "permuted", "gapped", "reversed", "repeated_labels", "repeated_labels", "all_equal_labels"]))
        if imode == "permuted":
            df.index = rng.permutation(n)
        elif imode == "gapped":
            df.index = np.sort(rng.choice(np.arange(5 * n + 5), n, replace=False))
        elif imode == "reversed":
            df.index = np.arange(n)[::-1]
        elif imode == "repeated_labels":           # pd.concat of two lists without ignore_index
            k1 = int(rng.integers(1, n + 1))
            df.index = np.concatenate([np.arange(k1), np.arange(n - k1)])
        elif imode == "all_equal_labels":
            df.index = np.zeros(n, dtype=int)
        info["index"] = imode
    # row identity for the driver: an own unique tag.  subtomo_id presentation: unique / restarting in every group / repeats
    df[TAG] = 1000.0 + np.arange(n)
    idmode = str(rng.choice(["unique", "restart_per_group", "restart_per_group", "repeats_within_group", "all_equal"],
                            p=[0.3, 0.25, 0.2, 0.2, 0.05]))
    if metric == "subtomo_id":
        idmode = "unique(metric)"
    else:
        labv = df[feature].to_numpy(dtype=float)
        ids = np.zeros(n)
        for g in np.unique(labv):
            sel = np.nonzero(labv == g)[0]
            k = len(sel)
            seq = np.arange(1, k + 1, dtype=float)
            if idmode == "repeats_within_group" and k > 1:
                seq = rng.integers(1, max(2, k // 2) + 1, k).astype(float)
            if rng.random() < 0.5:
                seq = rng.permutation(seq)
            ids[sel] = seq
        if idmode == "all_equal":
            ids[:] = 1.0
        if idmode != "unique":
            df["subtomo_id"] = ids.astype(df["subtomo_id"].dtype) if df["subtomo_id"].dtype.kind in "iu" else ids
    info["subtomo_ids"] = idmode
    return {"df": df, "d": float(d), "feature": feature, "metric": metric, "kg": kg, "info": info}


def _gen_cbd(ctx, rng, cls, big):
    for attempt in range(60):
        c = _build_cbd(rng, cls, big)
        V = _values(c["df"])
        ok, why = O.cbd_domain(V, COLS.index(c["feature"]), COLS.index(c["metric"]), c["d"], COLS)
        if ok:
            break
    else:
        raise RuntimeError("no in-domain particle list after 60 attempts (%s): %s" % (cls, why))
    P = O.complete_positions(V, COLS)
    lab = V[:, COLS.index(c["feature"])]
    conflicts = 0
    cross = 0
    for g, idx in O.groups_of(lab).items():
        D = O.dist_matrix(P[idx])
        conflicts += int(((D < c["d"]).sum() - len(idx)) // 2)
    if len(V) <= 400:
        Dall = O.dist_matrix(P)
        cross = int(((Dall < c["d"]) & (lab[:, None] != lab[None, :])).sum() // 2)
    c.update(kind="cbd", regenerated=attempt, conflicts=conflicts, cross_group_close_pairs=cross)
    df = c["df"]
    c["summary"] = {"kind": "clean_by_distance", "n": int(len(df)), "groups": int(len(np.unique(lab))), "feature": c["feature"],
                    "metric": c["metric"], "keep_greater": c["kg"], "d": c["d"], "conflicting_pairs": conflicts,
                    "cross_group_close_pairs": cross, "regenerated": attempt, **c["info"],
                    "row0": {k: float(df[k].iloc[0]) for k in ("x", "shift_x", "score", "geom1", c["feature"])}}
    return c


# =====================================================================================================
# generators: score maps
# =====================================================================================================
def _plateau_free32(v, rng):
    a = np.asarray(v, dtype=np.float32).ravel().copy()
    for _ in range(200):
        u, inv, cnt = np.unique(a, return_inverse=True, return_counts=True)
        dup = cnt[inv.ravel()] > 1
        if not dup.any():
            return a.reshape(np.shape(v))
        scale = np.maximum(np.abs(a[dup].astype(np.float64)), 1e-3) * 1e-5
        a[dup] = (a[dup].astype(np.float64) + rng.normal(0, 1, int(dup.sum())) * scale).astype(np.float32)
    raise RuntimeError("could not remove plateaus")


def _field(rng, shape, kind):
    if kind == "noise":
        return rng.random(shape)
    g = np.stack(np.meshgrid(*[np.arange(s) for s in shape], indexing="ij"), axis=-1).astype(float)
    f = np.zeros(shape)
    nb = int(rng.integers(1, max(2, int(np.prod(shape)) // 150) + 2))
    for _ in range(nb):
        c = np.array([rng.uniform(-1, s) for s in shape])
        if kind == "faces":
            ax = int(rng.integers(0, 3))
            c[ax] = float(rng.choice([0, shape[ax] - 1]))
            if rng.random() < 0.4:
                ax2 = (ax + 1) % 3
                c[ax2] = float(rng.choice([0, shape[ax2] - 1]))
        w = rng.uniform(0.8, 3.0)
        f += rng.uniform(0.3, 1.0) * np.exp(-((g - c) ** 2).sum(axis=-1) / (2 * w * w))
    return f + rng.normal(0, 0.03, shape)


def _dims(rng, cls, big):
    hi = 40 if big else 24
    if cls == "sx_noncubic":
        return tuple(int(x) for x in rng.permutation([int(rng.integers(2, 9)), int(rng.integers(6, hi + 1)), int(rng.integers(10, hi + 1))]))
    if cls == "sx_few_supra":
        return tuple(int(rng.integers(2, 12)) for _ in range(3))
    if cls == "sx_big_angle_list":
        return tuple(int(rng.integers(4, 13)) for _ in range(3))
    if rng.random() < 0.5:
        n = int(rng.integers(6, hi + 1))
        return (n, n, n)
    return tuple(int(rng.integers(5, hi + 1)) for _ in range(3))


def _generic_diameter(rng, lo, hi):
    for _ in range(100):
        d = float(np.round(rng.uniform(lo, hi), 3))
        d2 = d * d
        if abs(d2 - round(d2)) > 1e-6:
            return d
    return 2.5


def _plant_sigma_boundary(rng, S, sg, dia):
    """Boundary values of the sigma threshold: move one isolated voxel to just below and one to just above
    mean + sigma*std(ddof=1) (20..40 accumulation bands away, i.e. ~1e-11 relative), re-solving the threshold after each
    move.  'Isolated' = farther than the diameter from every supra-threshold voxel, so that the voxel's fate is visible.
    -> (map, threshold, n_supra) or None"""
    S = S.copy()
    thr, band = O.threshold_of(S, None, sg)
    sup = np.argwhere(S > thr)
    sub = np.argwhere(S <= thr)
    if len(sup) < 1 or len(sub) < 2 or len(sup) > 1500:
        return None
    cand = sub[rng.permutation(len(sub))[:600]]
    far = cand[(O.sq_lattice_dist(cand, sup) > dia * dia).all(axis=1)]
    if len(far) < 2:
        return None
    lo = far[0]
    rest = far[1:][O.sq_lattice_dist(far[1:], lo[None])[:, 0] > dia * dia]
    if len(rest) < 1:
        return None
    hi = rest[0]
    f_lo, f_hi = 20 * (1 + rng.random()), 20 * (1 + rng.random())
    for _ in range(8):
        thr, band = O.threshold_of(S, None, sg)
        S[tuple(lo)] = thr - f_lo * band
        S[tuple(hi)] = thr + f_hi * band
    thr, band = O.threshold_of(S, None, sg)
    off = np.abs(S - thr)
    ok = (off > 3 * band).all() and S[tuple(lo)] < thr - 10 * band and S[tuple(hi)] > thr + 10 * band \
        and S[tuple(lo)] > thr - 80 * band and S[tuple(hi)] < thr + 80 * band and len(np.unique(S)) == S.size
    if not ok:
        return None
    return S, thr, int((S > thr).sum())


def _big_list(ctx):
    """70000 distinct angle rows, generated once per process, a function of the seed only (cases take a prefix)"""
    L = getattr(ctx, "_c07_big_list", None)
    if L is None:
        r = ctx.rng(10 ** 7, 5)
        L = np.round(np.column_stack([r.uniform(-180, 180, 70000), r.uniform(0, 180, 70000), r.uniform(-180, 180, 70000)]), 4)
        ctx._c07_big_list = L
    return L


def _gen_sx(ctx, rng, cls, big):
    shape = _dims(rng, cls, big)
    n_exact = None
    if cls == "sx_exact_supra_count":
        # an EXACT number of supra-threshold voxels: 2**k-1, 2**k, 2**k+1 (k = 6..13) and m*4096+1, in a dense region
        hi = 40 if big else 24
        m4096 = [m * 4096 + 1 for m in range(1, 16) if m * 4096 + 1 < hi ** 3 - 8]
        n_exact = int(rng.choice(m4096)) if rng.random() < 0.45 else int(rng.choice([v for v in BLOCK_COUNTS if v < hi ** 3 - 8]))
        target = min(hi ** 3, max(n_exact + 8, int(n_exact / rng.uniform(0.3, 0.97))))
        side = min(hi, int(np.ceil(target ** (1.0 / 3.0))))
        shape = (side, side, side)
        if rng.random() < 0.5:
            a = int(min(hi, side + rng.integers(0, 5)))
            b = int(max(2, min(hi, side - rng.integers(0, 3))))
            cdim = int(min(hi, max(2, np.ceil((n_exact + 8) / (a * b)))))
            cdim = int(min(hi, max(cdim, side - 2)))
            if a * b * cdim >= n_exact + 8:
                shape = tuple(int(v) for v in rng.permutation([a, b, cdim]))
        while int(np.prod(shape)) < n_exact + 8:
            shape = tuple(min(hi, v + 1) for v in shape)
    nvox = int(np.prod(shape))
    kind = "noise" if cls in ("sx_noise_dense", "sx_few_supra", "sx_exact_supra_count") else ("faces" if cls == "sx_faces" else str(rng.choice(["blobs", "blobs", "noise"])))
    f = _field(rng, shape, kind)
    if cls == "sx_zero_threshold":
        # mixed-sign scores, the requested threshold is exactly 0 (int) or 0.0: kk voxels are positive
        fs = np.sort(f.ravel())
        kk = int(min(nvox - 1, 12000 if big else 5000, max(2, nvox * 10 ** rng.uniform(-2.0, -0.3))))
        f = (f - (fs[-kk - 1] + fs[-kk]) / 2.0) * float(rng.choice([1.0, 1e-2, 40.0]))
    elif cls == "sx_negative":
        f = f * float(rng.choice([1.0, 30.0]))
        f = f - float(f.max()) - float(rng.uniform(0.1, 5))
    elif rng.random() < 0.3:
        sc = float(rng.choice([1e-3, 50.0, 1e4]))
        f = (f + float(rng.choice([0.0, -0.2, 3.0]))) * sc
    S32 = _plateau_free32(f, rng)
    srt = np.sort(S32.ravel().astype(np.float64))
    cap = 12000 if big else 5000
    dia = _generic_diameter(rng, 1.1, 9.0)
    thr_kind = "scores"
    sigma = None
    if cls == "sx_exact_supra_count":
        k = n_exact
        dia = _generic_diameter(rng, 1.2, 3.6) if rng.random() < 0.7 else float(rng.choice([2, 3]))
    elif cls == "sx_noise_dense":
        k = int(min(cap, nvox * rng.uniform(0.3, 1.0)))
        okc = [v for v in BLOCK_COUNTS + [4097, 8193, 12289] if nvox * 0.25 <= v <= min(cap + 8000, nvox - 1)]
        if okc and rng.random() < 0.4:
            k = int(rng.choice(okc))
        dia = _generic_diameter(rng, 1.1, 4.0)
    elif cls == "sx_few_supra":
        k = int(rng.choice([0, 0, 1, 1, 2, 2, 3]))
    elif cls == "sx_extreme_diameter":
        mode = str(rng.choice(["below_one", "exactly_one", "beyond_box"]))
        dia = {"below_one": float(rng.uniform(0.05, 0.99)), "exactly_one": 1.0, "beyond_box": float(np.linalg.norm(shape) + rng.uniform(0.5, 30))}[mode]
        k = int(min(600 if mode != "beyond_box" else cap, max(2, nvox * rng.uniform(0.01, 0.3))))
        okc = [v for v in (63, 64, 65, 127, 128, 129, 255, 256, 257, 511, 512, 513) if v < nvox]
        if mode == "below_one" and okc and rng.random() < 0.6:
            k = int(rng.choice(okc))          # every supra-threshold voxel is a peak: block-boundary NUMBER OF PEAKS
    else:
        k = int(min(cap, max(2, nvox * 10 ** rng.uniform(-2.3, -0.2))))
    if cls == "sx_integer_diameter":
        dia = float(rng.choice([1, 2, 3, 3, 5, 5, 6, 7, 9]))
        if rng.random() < 0.3:
            dia = int(dia)
    k = max(0, min(k, nvox))
    if k == 0:
        thr = float(srt[-1] + abs(srt[-1]) * 0.01 + 0.01) if rng.random() < 0.5 else float(srt[-1])
    elif k == nvox:
        thr = float(srt[0] - 1.0)
    elif cls != "sx_exact_supra_count" and rng.random() < 0.2:
        thr = float(srt[-k - 1])              # threshold EQUAL to a voxel's score: that voxel does not exceed it
    else:
        thr = float((srt[-k - 1] + srt[-k]) / 2.0)
    if cls == "sx_zero_threshold":
        thr = 0 if rng.random() < 0.5 else 0.0
        k = int((srt > 0).sum())
    as_files = cls == "sx_files" or rng.random() < (0.5 if cls == "sx_big_angle_list" else 0.15)
    io = {"scores": "array", "angles": "array", "list": "array"}
    if as_files:
        io = {"scores": str(rng.choice(["em", "mrc"])), "angles": str(rng.choice(["em", "mrc", "array"])),
              "list": str(rng.choice(["csv", "csv", "array"]))}
    if as_files and cls == "sx_big_angle_list":
        io["list"] = "csv"
    # a threshold EQUAL to a voxel's score is judged for float64 maps only (float32 maps: comparison-dtype hairline, see
    # c07_oracle.threshold_of), so those cases are driven with a float64 array whenever the scores are not read from a file
    thr_equal = cls != "sx_zero_threshold" and bool(np.any(srt == thr))
    use64 = (bool(rng.random() < (0.7 if cls == "sx_sigma" else 0.35)) or thr_equal) and io["scores"] == "array"
    S = S32.astype(np.float64) if use64 else S32
    if cls == "sx_sigma" or (cls in ("sx_blobs", "sx_noncubic", "sx_faces") and rng.random() < 0.25):
        plant = cls == "sx_sigma" and S.dtype == np.float64 and rng.random() < 0.85
        if plant:
            dia = _generic_diameter(rng, 1.1, 3.6)
        for _ in range(40):
            sg = float(np.round(rng.uniform(1.3, 3.5) if plant else rng.uniform(-0.5, 3.5), 2))
            t, band = O.threshold_of(S, None, sg)
            nsup = int((srt > t).sum())
            if 1 <= nsup <= cap and not np.any(np.abs(srt - t) <= 3 * band):
                thr_kind, sigma, thr, k = "sigma", sg, t, nsup
                if plant:
                    planted = _plant_sigma_boundary(rng, S, sg, dia)
                    if planted is not None:
                        S, thr, k = planted
                        srt = np.sort(S.ravel())
                        thr_kind = "sigma_boundary"
                break
    # angle list / angle map
    numbering = int(rng.integers(0, 2))
    nl = int(rng.choice([1, 2, 7, 60, 500])) if rng.random() < 0.5 else int(rng.integers(1, 400))
    if rng.random() < 0.25:
        nl = int(rng.choice([v for v in BLOCK_COUNTS if v <= 4097]))
    lmode = str(rng.choice(["continuous", "lattice", "integers"]))
    tokens = None
    if io["list"] == "csv" and cls != "sx_big_angle_list" and rng.random() < 0.4:
        lmode = "odd_text"
    if lmode == "continuous":
        L = np.column_stack([rng.uniform(-180, 180, nl), rng.uniform(0, 180, nl), rng.uniform(-180, 180, nl)])
    elif lmode == "lattice":
        L = np.column_stack([rng.integers(0, 36, nl) * 10.0, rng.integers(0, 19, nl) * 10.0 + 0.5, rng.integers(0, 36, nl) * 10.0 + 0.25])
    elif lmode == "odd_text":
        # numbers whose text form is unusual; the file carries exactly these tokens, the list holds float(token)
        pool_t = np.array([".5", "5.", "+3", "1E2", "3e-06", "1e+02", "-.25", "2.50", "1e0", "-0.0", "0", "180", "1.5e1", "+.125", "33.", "-7e-1"])
        tokens = pool_t[rng.integers(0, len(pool_t), (nl, 3))]
        L = np.array([[float(t) for t in row] for row in tokens], dtype=np.float64).reshape(nl, 3)
    else:
        L = np.column_stack([rng.integers(0, 360, nl), rng.integers(0, 181, nl), rng.integers(360, 720, nl)]).astype(float)
    if cls == "sx_big_angle_list":
        # 40000-70000 rows: angle-map entries beyond 32767 / 65535 and the last row are referenced by the best voxels
        nl = int(rng.integers(40000, 70001))
        if rng.random() < 0.4:
            nl = int(rng.choice(LIST_BLOCK_COUNTS))
        L, lmode = _big_list(ctx)[:nl], "big_cached_prefix"
    Aidx = rng.integers(0, nl, shape)
    if rng.random() < 0.5:
        Aidx.ravel()[int(np.argmax(S))] = nl - 1          # the best voxel (always a peak) points to the LAST list row
    if cls == "sx_big_angle_list":
        top = np.argsort(-S.ravel())[:6]
        forced = [nl - 1, 32768, 32767, nl - 2, int(rng.integers(min(32768, nl - 1), nl)), 65535 if nl > 65536 else 39999]
        forced = [min(v, nl - 1) for v in forced]
        Aidx.ravel()[top[:min(len(top), 6)]] = forced[:min(len(top), 6)]
    adt = str(rng.choice(["int64", "int32", "float32", "float64"]))
    Amap = (Aidx + numbering).astype(adt)
    order = "zzx" if rng.random() < (0.5 if as_files else 0.2) else "zxz"
    c = {"kind": "sx", "S": S, "A": Amap, "L": L, "numbering": numbering, "order": order, "dia": dia, "thr_kind": thr_kind,
         "thr": thr, "sigma": sigma, "io": io, "tomo_id": int(rng.integers(1, 300)),
         "object_id": None if rng.random() < 0.5 else int(rng.integers(1, 9)), "n_supra": int(k), "L_tokens": tokens}
    # non-triviality: some supra-threshold voxel lies within the diameter of a better one
    sup = np.argwhere(S.astype(np.float64) > thr)
    supp = False
    if len(sup) >= 2:
        ss = S[sup[:, 0], sup[:, 1], sup[:, 2]].astype(np.float64)
        o = np.argsort(-ss)[:400]
        D2 = O.sq_lattice_dist(sup[o], sup[o])
        supp = bool(((D2 <= dia * dia) & (ss[o][None, :] > ss[o][:, None])).any())
    c["suppression"] = supp
    c["summary"] = {"kind": "scores_extract_particles", "shape": list(shape), "field": kind, "dtype": str(S.dtype), "diameter": dia,
                    "threshold": thr_kind, "thr": thr, "sigma": sigma, "n_supra": int(len(sup)), "numbering": numbering,
                    "order": order, "io": io, "list_rows": nl, "list_mode": lmode, "angle_map_dtype": adt,
                    "s000": float(S[0, 0, 0]), "suppression_expected": supp}
    return c


def gen(ctx, i, cls):
    rng = ctx.rng(i)
    big = ctx.tier == "thorough"
    c = _gen_cbd(ctx, rng, cls, big) if cls.startswith("cbd_") else _gen_sx(ctx, rng, cls, big)
    c["i"], c["cls"] = i, cls
    return c


def nontrivial(case):
    if case["kind"] == "cbd":
        return len(case["df"]) >= 2 and case["conflicts"] >= 1
    return case["n_supra"] >= 2 and case["suppression"]


# =====================================================================================================
# driver
# =====================================================================================================
TAG = "subtomo_mean"      # the driver's own unique row tag (never a grouping or metric field); subtomo_id may repeat


def _survivor_ids(m):
    return sorted(float(x) for x in m.df[TAG].to_numpy())


def _in_domain(df, c, d=None):
    return O.cbd_domain(_values(df), COLS.index(c["feature"]), COLS.index(c["metric"]), c["d"] if d is None else d, COLS)[0]


def _variant(rng, name, c, base_ids):
    """-> (table, kwargs, expected surviving ids or None if the variant fell outside the quantifier)"""
    df = c["df"].copy(deep=True)
    feature, metric, kg, d = c["feature"], c["metric"], c["kg"], c["d"]
    n = len(df)
    if name == "row_permutation":
        df = df.iloc[rng.permutation(n)].copy()
        if rng.random() < 0.5:
            df = df.reset_index(drop=True)
        return df, dict(kg=kg), base_ids
    if name == "rigid_motion":
        R = so3.random_rotations(rng, 1)[0]
        t = rng.uniform(-50, 50, 3)
        P = gens.positions(df) @ R.T + t
        _split_positions(rng, df, P, 2.0)
        return (df, dict(kg=kg), base_ids) if _in_domain(df, c) else (None, None, None)
    if name == "relabel_groups":
        vals = np.unique(df[feature].to_numpy(dtype=float))
        new = rng.permutation(vals) if rng.random() < 0.5 else rng.choice(np.arange(100, 200), len(vals), replace=False).astype(float)
        mp = dict(zip(vals.tolist(), new.tolist()))
        df[feature] = np.array([mp[v] for v in df[feature].to_numpy(dtype=float).tolist()])
        return df, dict(kg=kg), base_ids
    if name == "negate_metric":
        df[metric] = -df[metric].to_numpy(dtype=float)
        return df, dict(kg=not kg), base_ids
    if name == "perturb_other_groups":
        lab = df[feature].to_numpy(dtype=float)
        vals = np.unique(lab)
        g = float(rng.choice(vals))
        own = lab == g
        other = np.nonzero(~own)[0]
        keep_ids = sorted(set(base_ids) & set(float(x) for x in df[TAG].to_numpy()[own]))
        if len(other):
            P = gens.positions(df)
            Pg = P[own]
            # move foreign particles right onto / next to particles of group g, give them the best metric
            tgt = Pg[rng.integers(0, len(Pg), len(other))] + rng.uniform(-1, 1, (len(other), 3)) * d * rng.choice([0.0, 0.3, 1.5])
            sh = rng.uniform(-2, 2, tgt.shape)                 # group g itself stays bit-identical
            for k, (cx, cs) in enumerate((("x", "shift_x"), ("y", "shift_y"), ("z", "shift_z"))):
                vx, vs = df[cx].to_numpy(dtype=float).copy(), df[cs].to_numpy(dtype=float).copy()
                vx[other], vs[other] = tgt[:, k] - sh[:, k], sh[:, k]
                df[cx], df[cs] = vx, vs
            mv = df[metric].to_numpy(dtype=float).copy()
            span = np.abs(mv).max() + 1
            mv[other] = (mv[own].max() + span * rng.uniform(1, 2, len(other))) if kg else (mv[own].min() - span * rng.uniform(1, 2, len(other)))
            df[metric] = mv
            drop = other[rng.random(len(other)) < 0.3]
            df = df.iloc[np.setdiff1d(np.arange(len(df)), drop)]          # positional: row labels may repeat
        else:
            # single group: add a foreign group on top of it
            extra = df.iloc[rng.integers(0, n, max(1, n // 2))].copy()
            extra[feature] = float(np.abs(lab).max() * 2 + 7)          # (g + 1 would equal g for labels >= 2**53)
            extra[TAG] = extra[TAG].to_numpy(dtype=float) + 1e6
            mv = extra[metric].to_numpy(dtype=float)
            span = np.abs(df[metric].to_numpy(dtype=float)).max() + 1
            extra[metric] = mv + span * 3 if kg else mv - span * 3
            df = pd.concat([df, extra], ignore_index=True)
        df = df.iloc[rng.permutation(len(df))].reset_index(drop=True)
        if not _in_domain(df, c):
            return None, None, None
        return df, dict(kg=kg, only_group=g), keep_ids
    raise ValueError(name)


VARIANTS = ["row_permutation", "rigid_motion", "relabel_groups", "negate_metric", "perturb_other_groups"]


def _cbd_history(ctx, c, rng, base_ids):
    """Three calls on ONE caller-owned table that is modified in place between the calls; every call is judged by the
    call monitors against the values the table holds at that moment (and the first one against the plain run)."""
    cm = ctx.cm
    tab = c["df"].copy(deep=True)                     # the caller's table; Motl(tab) keeps a reference to it
    kw = dict(metric_id=c["metric"], keep_greater=c["kg"])
    m1 = cm.Motl(tab)
    ok, _ = ctx.call("clean_by_distance[history-1]", m1.clean_by_distance, c["d"], c["feature"], **kw)
    if ok:
        got = _survivor_ids(m1)
        ctx.check("cbd_metamorphic", got == base_ids, None if got == base_ids else {
            "variant": "history-1 (same table again)", "n_expected": len(base_ids), "n_got": len(got)})
    # in place: the metric values change hands (a permutation keeps them distinct)
    mv = tab[c["metric"]].to_numpy().copy()
    tab.loc[:, c["metric"]] = mv[rng.permutation(len(mv))]
    if _in_domain(tab, c):
        ctx.call("clean_by_distance[history-2]", cm.Motl(tab).clean_by_distance, c["d"], c["feature"], **kw)
    else:
        ctx.ood("cbd_metamorphic")
    # in place: half of the particles move away, one coordinate is mirrored
    far = rng.random(len(tab)) < 0.5
    tab["x"] = tab["x"].to_numpy(dtype=float) + np.where(far, 512.0, 0.0)
    tab["shift_y"] = -tab["shift_y"].to_numpy(dtype=float)
    if _in_domain(tab, c):
        ctx.call("clean_by_distance[history-3]", cm.Motl(tab).clean_by_distance, c["d"], c["feature"], **kw)
    else:
        ctx.ood("cbd_metamorphic")


def _scalar_kind(rng, v):
    """the same number as another scalar kind (python / numpy scalar / 0-d array / narrower float when exact)"""
    kinds = ["python", "python", "float64", "zero_d"]
    if float(v).is_integer():
        kinds += ["int", "int64"]
    if float(np.float32(v)) == float(v):
        kinds += ["float32"]
    k = str(rng.choice(kinds))
    return {"python": v, "float64": np.float64(v), "zero_d": np.array(float(v)), "int": int(v) if k == "int" else v,
            "int64": np.int64(v) if k == "int64" else v, "float32": np.float32(v)}[k]


def _run_cbd(ctx, c):
    cm = ctx.cm
    rng = ctx.rng(c["i"], 1)
    sk = ctx.rng(c["i"], 3)
    m = cm.Motl(c["df"].copy(deep=True))
    ok, _ = ctx.call("clean_by_distance", m.clean_by_distance, _scalar_kind(sk, c["d"]), c["feature"], metric_id=c["metric"],
                     keep_greater=(np.bool_(c["kg"]) if sk.random() < 0.5 else c["kg"]))
    if not ok:
        return
    base_ids = _survivor_ids(m)
    k0 = c["i"] // len(CLASSES)
    if k0 % 3 == 1:
        _cbd_history(ctx, c, rng, base_ids)
    names = [VARIANTS[k0 % 5], "perturb_other_groups" if (k0 % 5) != 4 else VARIANTS[(k0 // 5) % 4]]
    for name in names:
        vdf, kw, exp = _variant(rng, name, c, base_ids)
        if vdf is None:
            ctx.ood("cbd_metamorphic")
            continue
        mv = cm.Motl(vdf)
        ok, _ = ctx.call("clean_by_distance[%s]" % name, mv.clean_by_distance, c["d"], c["feature"], metric_id=c["metric"],
                         keep_greater=kw["kg"])
        if not ok:
            continue
        if "only_group" in kw:
            sel = mv.df[c["feature"]].to_numpy(dtype=float) == kw["only_group"]
            got = sorted(float(x) for x in mv.df[TAG].to_numpy()[sel])
        else:
            got = _survivor_ids(mv)
        good = got == exp
        ctx.check("cbd_metamorphic", good, None if good else {
            "variant": name, "n": len(c["df"]), "d": c["d"], "feature": c["feature"], "metric": c["metric"], "keep_greater": c["kg"],
            "group": kw.get("only_group"), "n_expected": len(exp), "n_got": len(got),
            "ids_missing": sorted(set(exp) - set(got))[:6], "ids_unexpected": sorted(set(got) - set(exp))[:6]})


MAP_LAYOUTS = ["C", "C", "F", "swap12", "swap12", "swap01", "roll_axes", "negative_strides", "sliced", "readonly_F"]
LIST_LAYOUTS = ["C", "C", "F", "sliced", "readonly", "transposed_view"]
# file names: stems ending in the letters of the extension, glob / bracket characters, spaces, non-ASCII, sub-directory
# (relative to the cwd, which is the shard's scratch directory)
PATH_PATTERNS = ["c07_%s_%d_%s", "c07_%s_%d_%s_ribosome", "c07_%s_%d_%s_frame", "c07 sub [d1]/c07_%s_%d_%s map*?", "c07_%s_%d_%s_\u043a\u0430\u0440\u0442\u0430_\u00e9",
                 "c07_sub/deeper/c07_%s_%d_%s.em.mrc.copy"]


def _layout(arr, kind):
    """the same values in another memory layout (value-preserving; the oracle reads the values the array holds)"""
    a = np.asarray(arr)
    if a.ndim == 2:
        if kind == "F":
            return np.asfortranarray(a)
        if kind == "sliced":
            big = np.zeros((a.shape[0], a.shape[1] * 2), dtype=a.dtype)
            v = big[:, ::2]
            v[...] = a
            return v
        if kind == "readonly":
            r = np.array(a)
            r.setflags(write=False)
            return r
        if kind == "transposed_view":
            return np.ascontiguousarray(a.T).T
        return np.ascontiguousarray(a)
    if kind == "F":
        return np.asfortranarray(a)
    if kind == "swap12":
        return np.swapaxes(np.ascontiguousarray(np.swapaxes(a, 1, 2)), 1, 2)
    if kind == "swap01":
        return np.swapaxes(np.ascontiguousarray(np.swapaxes(a, 0, 1)), 0, 1)
    if kind == "roll_axes":
        return np.moveaxis(np.ascontiguousarray(np.moveaxis(a, 0, 2)), 2, 0)
    if kind == "negative_strides":
        return np.ascontiguousarray(a[::-1, :, ::-1])[::-1, :, ::-1]
    if kind == "sliced":
        big = np.zeros((a.shape[0] * 2, a.shape[1] + 3, a.shape[2]), dtype=a.dtype)
        v = big[::2, 1:1 + a.shape[1], :]
        v[...] = a
        return v
    if kind == "readonly_F":
        r = np.array(a, order="F")
        r.setflags(write=False)
        return r
    return np.ascontiguousarray(a)


def _write_inputs(ctx, c, tag, S, A, L, io, order):
    """materialise the inputs as the requested kinds -> (scores_arg, angles_arg, list_arg)"""
    out = []
    lr = ctx.rng(c["i"], 7 + sum(map(ord, tag)))
    for name, arr, kind in (("s", S, io["scores"]), ("a", A, io["angles"])):
        if kind == "array":
            out.append(_layout(arr, str(lr.choice(MAP_LAYOUTS))))
            continue
        stem = str(lr.choice(PATH_PATTERNS)) % (name, c["i"], tag)
        p = stem + "." + kind                      # relative path: the cwd is the scratch directory
        if lr.random() < 0.5:
            p = os.path.join(ctx.scratch, p)
        if os.path.dirname(p):
            os.makedirs(os.path.dirname(p), exist_ok=True)
        ctx._c07_tmp = getattr(ctx, "_c07_tmp", []) + [p]
        if kind == "em":
            files.write_em_raw(p, np.asarray(arr, dtype=np.float32), code=5)
        else:
            files.write_mrc_raw(p, np.asarray(arr, dtype=np.float32), mode=2)
        out.append(p)
    if io["list"] == "array":
        La = np.array(L)
        if np.all(La == np.round(La)) and np.abs(La).max(initial=0) < 30000 and lr.random() < 0.5:
            La = La.astype(str(lr.choice(["int64", "int32", "int16"])))          # integer Euler angles
        out.append(_layout(La, str(lr.choice(LIST_LAYOUTS))))
    else:
        # a pool of two REUSED paths: consecutive cases of a shard, and the calls within one case, read different lists
        # (and different column orders) from the same file name
        p = os.path.join(ctx.scratch, ["c07_anglist_p0.csv", "c07 angles [p1] \u00e9*.csv"][(c["i"] // 2) % 2])
        _write_list_csv(p, L, order, c["i"] % 2 == 0, c.get("L_tokens") if L is c["L"] else None)
        out.append(p)
    return out


def _write_list_csv(p, L, order, ints_plain, tokens=None):
    cols = L[:, [0, 2, 1]] if order == "zzx" else L          # file columns: zxz -> phi,theta,psi ; zzx -> phi,psi,theta
    if tokens is not None:
        tk = tokens[:, [0, 2, 1]] if order == "zzx" else tokens
        with open(p, "w") as f:
            for r in tk:
                f.write(",".join(str(t) for t in r) + "\n")
        return
    with open(p, "w") as f:
        for r in cols:
            f.write(",".join(repr(int(v)) if (float(v).is_integer() and ints_plain) else repr(float(v)) for v in r) + "\n")


def _peak_table(motl):
    if motl is None:
        return None
    T = motl.df[SX_COLS].to_numpy(dtype=np.float64)
    return T[np.lexsort(T[:, :3].T[::-1])]


def _run_sx(ctx, c):
    tm = ctx.tm
    rng = ctx.rng(c["i"], 1)
    S, A, L = c["S"], c["A"], c["L"]
    sk = ctx.rng(c["i"], 3)
    kw = dict(object_id=c["object_id"], angles_order=c["order"],
              angles_numbering=(np.int64(c["numbering"]) if sk.random() < 0.4 else c["numbering"]))
    if c["thr_kind"].startswith("sigma"):
        kw["sigma_threshold"] = _scalar_kind(sk, c["sigma"])
    else:
        kw["scores_threshold"] = c["thr"] if c["cls"] == "sx_zero_threshold" else _scalar_kind(sk, c["thr"])
    # list semantics: L holds phi,theta,psi.  An ARRAY is taken as phi,theta,psi whatever the order option says.
    args = _write_inputs(ctx, c, "m", S, A, L, c["io"], c["order"])
    dia_arg = _scalar_kind(sk, c["dia"])
    ok, motl = ctx.call("scores_extract_particles", tm.scores_extract_particles, args[0], args[1], args[2], np.int64(c["tomo_id"]) if c["i"] % 3 == 0 else c["tomo_id"],
                        dia_arg, **kw)
    if not ok:
        return
    T0 = _peak_table(motl)
    k0 = c["i"] // len(CLASSES)
    variants = []
    if c["io"]["list"] == "csv":
        variants += ["same_list_file_other_order", "list_file_rewritten"]
    if c["io"] != {"scores": "array", "angles": "array", "list": "array"}:
        variants.append("arrays_instead_of_files")
    elif k0 % 3 == 0:
        variants.append("files_instead_of_arrays")
    elif k0 % 3 == 1:
        variants += ["history_1_same_objects", "history_2_after_inplace_scale_and_new_list", "history_3_after_inplace_flip"]
    H = {}
    variants.append(["axes_permuted_flipped", "scores_times_two"][k0 % 2])
    for name in variants:
        kw2 = dict(kw)
        expect = T0
        if name.startswith("history_") and name != "history_1_same_objects" and "S" not in H:
            ctx.ood("sx_relational")
            continue
        if name == "history_1_same_objects":
            # caller-owned arrays, reused and modified IN PLACE by the next two steps
            H.update(S=np.array(S), A=np.array(A), L=np.array(L, dtype=np.float64), kw=dict(kw), T=T0)
            a2 = [H["S"], H["A"], H["L"]]
        elif name == "history_2_after_inplace_scale_and_new_list":
            H["S"] *= np.asarray(2, dtype=H["S"].dtype)
            H["L"][:] = np.roll(H["L"], 1, axis=0) + np.array([0.5, 0.25, -0.5])
            if not np.all(np.isfinite(H["S"])) or len(np.unique(H["S"])) != H["S"].size:
                H.pop("S")
                ctx.ood("sx_relational")
                continue
            if "scores_threshold" in H["kw"]:
                H["kw"]["scores_threshold"] = H["kw"]["scores_threshold"] * 2
            kw2 = dict(H["kw"])
            a2 = [H["S"], H["A"], H["L"]]
            if H["T"] is not None:
                v = np.round(H["T"][:, :3]).astype(int) - 1
                E = H["T"].copy()
                E[:, 3] *= 2
                E[:, 4:7] = H["L"][np.asarray(H["A"])[v[:, 0], v[:, 1], v[:, 2]].astype(np.int64) - c["numbering"]]
                H["T"] = E
            expect = H["T"]
        elif name == "history_3_after_inplace_flip":
            H["S"][:] = H["S"][::-1].copy()
            H["A"][:] = H["A"][::-1].copy()
            kw2 = dict(H["kw"])
            a2 = [H["S"], H["A"], H["L"]]
            if H["T"] is not None:
                E = H["T"].copy()
                E[:, 0] = H["S"].shape[0] + 1 - E[:, 0]
                H["T"] = E[np.lexsort(E[:, :3].T[::-1])]
            expect = H["T"]
        elif name == "same_list_file_other_order":
            # the very same file, untouched, read with the other column order: theta and psi change places
            a2 = list(args)
            kw2["angles_order"] = "zzx" if kw["angles_order"] == "zxz" else "zxz"
            if T0 is not None:
                expect = T0[:, [0, 1, 2, 3, 4, 6, 5]]
        elif name == "list_file_rewritten":
            # same path, new content (rows rotated by one and shifted): every peak's angles must follow the file
            L2 = np.roll(L, 1, axis=0) + np.array([0.5, 0.25, -0.5])
            _write_list_csv(args[2], L2, kw["angles_order"], False)
            a2 = list(args)
            if T0 is not None:
                v = np.round(T0[:, :3]).astype(int) - 1
                expect = T0.copy()
                expect[:, 4:7] = L2[np.asarray(A)[v[:, 0], v[:, 1], v[:, 2]].astype(np.int64) - c["numbering"]]
        elif name == "arrays_instead_of_files":
            a2 = [S, A, np.array(L)]                 # S is float32 whenever the scores came from a file
        elif name == "files_instead_of_arrays":
            if S.dtype != np.float32 and c["thr_kind"].startswith("sigma"):
                ctx.ood("sx_relational")          # sigma threshold of the float32 file may differ in the last bits
                continue
            io2 = {"scores": str(rng.choice(["em", "mrc"])), "angles": str(rng.choice(["em", "mrc"])), "list": "csv"}
            kw2["angles_order"] = str(rng.choice(["zxz", "zzx"]))
            a2 = _write_inputs(ctx, c, "v", S, A, L, io2, kw2["angles_order"])
        elif name == "axes_permuted_flipped":
            perm = tuple(int(x) for x in rng.permutation(3))
            flips = [bool(rng.integers(0, 2)) for _ in range(3)]
            S2, A2 = np.transpose(S, perm), np.transpose(A, perm)
            sl = tuple(slice(None, None, -1) if fl else slice(None) for fl in flips)
            S2, A2 = np.ascontiguousarray(S2[sl]), np.ascontiguousarray(A2[sl])
            a2 = [S2, A2, np.array(L)]
            if T0 is not None:
                E = T0.copy()
                for ax in range(3):
                    col = T0[:, perm[ax]]
                    E[:, ax] = (S2.shape[ax] + 1 - col) if flips[ax] else col
                expect = E[np.lexsort(E[:, :3].T[::-1])]
            if c["io"]["list"] != "array":
                kw2["angles_order"] = "zxz"
        else:
            S2 = S * np.asarray(2, dtype=S.dtype)
            if not np.all(np.isfinite(S2)) or len(np.unique(S2)) != S2.size:
                ctx.ood("sx_relational")
                continue
            a2 = [S2, A, np.array(L)]
            if "scores_threshold" in kw2:
                kw2["scores_threshold"] = kw2["scores_threshold"] * 2
            if T0 is not None:
                expect = T0.copy()
                expect[:, 3] *= 2
            if c["io"]["list"] != "array":
                kw2["angles_order"] = "zxz"
        if name in ("arrays_instead_of_files",):
            kw2["angles_order"] = "zxz"
        # (kw2["angles_order"] of the two list-file variants was set above)
        ok, mv = ctx.call("scores_extract_particles[%s]" % name, tm.scores_extract_particles, a2[0], a2[1], a2[2], c["tomo_id"], c["dia"], **kw2)
        if not ok:
            continue
        Tv = _peak_table(mv)
        if expect is None or Tv is None:
            good = expect is None and Tv is None
            w = {"variant": name, "reason": "one run returned None, the other did not"}
        else:
            neq = None
            if expect.shape == Tv.shape:
                neq = np.column_stack([expect[:, :4] != Tv[:, :4], np.abs(expect[:, 4:] - Tv[:, 4:]) > ANGLE_TOL])
            good = neq is not None and not neq.any()
            w = {"variant": name, "n_expected": int(len(expect)), "n_got": int(len(Tv))}
            if not good and neq is not None:
                r, cc = np.argwhere(neq)[0]
                w.update(first_diff_row=int(r), field=SX_COLS[int(cc)], expected=expect[r].tolist(), got=Tv[r].tolist())
        ctx.check("sx_relational", good, None if good else dict(w, shape=list(S.shape), diameter=c["dia"], order=kw2["angles_order"],
                                                                numbering=c["numbering"]))
    _sx_to_cbd_flow(ctx, c, rng, motl, args, kw)
    for p in getattr(ctx, "_c07_tmp", []):
        try:
            os.remove(p)
        except OSError:
            pass
    ctx._c07_tmp = []


def _sx_to_cbd_flow(ctx, c, rng, motl, args, kw):
    """FLOW between the two anchors: the very object returned by scores_extract_particles is cleaned by distance (both score
    directions), and another returned object is re-scored / re-ordered in place and cleaned twice.  Every clean is judged by
    the clean_by_distance call monitors against the table the object holds at that moment; the first one additionally
    against a fresh Motl built from a copy of the same values."""
    cm, tm = ctx.cm, ctx.tm
    if motl is None or not (2 <= len(motl.df) <= 1500):
        return
    d = _generic_diameter(rng, float(c["dia"]) * 1.2 + 0.3, float(c["dia"]) * 3.0 + 1.0)
    kg = bool(c["i"] // len(CLASSES) % 2)                       # alternate; the other direction is used on the second object
    fresh = cm.Motl(motl.df.copy(deep=True))
    motl.df.attrs["source"] = "template matching"
    ok, _ = ctx.call("clean_by_distance[on extraction result]", motl.clean_by_distance, d, "tomo_id", metric_id="score", keep_greater=kg)
    ok2, _ = ctx.call("clean_by_distance[fresh copy of extraction result]", fresh.clean_by_distance, d, "tomo_id", metric_id="score", keep_greater=kg)
    if ok and ok2:
        a = motl.df[SX_COLS].to_numpy(dtype=np.float64)
        b = fresh.df[SX_COLS].to_numpy(dtype=np.float64)
        a, b = a[np.lexsort(a[:, :3].T[::-1])], b[np.lexsort(b[:, :3].T[::-1])]
        good = a.shape == b.shape and bool(np.array_equal(a, b))
        ctx.check("cbd_metamorphic", good, None if good else {"variant": "extraction result vs fresh Motl of the same values", "d": d,
                                                              "keep_greater": kg, "n_object": int(len(a)), "n_fresh": int(len(b))})
    # second object: a new extraction, then edited in place, then cleaned twice (the second clean sees the first one's result)
    ok, m2 = ctx.call("scores_extract_particles[for flow]", tm.scores_extract_particles, args[0], args[1], args[2], c["tomo_id"], c["dia"], **kw)
    if not ok or m2 is None or len(m2.df) < 2:
        return
    n = len(m2.df)
    sc = m2.df["score"].to_numpy().copy()
    mode = ["rescore", "reorder", "negate"][c["i"] // len(CLASSES) % 3]
    if mode == "rescore":
        m2.df["score"] = sc[rng.permutation(n)]
    elif mode == "reorder":
        m2.df = m2.df.iloc[rng.permutation(n)]                 # keeps the (now permuted) row labels
    else:
        m2.df["score"] = -sc
    m2.note = "edited after extraction"
    ctx.call("clean_by_distance[edited extraction result]", m2.clean_by_distance, d, "tomo_id", metric_id="score", keep_greater=not kg)
    if len(m2.df) >= 2:
        d2 = _generic_diameter(rng, d * 1.3, d * 2.2)
        ctx.call("clean_by_distance[edited extraction result, again]", m2.clean_by_distance, d2, "object_id", metric_id="score", keep_greater=kg)


def run_case(ctx, case):
    if case["kind"] == "cbd":
        _run_cbd(ctx, case)
    else:
        _run_sx(ctx, case)


# =====================================================================================================
# exhaustive sub-spaces (shard 0)
# =====================================================================================================
def extra(ctx):
    cm, tm = ctx.cm, ctx.tm
    big = ctx.tier == "thorough"
    # (a) all n-point configurations on a 5-site line x all score orders x all 2-group assignments x both directions x 2 radii
    npts, nsites = (4, 5) if big else (3, 4)
    base = gens.motl_table(ctx.rng(10 ** 6), npts, tomos=1)
    count = 0
    for sites in itertools.combinations(range(nsites), npts):
        for perm in itertools.permutations(range(npts)):
            for grp in itertools.product([100000.0, 100001.0], repeat=npts):    # adjacent labels just above 1e5
                if grp[0] != 100000.0:            # group names are interchangeable (relabelling is covered by cbd_metamorphic)
                    continue
                for kg in (True, False):
                    for d in (1.5, 2.5):
                        df = base.copy()
                        df["x"], df["y"], df["z"] = np.array(sites, dtype=float) + 0.75, 10.0, 20.0
                        df["shift_x"], df["shift_y"], df["shift_z"] = 0.25, -1.0, 2.0
                        df["score"] = np.array(perm, dtype=float) / 7.0
                        df["tomo_id"] = np.array(grp)
                        # particle numbering restarts in every group (ids are not unique across the table)
                        df["subtomo_id"] = np.array([sum(1 for q in range(r + 1) if grp[q] == grp[r]) for r in range(npts)], dtype=float)
                        m = cm.Motl(df)
                        ctx.call("clean_by_distance[exhaustive]", m.clean_by_distance, d, "tomo_id", metric_id="score", keep_greater=kg)
                        count += 1
    ctx.extra["cbd_line_configurations(%d points on %d collinear sites x score orders x 2-group assignments x direction x d in {1.5,2.5})" % (npts, nsites)] = count
    # (b) all score orders of a tiny map x diameters x two thresholds
    shape = (1, 2, 3) if big else (1, 1, 5)
    nv = int(np.prod(shape))
    L = np.column_stack([np.arange(nv) * 10.0, np.arange(nv) * 7.0 + 1, np.arange(nv) * 3.0 + 2])
    Amap = np.arange(nv).reshape(shape) + 1
    count = 0
    for perm in itertools.permutations(range(nv)):
        Sm = np.array(perm, dtype=np.float64).reshape(shape) / 4.0
        for dia in (1.0, 1.5, 2.0, 2.5):
            for thr in (-1.0, (nv - 3.5) / 4.0):
                ctx.call("scores_extract_particles[exhaustive]", tm.scores_extract_particles, Sm, Amap, L, 1, dia,
                         scores_threshold=thr, angles_numbering=1)
                count += 1
    ctx.extra["sx_tiny_maps(shape %s: all score orders x diameter in {1,1.5,2,2.5} x 2 thresholds)" % (shape,)] = count
